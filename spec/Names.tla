------------------------------- MODULE Names -------------------------------
(* C08 - names are matched case-insensitively everywhere.

   A name OCCURRENCE is an abstract spelling [b |-> base name, p |-> pattern]; two spellings with the same
   base differ only in letter case.  The catalogue below lists, as data, every combination
   (name kind, definition site, use site) that exists in the workflow language as actionlint checks it,
   which occurrence roles a scenario has (1 = definition, 2 = use, a = other case-insensitive names on the
   way such as `steps`, `outputs`), which flavours make sense (ok = the use refers to the definition;
   undef = the use refers to an undefined sibling; dup = the name is defined twice; diag = the name resolves
   and a diagnostic about something else depends on that; any = no expectation about the base) and the
   names to instantiate it with ({} = the user-chosen names of the configuration).

   Declarative layer : SameName - the property: names of the listed kinds are equal iff they are equal
                       modulo letter case; keywords, string literal contents and schema keys iff identical.
                       DeclVerdict = what is reported for a vector under that reading.
   Operational layer : the code's way - every definition site stores a key, every use site computes a
                       lookup key; a site either folds (strings.ToLower) or keeps the spelling
                       (FoldingDefSites / FoldingUseSites, as read from the code); OpVerdict uses
                       stored key = lookup key.  `Deviations` (normally {}) names sites at which the pinned
                       code is known not to fold.
   TLC checks on every vector: OpVerdict = DeclVerdict; the verdict of a vector equals the verdict of its
   all-lower-case base for the case-insensitive kinds (FlipLaw) and differs for every non-lower spelling
   of a negative control (ControlLaw); the catalogue is well formed (every kind of the property has a
   definition site and a use site, sites are classified).
   `tc` is the vector for the harness: it renders base and flipped documents, lints both with the real
   code; `rel` says whether the two outputs must be equal ("same") or must differ ("differs"), `base`
   what the base output must look like ("clean" / "diag" / "any") for the vector to be meaningful.

   Mode "scen": one state per (scenario, name, flavour, p1, p2, pa).
   Mode "sink": one repository using all kinds at once with SinkN numbered occurrences; one state per
   subset of at most SinkK occurrences (each with a pattern of SinkPats), plain and inverted. *)
EXTENDS Naturals, Sequences, FiniteSets, TLC, Json

CONSTANTS Mode,          \* "scen" | "sink"
          Pats,          \* spelling patterns, "lower" included
          UserNames,     \* set of names; the undefined sibling of n is n \o "z"
          Deviations,    \* sites known not to fold in the pinned code (normally {})
          SinkN, SinkK, SinkPats

----------------------------------------------------------------------------
(* Kinds *)
NameKinds == {"context", "property", "function", "stepid", "jobid", "input", "secret", "output",
              "matrixkey", "withkey", "envkey", "jsonkey"}
\* folded by the code but not named by the property text: a difference is reported as a note only
ExtraKinds == {"servicekey", "permkey"}
ControlKinds == {"keyword", "strlit", "fixedkey"}
Sensitive(kind) == kind \in ControlKinds

(* Sites.  Folding sites lower-case what they store / look up. *)
FoldingDefSites ==
  {"builtin-table",        \* BuiltinGlobalVariableTypes, BuiltinFuncSignatures, SpecialFunctionNames, untrusted tree
   "config-file",          \* config-variables (EqualFold at the lookup)
   "step-id",              \* rule_expression.go VisitStep, rule_id.go
   "jobs-key",             \* parse.go parseJobs (parseMapping, case-insensitive)
   "needs-entry",          \* rule_job_needs.go, rule_expression.go populateDependantNeedsTypes
   "call-inputs-key", "dispatch-inputs-key", "call-secrets-key", "call-outputs-key",      \* parse.go
   "callee-file",          \* reusable_workflow.go UnmarshalYAML (inputs / secrets / outputs)
   "callee-ast",           \* WriteWorkflowCallEvent from the parsed AST
   "action-yml",           \* action_metadata.go UnmarshalYAML (inputs / outputs)
   "popular-table",        \* popular_actions.go (generated with lower-case keys)
   "job-outputs-key", "matrix-row-key", "matrix-include-key", "matrix-value-key", "matrix-section-key",
   "with-key", "secrets-key", "env-key", "services-key", "permissions-key",               \* parse.go
   "json-literal"}         \* expr_type.go typeOfJSONValue
ExactDefSites == {"keyword-table", "json-syntax", "schema"}
FoldingUseSites ==
  {"variable",             \* expr_parser.go VariableNode
   "dot",                  \* expr_parser.go ObjectDerefNode
   "index",                \* expr_sema.go checkIndexAccess, expr_insecure.go
   "call",                 \* expr_sema.go checkFuncCall / checkBuiltinFuncCall / availability, expr_insecure.go
   "needs-entry", "needs-context", "jobs-context", "with-key", "secrets-key", "exclude-key", "include-key",
   "yaml-key"}             \* a second definition looked up in the same mapping (duplicate detection)
ExactUseSites == {"identifier", "literal", "schema-key"}

Sc(sid, kind, def, use, roles, flavs, names) ==
  [sid |-> sid, kind |-> kind, def |-> def, use |-> use, roles |-> roles, flavs |-> flavs, names |-> names]
Z(S) == {<<n, n \o "z">> : n \in S}          \* sibling = name + "z" (never defined)
OU == {"ok", "undef"}
R12a == {"1", "2", "a"}

Contexts == {"github", "env", "job", "steps", "runner", "secrets", "strategy", "matrix", "needs", "inputs", "vars"}
Functions == {"contains", "startswith", "endswith", "format", "join", "tojson", "fromjson", "hashfiles",
              "success", "always", "cancelled", "failure"}
PropPaths == {"github.event_name", "github.sha", "github.event", "github.repository_owner", "runner.os",
              "runner.temp", "job.status", "job.container.id", "job.container.network"}
UntrustedPaths == {"github.event.issue.title", "github.event.pull_request.head.ref", "github.head_ref",
                   "github.event.comment.body"}
UntrustedFilterPaths == {"github.event.commits.*.message", "github.event.pages.*.page_name"}   \* `.*['x']` is not an expression
Keywords == {"true", "false", "null"}

Catalogue == {
  \* ------------------------------------------------------------------ contexts
  Sc("ctx.builtin.var", "context", "builtin-table", "variable", {"2"}, OU, Z(Contexts)),
  Sc("ctx.builtin.avail-ok", "context", "builtin-table", "variable", {"2"}, {"ok"},
     Z({"github", "inputs", "vars", "secrets"})),
  Sc("ctx.builtin.avail-no", "context", "builtin-table", "variable", {"2"}, {"diag"},
     Z({"runner", "job", "steps", "matrix", "needs", "strategy", "env"})),
  \* ---------------------------------------------------------------- properties
  Sc("prop.builtin.dot", "property", "builtin-table", "dot", {"2", "a"}, OU, Z(PropPaths)),
  Sc("prop.builtin.index", "property", "builtin-table", "index", {"2", "a"}, OU, Z(PropPaths)),
  Sc("prop.builtin.sweep-dot", "property", "builtin-table", "dot", {"2", "a"}, {"any"}, {<<"*", "*">>}),
  Sc("prop.builtin.sweep-index", "property", "builtin-table", "index", {"2", "a"}, {"any"}, {<<"*", "*">>}),
  Sc("prop.untrusted.dot", "property", "builtin-table", "dot", {"2", "a"}, {"diag"},
     Z(UntrustedPaths \cup UntrustedFilterPaths)),
  Sc("prop.untrusted.index", "property", "builtin-table", "index", {"2", "a"}, {"diag"}, Z(UntrustedPaths)),
  Sc("prop.step-member.dot", "property", "builtin-table", "dot", {"2", "a"}, OU, Z({"outputs", "conclusion", "outcome"})),
  Sc("prop.needs-member.dot", "property", "builtin-table", "dot", {"2", "a"}, OU, Z({"outputs", "result"})),
  Sc("prop.configvar.dot", "property", "config-file", "dot", R12a, OU, Z({"foo", "cfg_var1"})),   \* no `-` in these names
  Sc("prop.configvar.index", "property", "config-file", "index", R12a, {"ok"}, Z({"foo", "cfg_var1"})),   \* only `vars.x` is checked
  \* ----------------------------------------------------------------- functions
  Sc("func.builtin.call", "function", "builtin-table", "call", {"2"}, OU, Z(Functions)),
  Sc("func.builtin.sweep", "function", "builtin-table", "call", {"2"}, {"any"}, {<<"*", "*">>}),
  Sc("func.special.not-allowed", "function", "builtin-table", "call", {"2"}, {"diag"},
     Z({"hashfiles", "always", "success", "failure", "cancelled"})),
  Sc("func.format.arg-check", "function", "builtin-table", "call", {"2"}, {"diag"}, Z({"format"})),
  Sc("func.fromjson.typed", "function", "builtin-table", "call", {"2"}, {"diag"}, Z({"fromjson"})),
  Sc("func.safe-call.untrusted-arg", "function", "builtin-table", "call", {"2"}, {"ok"},
     Z({"contains", "startswith", "endswith"})),
  Sc("func.unsafe-call.untrusted-arg", "function", "builtin-table", "call", {"2"}, {"diag"}, Z({"format"})),
  \* ------------------------------------------------------------------ step ids
  Sc("stepid.id.dot", "stepid", "step-id", "dot", R12a, OU, {}),
  Sc("stepid.id.index", "stepid", "step-id", "index", R12a, OU, {}),
  Sc("stepid.id.job-outputs", "stepid", "step-id", "dot", R12a, OU, {}),
  Sc("stepid.id.dup", "stepid", "step-id", "yaml-key", {"1", "2"}, {"dup"}, {}),
  \* ------------------------------------------------------------------- job ids
  Sc("jobid.jobs-key.needs-scalar", "jobid", "jobs-key", "needs-entry", {"1", "2"}, OU, {}),
  Sc("jobid.jobs-key.needs-list", "jobid", "jobs-key", "needs-entry", {"1", "2"}, OU, {}),
  Sc("jobid.jobs-key.needs-ctx-dot", "jobid", "jobs-key", "dot", R12a, OU, {}),
  Sc("jobid.jobs-key.needs-ctx-index", "jobid", "jobs-key", "index", R12a, OU, {}),
  Sc("jobid.needs-entry.needs-ctx-dot", "jobid", "needs-entry", "dot", R12a, {"ok"}, {}),
  Sc("jobid.jobs-key.jobs-ctx", "jobid", "jobs-key", "jobs-context", R12a, OU, {}),
  Sc("jobid.jobs-key.dup", "jobid", "jobs-key", "yaml-key", {"1", "2"}, {"dup"}, {}),
  Sc("jobid.needs-entry.dup", "jobid", "needs-entry", "needs-entry", R12a, {"dup"}, {}),
  Sc("jobid.jobs-key.needs-self", "jobid", "jobs-key", "needs-context", R12a, {"diag"}, {}),
  Sc("jobid.jobs-key.needs-cycle", "jobid", "jobs-key", "needs-entry", R12a, {"diag"}, {}),
  \* -------------------------------------------------------------------- inputs
  Sc("input.call-decl.dot", "input", "call-inputs-key", "dot", R12a, OU, {}),
  Sc("input.call-decl.index", "input", "call-inputs-key", "index", R12a, OU, {}),
  Sc("input.call-decl.default-ref", "input", "call-inputs-key", "dot", R12a, OU, {}),
  Sc("input.call-decl.self-ref", "input", "call-inputs-key", "dot", R12a, {"diag"}, {}),
  Sc("input.call-decl.dup", "input", "call-inputs-key", "yaml-key", {"1", "2"}, {"dup"}, {}),
  Sc("input.dispatch-decl.dot", "input", "dispatch-inputs-key", "dot", R12a, OU, {}),
  Sc("input.dispatch-decl.index", "input", "dispatch-inputs-key", "index", R12a, OU, {}),
  Sc("input.dispatch-decl.event-dot", "input", "dispatch-inputs-key", "dot", R12a, OU, {}),
  Sc("input.dispatch-decl.event-index", "input", "dispatch-inputs-key", "index", R12a, OU, {}),
  Sc("input.dispatch-decl.dup", "input", "dispatch-inputs-key", "yaml-key", {"1", "2"}, {"dup"}, {}),
  Sc("input.call+dispatch.merge", "input", "call-inputs-key", "yaml-key", R12a, {"ok"}, {}),
  Sc("input.callee-file.with-key", "input", "callee-file", "with-key", R12a, OU, {}),
  Sc("input.callee-ast.with-key", "input", "callee-ast", "with-key", R12a, OU, {}),
  Sc("input.callee-file.with-type", "input", "callee-file", "with-key", {"1", "2"}, {"diag"}, {}),
  Sc("input.callee-ast.with-type", "input", "callee-ast", "with-key", {"1", "2"}, {"diag"}, {}),
  Sc("input.action-local.with-key", "input", "action-yml", "with-key", {"1", "2"}, OU, {}),
  Sc("input.action-local.args-entrypoint", "input", "action-yml", "with-key", {"1", "2"}, {"ok"}, {<<"args+entrypoint", "-">>}),
  Sc("input.action-local.dup", "input", "action-yml", "yaml-key", {"1", "2"}, {"dup"}, {}),
  Sc("input.action-popular.with-key", "input", "popular-table", "with-key", {"2"}, OU,
     Z({"ref", "token", "fetch-depth"})),
  Sc("input.action-popular.required", "input", "popular-table", "with-key", {"2"}, {"ok"}, {<<"path+key", "-">>}),
  Sc("input.action-popular.sweep", "input", "popular-table", "with-key", {"2", "a"}, {"any"}, {<<"*", "*">>}),
  \* ----------------------------------------------------------------- with keys
  Sc("withkey.step-with.dup", "withkey", "with-key", "yaml-key", {"1", "2"}, {"dup"}, {}),
  Sc("withkey.job-with.dup", "withkey", "with-key", "yaml-key", {"1", "2"}, {"dup"}, {}),
  Sc("withkey.docker.entrypoint-args", "withkey", "builtin-table", "with-key", {"1", "2"}, {"ok"},
     {<<"entrypoint+args", "-">>}),
  \* keys routed by name inside the case-insensitive `with:` mapping (parse.go parseStep: args / entrypoint)
  Sc("withkey.popular.entrypoint-args", "withkey", "builtin-table", "with-key", {"1", "2"}, {"ok"},
     {<<"entrypoint+args", "-">>}),
  Sc("withkey.action-local.entrypoint-args", "withkey", "builtin-table", "with-key", {"1", "2"}, {"ok"},
     {<<"entrypoint+args", "-">>}),
  Sc("withkey.popular.args-expr", "withkey", "builtin-table", "with-key", {"2"}, {"diag"}, Z({"args", "entrypoint"})),
  Sc("withkey.github-script.script", "withkey", "builtin-table", "with-key", {"2"}, {"diag"}, {<<"script", "-">>}),
  \* ------------------------------------------------------------------- secrets
  Sc("secret.call-decl.dot", "secret", "call-secrets-key", "dot", R12a, OU, {}),
  Sc("secret.call-decl.index", "secret", "call-secrets-key", "index", R12a, OU, {}),
  Sc("secret.call-decl.dup", "secret", "call-secrets-key", "yaml-key", {"1", "2"}, {"dup"}, {}),
  Sc("secret.builtin.dot", "secret", "builtin-table", "dot", {"2", "a"}, OU,
     Z({"github_token", "actions_step_debug", "actions_runner_debug"})),
  Sc("secret.callee-file.secrets-key", "secret", "callee-file", "secrets-key", R12a, OU, {}),
  Sc("secret.callee-ast.secrets-key", "secret", "callee-ast", "secrets-key", R12a, OU, {}),
  Sc("secret.job-secrets.dup", "secret", "secrets-key", "yaml-key", {"1", "2"}, {"dup"}, {}),
  \* ------------------------------------------------------------------- outputs
  Sc("output.job-decl.needs-dot", "output", "job-outputs-key", "dot", R12a, OU, {}),
  Sc("output.job-decl.needs-index", "output", "job-outputs-key", "index", R12a, OU, {}),
  Sc("output.job-decl.jobs-ctx", "output", "job-outputs-key", "dot", R12a, OU, {}),
  Sc("output.job-decl.dup", "output", "job-outputs-key", "yaml-key", {"1", "2"}, {"dup"}, {}),
  Sc("output.call-decl.dup", "output", "call-outputs-key", "yaml-key", {"1", "2"}, {"dup"}, {}),
  Sc("output.action-local.dup", "output", "action-yml", "yaml-key", {"1", "2"}, {"dup"}, {}),
  Sc("output.action-local.steps-dot", "output", "action-yml", "dot", R12a, OU, {}),
  Sc("output.action-local.steps-index", "output", "action-yml", "index", R12a, OU, {}),
  Sc("output.action-popular.steps-dot", "output", "popular-table", "dot", {"2", "a"}, OU, Z({"cache-hit"})),
  Sc("output.callee-file.needs-dot", "output", "callee-file", "dot", R12a, OU, {}),
  Sc("output.callee-ast.needs-dot", "output", "callee-ast", "dot", R12a, OU, {}),
  \* --------------------------------------------------------------- matrix keys
  Sc("matrix.row-key.dot", "matrixkey", "matrix-row-key", "dot", R12a, OU, {}),
  Sc("matrix.row-key.index", "matrixkey", "matrix-row-key", "index", R12a, OU, {}),
  Sc("matrix.include-key.dot", "matrixkey", "matrix-include-key", "dot", R12a, OU, {}),
  Sc("matrix.row-key.exclude-key", "matrixkey", "matrix-row-key", "exclude-key", {"1", "2"}, OU, {}),
  Sc("matrix.include-key.exclude-key", "matrixkey", "matrix-include-key", "exclude-key", {"1", "2"}, OU, {}),
  Sc("matrix.row-key.include-key", "matrixkey", "matrix-row-key", "include-key", R12a, {"ok"}, {}),
  Sc("matrix.row-key.dup", "matrixkey", "matrix-row-key", "yaml-key", {"1", "2"}, {"dup"}, {}),
  Sc("matrix.include-key.dup", "matrixkey", "matrix-include-key", "yaml-key", {"1", "2"}, {"dup"}, {}),
  Sc("matrix.value-key.dot", "matrixkey", "matrix-value-key", "dot", R12a, OU, {}),
  Sc("matrix.include-value-key.dot", "matrixkey", "matrix-value-key", "dot", R12a, OU, {}),
  Sc("matrix.value-key.exclude", "matrixkey", "matrix-value-key", "exclude-key", {"1", "2"}, OU, {}),
  Sc("matrix.section-key.include", "matrixkey", "matrix-section-key", "yaml-key", {"1", "2"}, {"ok"},
     {<<"include+exclude", "-">>}),
  \* ------------------------------------------------------------------ env keys
  Sc("env.workflow.dup", "envkey", "env-key", "yaml-key", {"1", "2"}, {"dup"}, {}),
  Sc("env.job.dup", "envkey", "env-key", "yaml-key", {"1", "2"}, {"dup"}, {}),
  Sc("env.step.dup", "envkey", "env-key", "yaml-key", {"1", "2"}, {"dup"}, {}),
  Sc("env.workflow.dot", "envkey", "env-key", "dot", R12a, {"ok"}, {}),
  \* ---------------------------------------------------------- JSON literal keys
  Sc("json.fromjson.dot", "jsonkey", "json-literal", "dot", R12a, OU, {}),
  Sc("json.fromjson.index", "jsonkey", "json-literal", "index", R12a, OU, {}),
  Sc("json.fromjson-nested.dot", "jsonkey", "json-literal", "dot", R12a, OU, {}),
  Sc("json.fromjson-nested.index", "jsonkey", "json-literal", "index", R12a, OU, {}),
  Sc("json.fromjson-array.dot", "jsonkey", "json-literal", "dot", R12a, OU, {}),
  Sc("json.matrix-expr.dot", "jsonkey", "json-literal", "dot", R12a, OU, {}),
  Sc("json.matrix-expr-include.dot", "jsonkey", "json-literal", "dot", R12a, OU, {}),
  Sc("json.matrix-expr.section-key", "jsonkey", "json-literal", "yaml-key", {"1", "2"}, {"ok"},
     {<<"include+exclude", "-">>}),
  Sc("json.matrix-row-expr.dot", "jsonkey", "json-literal", "dot", R12a, OU, {}),
  Sc("json.matrix-include-expr.dot", "jsonkey", "json-literal", "dot", R12a, OU, {}),
  \* ------------------------------------ folded by the code, not named in the property
  Sc("service.key.dup", "servicekey", "services-key", "yaml-key", {"1", "2"}, {"dup"}, {}),
  Sc("service.key.dot", "servicekey", "services-key", "dot", R12a, {"ok"}, {}),
  Sc("perm.scope-key.known", "permkey", "builtin-table", "yaml-key", {"2"}, OU,
     Z({"contents", "pull-requests", "id-token"})),
  Sc("perm.scope-key.dup", "permkey", "permissions-key", "yaml-key", {"1", "2"}, {"dup"}, Z({"contents"})),
  \* ------------------------------------------- negative controls (case-sensitive)
  Sc("ctl.keyword.value", "keyword", "keyword-table", "identifier", {"2"}, {"ok"}, Z(Keywords)),
  Sc("ctl.keyword.matrix-value", "keyword", "keyword-table", "identifier", {"2"}, {"ok"}, Z(Keywords)),
  Sc("ctl.strlit.json-keyword", "strlit", "json-syntax", "literal", {"2"}, {"ok"}, Z(Keywords)),
  Sc("ctl.strlit.json-scalar", "strlit", "json-syntax", "literal", {"2"}, {"ok"}, Z(Keywords)),
  Sc("ctl.fixedkey.job", "fixedkey", "schema", "schema-key", {"2"}, {"ok"},
     Z({"runs-on", "steps", "needs", "env", "outputs", "strategy", "matrix", "run", "id", "uses", "with"})),
  Sc("ctl.fixedkey.top", "fixedkey", "schema", "schema-key", {"2"}, {"ok"},
     Z({"name", "on", "workflow_call", "inputs", "type", "jobs"})),
  Sc("ctl.fixedkey.call", "fixedkey", "schema", "schema-key", {"2"}, {"ok"}, Z({"uses", "with", "secrets"}))
}

NamesOf(s) == IF s.names = {} THEN Z(UserNames) ELSE s.names

----------------------------------------------------------------------------
(* Vectors and verdicts *)
Vec(s, nm, f, p1, p2, pa) ==
  [sid |-> s.sid, kind |-> s.kind, def |-> s.def, use |-> s.use, name |-> nm[1], alt |-> nm[2],
   flavour |-> f, p1 |-> p1, p2 |-> p2, pa |-> pa]
BaseOf(v) == [v EXCEPT !.p1 = "lower", !.p2 = "lower", !.pa = "lower"]

Sp(b, p) == [b |-> b, p |-> p]
Lower(sp) == Sp(sp.b, "lower")
DefSp(v) == Sp(v.name, v.p1)                               \* built-in tables: p1 is always "lower"
UseSp(v) == Sp(IF v.flavour = "undef" THEN v.alt ELSE v.name, v.p2)

\* declarative: the property
SameName(kind, a, b) == IF Sensitive(kind) THEN a = b ELSE a.b = b.b
DeclFound(v) == SameName(v.kind, DefSp(v), UseSp(v))

\* operational: stored key = lookup key
Stored(site, sp) == IF site \in FoldingDefSites \ Deviations THEN Lower(sp) ELSE sp
Looked(site, sp) == IF site \in FoldingUseSites \ Deviations THEN Lower(sp) ELSE sp
\* a second definition is looked up with the key its own definition site computes
LookupKey(v) == IF v.use = "yaml-key" THEN Stored(v.def, UseSp(v)) ELSE Looked(v.use, UseSp(v))
AuxFound(v) == Looked("dot", Sp("aux", v.pa)) = Sp("aux", "lower")     \* aux names come from folding tables
OpFound(v) == Stored(v.def, DefSp(v)) = LookupKey(v) /\ AuxFound(v)

Verdict(v, found) ==
  CASE v.flavour \in {"ok", "undef"} -> IF found THEN "clean" ELSE "unresolved"
    [] v.flavour = "dup" -> IF found THEN "duplicate" ELSE "clean"
    [] v.flavour = "diag" -> IF found THEN "diag" ELSE "unresolved"
    [] v.flavour = "any" -> IF found THEN "resolved" ELSE "unresolved"
DeclVerdict(v) == Verdict(v, DeclFound(v))
OpVerdict(v) == Verdict(v, OpFound(v))

Rel(v) == IF DeclVerdict(v) = DeclVerdict(BaseOf(v)) THEN "same" ELSE "differs"
BaseClass(v) == LET b == DeclVerdict(BaseOf(v)) IN
                IF v.flavour = "any" THEN "any" ELSE IF b = "clean" THEN "clean" ELSE "diag"
Listed(v) == v.kind \in NameKinds \cup ControlKinds

VecJson(v) == ToJson([sid |-> v.sid, kind |-> v.kind, def |-> v.def, use |-> v.use, name |-> v.name, alt |-> v.alt,
                      flavour |-> v.flavour, p1 |-> v.p1, p2 |-> v.p2, pa |-> v.pa,
                      sens |-> Sensitive(v.kind), listed |-> Listed(v), rel |-> Rel(v), base |-> BaseClass(v)])

----------------------------------------------------------------------------
(* Generators *)
VARIABLES vec, flips, inv, tc
vars == <<vec, flips, inv, tc>>

InitVec == [sid |-> "init", kind |-> "context", def |-> "builtin-table", use |-> "variable", name |-> "github",
            alt |-> "githubz", flavour |-> "ok", p1 |-> "lower", p2 |-> "lower", pa |-> "lower"]

\* "doc" = the spelling of GitHub's documentation (startsWith, toJSON, ...; all lower case for most names): the
\* all-lower-case base is not privileged, every spelling must agree with it.  Not a spelling of its own for controls.
PatsFor(s, role) == IF role \in s.roles THEN (IF Sensitive(s.kind) THEN Pats \ {"doc"} ELSE Pats) ELSE {"lower"}
ScenNext ==
  /\ vec.sid = "init"
  /\ \E s \in Catalogue : \E nm \in NamesOf(s) : \E f \in s.flavs :
       \E p1 \in PatsFor(s, "1") : \E p2 \in PatsFor(s, "2") : \E pa \in PatsFor(s, "a") :
         vec' = Vec(s, nm, f, p1, p2, pa)
  /\ tc' = VecJson(vec')
  /\ UNCHANGED <<flips, inv>>

MaxI(F) == IF F = {} THEN 0 ELSE CHOOSE i \in {x.i : x \in F} : \A y \in F : y.i <= i
SinkJson(F, b) == ToJson([sid |-> "sink", flips |-> F, inv |-> b, rel |-> "same", base |-> "any", listed |-> TRUE,
                          sens |-> FALSE, kind |-> "all", flavour |-> "any", name |-> "", alt |-> ""])
SinkNext ==
  /\ Cardinality(flips) < SinkK
  /\ \E i \in (MaxI(flips) + 1) .. SinkN : \E p \in SinkPats : flips' = flips \cup {[i |-> i, p |-> p]}
  /\ inv' = inv
  /\ tc' = SinkJson(flips', inv')
  /\ UNCHANGED vec

Init == /\ vec = InitVec
        /\ flips = {}
        /\ inv \in (IF Mode = "sink" THEN BOOLEAN ELSE {FALSE})
        /\ tc = IF Mode = "sink" THEN SinkJson({}, inv) ELSE VecJson(InitVec)
Next == IF Mode = "sink" THEN SinkNext ELSE ScenNext
Spec == Init /\ [][Next]_vars

----------------------------------------------------------------------------
(* Invariants (E) *)
OpEqualsDecl == OpVerdict(vec) = DeclVerdict(vec)
FlipLaw == ~Sensitive(vec.kind) => DeclVerdict(vec) = DeclVerdict(BaseOf(vec)) /\ OpVerdict(vec) = OpVerdict(BaseOf(vec))
ControlLaw == (Sensitive(vec.kind) /\ vec.p2 # "lower") =>
                 DeclVerdict(vec) # DeclVerdict(BaseOf(vec)) /\ OpVerdict(vec) # OpVerdict(BaseOf(vec))
SidsUnique == \A s, t \in Catalogue : s.sid = t.sid => s = t
CatalogueWellFormed ==
  /\ SidsUnique
  /\ \A s \in Catalogue :
       /\ s.kind \in NameKinds \cup ExtraKinds \cup ControlKinds
       /\ s.def \in FoldingDefSites \cup ExactDefSites
       /\ s.use \in FoldingUseSites \cup ExactUseSites
       /\ Sensitive(s.kind) <=> (s.def \in ExactDefSites /\ s.use \in ExactUseSites)
       /\ ~Sensitive(s.kind) => (s.def \in FoldingDefSites /\ s.use \in FoldingUseSites)
       /\ s.roles \subseteq {"1", "2", "a"} /\ s.roles # {}
       /\ s.flavs \subseteq {"ok", "undef", "dup", "diag", "any"} /\ s.flavs # {}
  \* every kind of the property has a definition site and a use site, and a resolving and a non-resolving flavour
  /\ \A k \in NameKinds : \E s \in Catalogue : s.kind = k /\ "ok" \in s.flavs
  /\ \A k \in NameKinds \ {"envkey", "withkey"} : \E s \in Catalogue : s.kind = k /\ "undef" \in s.flavs
  /\ \A k \in ControlKinds : \E s \in Catalogue : s.kind = k
  \* every folding site is exercised by some scenario
  /\ \A d \in FoldingDefSites : \E s \in Catalogue : s.def = d
  /\ \A u \in FoldingUseSites : \E s \in Catalogue : s.use = u
SinkBound == Mode = "sink" => Cardinality(flips) <= SinkK /\ \A x \in flips : x.i \in 1 .. SinkN
=============================================================================
