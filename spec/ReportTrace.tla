---------------------------- MODULE ReportTrace ----------------------------
(* Trace validation for Report: every record of trace.ndjson is one execution of the real code.
     k = "text" : one lint run in a line-oriented output mode.  ds = the []*Error returned by the
                  same call (file, line, col, msg, kind, lb = line terminators contained in msg),
                  ls = the physical lines of stdout, each with p (text without colour sequences),
                  g/n/eq (gutter class, gutter line number, text = that source line) and m = what the
                  SHIPPED matcher regexp captured on p.  snip = the mode may print snippets.
                  A record may stem from one invocation over several files (LintFiles): ds is then
                  the list over all files in argument order.  pre = 1: the user template begins
                  with a line "total=<number of diagnostics>" (one per execution of the template).
     k = "json" : -format '{{json .}}': parsed = the decoded array.
     k = "snip" : one (source, line, col) triple through PrettyPrint (pp), GetTemplateFields (tf)
                  and the JSON formatter (fmt).
   PropVerdict judges the property with the declarative layer only and names the first clause that
   fails; ModelOK is equality with the operational model (only "model drift").  A rejected record
   does not stop validation. *)
EXTENDS Integers, Sequences, TLC, Json
CONSTANTS Gen, MaxDiags, MaxAtoms, MsgAtoms, KindPat, MaxChars, LineAtoms, Lines, Cols, Frames, Guarded
VARIABLES l, mism, drift, g, tc

R == INSTANCE Report

Trace == ndJsonDeserialize("trace.ndjson")

\* the one header line of a diagnostic
Hdr(d) == d.file \o ":" \o ToString(d.line) \o ":" \o ToString(d.col) \o ": " \o d.msg \o " [" \o d.kind \o "]"
MatchOK(m, d) ==
  m.ok /\ m.file = d.file /\ m.line = d.line /\ m.col = d.col /\ m.msg = d.msg /\ m.kind = d.kind

\* Render(mode)(ds) is the image of ds: header of ds[i] (then, in snippet modes, optionally the three
\* gutter lines showing source line ds[i].line), nothing else, in order
RECURSIVE Walk(_, _, _, _, _)
Walk(ls, ds, i, p, snip) ==
  IF i > Len(ds) THEN (IF p > Len(ls) THEN "ok" ELSE "count")
  ELSE IF p > Len(ls) THEN "count"
  ELSE IF ls[p].p # Hdr(ds[i]) THEN "header"
  ELSE IF ~MatchOK(ls[p].m, ds[i]) THEN "matcher"
  ELSE IF snip /\ p + 3 <= Len(ls) /\ ls[p + 1].g = "bar" /\ ls[p + 2].g = "src" /\ ls[p + 3].g = "ind"
    THEN (IF ls[p + 2].n = ds[i].line /\ ls[p + 2].eq THEN Walk(ls, ds, i + 1, p + 4, snip) ELSE "snippet")
  ELSE Walk(ls, ds, i + 1, p + 1, snip)

TextVerdict(r) ==
  IF r.fail # "" THEN "fails"
  ELSE IF \E i \in DOMAIN r.ds : r.ds[i].lb # <<>> THEN "linebreak"
  \* pre = 1: the template starts with a "total=<number of diagnostics>" line, printed once per execution
  ELSE IF r.pre = 1 THEN
       (IF r.ls = <<>> THEN "template"
        ELSE IF r.ls[1].p # "total=" \o ToString(Len(r.ds)) THEN "template"
        ELSE Walk(r.ls, r.ds, 1, 2, r.snip))
  ELSE Walk(r.ls, r.ds, 1, 1, r.snip)

JsonVerdict(r) ==
  IF r.fail # "" THEN "fails"
  ELSE IF ~r.ok \/ Len(r.parsed) # Len(r.ds) THEN "json"
  ELSE IF \A i \in DOMAIN r.ds :
            /\ r.parsed[i].msg = r.ds[i].msg /\ r.parsed[i].file = r.ds[i].file
            /\ r.parsed[i].line = r.ds[i].line /\ r.parsed[i].col = r.ds[i].col
            /\ r.parsed[i].kind = r.ds[i].kind
       THEN "ok" ELSE "json"

\* which clause of SnipOK an observation breaks
SnipClause(r, o) ==
  IF o.k = "snip" /\ (r.line \notin 1 .. R!NumLines(r.src) \/ o.shown # r.line) THEN "line"
  ELSE IF o.k = "snip" /\ o.ind THEN "caret"
  ELSE "end"

\* k = "tmpl": a user template given as a list of parts (literal text or a field name), executed over
\* ds; out = stdout.  The output is the concatenation, diagnostic by diagnostic, of the parts with the
\* fields filled in verbatim.
Piece(p, d) ==
  CASE p.t = "lit" -> p.v
    [] p.t = "line" -> ToString(d.line)
    [] p.t = "col" -> ToString(d.col)
    [] p.t = "file" -> d.file
    [] p.t = "msg" -> d.msg
    [] p.t = "kind" -> d.kind
RECURSIVE TmplOne(_, _, _)
TmplOne(parts, d, i) == IF i > Len(parts) THEN "" ELSE Piece(parts[i], d) \o TmplOne(parts, d, i + 1)
RECURSIVE TmplAll(_, _, _)
TmplAll(parts, ds, i) == IF i > Len(ds) THEN "" ELSE TmplOne(parts, ds[i], 1) \o TmplAll(parts, ds, i + 1)
TmplVerdict(r) ==
  IF r.fail # "" THEN "fails"
  ELSE IF r.out = TmplAll(r.parts, r.ds, 1) THEN "ok" ELSE "template"

\* two real outputs for the same Error: what PrettyPrint draws and what the template fields carry.
\* An indicator drawn by one is carried by the other, at the same place and with the same length, below the
\* same line; EndColumn is the end of the indicator, or the column when there is none.
PPAgreesTF(r) ==
  /\ (r.pp.k = "snip" /\ r.pp.ind) =>
        r.tf.k = "snip" /\ r.tf.ind /\ r.tf.shown = r.pp.shown /\ r.tf.caret = r.pp.caret /\ r.tf.ul = r.pp.ul
  /\ (r.tf.k = "snip" /\ r.tf.ind) =>
        r.pp.k = "snip" /\ r.pp.ind /\ r.pp.shown = r.tf.shown /\ r.pp.caret = r.tf.caret /\ r.pp.ul = r.tf.ul
  /\ r.tf.ind => r.tf.end = r.tf.caret + 1 + r.tf.ul
  /\ ~r.tf.ind => r.tf.end = r.col

SnipVerdict(r) ==
  IF r.pp.k = "panic" \/ r.tf.k = "panic" THEN "panic"
  ELSE IF r.pp.k \notin {"none", "snip"} \/ r.tf.k \notin {"none", "snip"} THEN "malformed"
  ELSE IF ~R!SnipOK(r.src, r.line, r.col, r.pp) THEN "pp-" \o SnipClause(r, r.pp)
  ELSE IF ~R!SnipOK(r.src, r.line, r.col, r.tf) THEN "fields-" \o SnipClause(r, r.tf)
  ELSE IF ~PPAgreesTF(r) THEN "pp-vs-fields"
  ELSE IF r.fmt # "ok" THEN "format"
  ELSE "ok"

PropVerdict(r) ==
  CASE r.k = "text" -> TextVerdict(r)
    [] r.k = "json" -> JsonVerdict(r)
    [] r.k = "snip" -> SnipVerdict(r)
    [] r.k = "tmpl" -> TmplVerdict(r)
    [] OTHER -> "unknown"

ModelOK(r) ==
  r.k = "snip" => r.pp = R!PP(r.src, r.line, r.col) /\ r.tf = R!TF(r.src, r.line, r.col)

Init == l = 1 /\ mism = <<>> /\ drift = <<>> /\ g = [k |-> "trace"] /\ tc = ""
Step ==
  /\ l <= Len(Trace)
  /\ LET r == Trace[l]
         v == PropVerdict(r) IN
       /\ mism' = IF v = "ok" \/ Len(mism) >= 50000 THEN mism ELSE Append(mism, <<l, v>>)
       /\ drift' = IF ModelOK(r) \/ Len(drift) >= 200 THEN drift ELSE Append(drift, l)
  /\ l' = l + 1
  /\ UNCHANGED <<g, tc>>
Spec == Init /\ [][Step]_<<l, mism, drift, g, tc>>

Report == (l = Len(Trace) + 1) => PrintT(<<"MISM", Len(Trace), drift, mism>>)
=============================================================================
