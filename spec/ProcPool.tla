------------------------------ MODULE ProcPool ------------------------------
(* The external-tool process pool of actionlint: process.go (concurrentProcess, externalCommand),
   rule_shellcheck.go / rule_pyflakes.go (VisitWorkflowPost waits), linter.go (LintFiles:
   per-file goroutines, eg.Wait, proc.wait).

   One action per critical section of the code; the names in quotes are the schedule points
   emitted by the `verif` hooks (process.go), which is how recorded executions are bound to
   this specification (ProcPoolTrace.tla):

     Run(f)        "add"    wg.Add(1) then eg.Go          (visiting thread of file f, step order)
     Go(t)         "go"     goroutine entry
     Acquire(t)    "acq"    sema.Acquire returned          (blocks while sema = Cap)
     ToolStart(t)  "start"  just before exec.run()
     ToolExit(t)   "exit"   exec.run() returned (the tool process has been collected)
     Release(t)    "rel"    just before sema.Release
     Callback(t)   -        rule callback under the rule's mutex: diagnostics or error
     PDone(t)      "done"   wg.Done()
     EDone(t)      -        errgroup bookkeeping of the same goroutine
     EndVisit(f)            all steps visited, VisitWorkflowPost of the rules starts
     RuleWait(f,r) "rwait"  externalCommand.wait() returned (a rule error aborts the pass: VisitAbort)
     EgWait                 LintFiles: eg.Wait() returned (all file goroutines ended)
     ProcWait      "pwait"  proc.wait() returned
     Return                 results (or the fatal error) are handed to the caller

   The configuration (files, tasks per file in issue order, tool outcome per task, Cap) is a
   variable that never changes, so one TLC run covers a set of configurations and a trace spec
   can load it from the trace. *)
EXTENDS Naturals, Sequences, FiniteSets, TLC

CONSTANTS Shapes,        \* set of task layouts: sequences (one per file) of sequences of rule names
          Outcomes,      \* subset of {"ok", "issues", "bad"}
          Caps,          \* set of semaphore capacities
          WaitOnError    \* TRUE: proc.wait() also before returning a fatal error (intended design)

Rules == {"sc", "py"}

VARIABLES cfg,    \* [seq |-> <<<<[id, rule], ...>>, ...>>, out |-> [task id -> outcome], cap |-> Nat]
          ts, sema, wg, pend, err, fpc, fidx, ferr, mpc, diags
vars == <<cfg, ts, sema, wg, pend, err, fpc, fidx, ferr, mpc, diags>>

Files == DOMAIN cfg.seq
TasksOfSeq(sq) == UNION {{sq[f][i].id : i \in DOMAIN sq[f]} : f \in DOMAIN sq}
Tasks == TasksOfSeq(cfg.seq)
FileOf(t) == CHOOSE f \in Files : \E i \in DOMAIN cfg.seq[f] : cfg.seq[f][i].id = t
RuleOf(t) == LET f == FileOf(t) IN cfg.seq[f][CHOOSE i \in DOMAIN cfg.seq[f] : cfg.seq[f][i].id = t].rule
Outcome(t) == cfg.out[t]

\* a shape <<<<"sc","py">>, <<"sc">>>> becomes task records with ids "f1t1", "f1t2", "f2t1"
MkSeq(shape) == [f \in DOMAIN shape |->
                   [i \in DOMAIN shape[f] |-> [id |-> <<f, i>>, rule |-> shape[f][i]]]]

InitFor(c) ==
  /\ cfg = c
  /\ ts = [t \in TasksOfSeq(c.seq) |-> "new"]
  /\ sema = 0 /\ wg = 0
  /\ pend = [f \in DOMAIN c.seq |-> [r \in Rules |-> 0]]
  /\ err = [f \in DOMAIN c.seq |-> [r \in Rules |-> FALSE]]
  /\ fpc = [f \in DOMAIN c.seq |-> "visit"]
  /\ fidx = [f \in DOMAIN c.seq |-> 1]
  /\ ferr = [f \in DOMAIN c.seq |-> FALSE]
  /\ mpc = "egwait"
  /\ diags = {}

Init == \E shape \in Shapes, cap \in Caps :
          \E out \in [TasksOfSeq(MkSeq(shape)) -> Outcomes] :
            InitFor([seq |-> MkSeq(shape), out |-> out, cap |-> cap])

Run(f) ==
  /\ fpc[f] = "visit" /\ fidx[f] <= Len(cfg.seq[f])
  /\ LET t == cfg.seq[f][fidx[f]].id  r == cfg.seq[f][fidx[f]].rule IN
     /\ ts' = [ts EXCEPT ![t] = "added"]
     /\ wg' = wg + 1
     /\ pend' = [pend EXCEPT ![f][r] = @ + 1]
  /\ fidx' = [fidx EXCEPT ![f] = @ + 1]
  /\ UNCHANGED <<cfg, sema, err, fpc, ferr, mpc, diags>>

EndVisit(f) ==
  /\ fpc[f] = "visit" /\ fidx[f] > Len(cfg.seq[f])
  /\ fpc' = [fpc EXCEPT ![f] = "post_sc"]
  /\ UNCHANGED <<cfg, ts, sema, wg, pend, err, fidx, ferr, mpc, diags>>

Step(t, from, to) == ts[t] = from /\ ts' = [ts EXCEPT ![t] = to]

Go(t) == Step(t, "added", "going") /\ UNCHANGED <<cfg, sema, wg, pend, err, fpc, fidx, ferr, mpc, diags>>
Acquire(t) == /\ Step(t, "going", "acquired") /\ sema < cfg.cap /\ sema' = sema + 1
              /\ UNCHANGED <<cfg, wg, pend, err, fpc, fidx, ferr, mpc, diags>>
ToolStart(t) == Step(t, "acquired", "running") /\ UNCHANGED <<cfg, sema, wg, pend, err, fpc, fidx, ferr, mpc, diags>>
ToolExit(t) == Step(t, "running", "exited") /\ UNCHANGED <<cfg, sema, wg, pend, err, fpc, fidx, ferr, mpc, diags>>
Release(t) == /\ Step(t, "exited", "released") /\ sema' = sema - 1
              /\ UNCHANGED <<cfg, wg, pend, err, fpc, fidx, ferr, mpc, diags>>
Callback(t) == /\ Step(t, "released", "cb")
               /\ diags' = IF Outcome(t) = "issues" THEN diags \cup {t} ELSE diags
               /\ UNCHANGED <<cfg, sema, wg, pend, err, fpc, fidx, ferr, mpc>>
PDone(t) == /\ Step(t, "cb", "pdone") /\ wg' = wg - 1
            /\ UNCHANGED <<cfg, sema, pend, err, fpc, fidx, ferr, mpc, diags>>
EDone(t) == /\ Step(t, "pdone", "done")
            /\ LET f == FileOf(t) r == RuleOf(t) IN
               /\ pend' = [pend EXCEPT ![f][r] = @ - 1]
               /\ err' = [err EXCEPT ![f][r] = @ \/ Outcome(t) = "bad"]
            /\ UNCHANGED <<cfg, sema, wg, fpc, fidx, ferr, mpc, diags>>

RuleWait(f, r) ==
  /\ fpc[f] = "post_" \o r /\ pend[f][r] = 0
  /\ IF err[f][r]
       THEN fpc' = [fpc EXCEPT ![f] = "done"] /\ ferr' = [ferr EXCEPT ![f] = TRUE]     \* VisitAbort
       ELSE fpc' = [fpc EXCEPT ![f] = IF r = "sc" THEN "post_py" ELSE "done"] /\ UNCHANGED ferr
  /\ UNCHANGED <<cfg, ts, sema, wg, pend, err, fidx, mpc, diags>>

AnyFatal == \E f \in Files : ferr[f]
EgWait ==
  /\ mpc = "egwait" /\ \A f \in Files : fpc[f] = "done"
  /\ mpc' = IF AnyFatal /\ ~WaitOnError THEN "ret_fatal" ELSE "procwait"
  /\ UNCHANGED <<cfg, ts, sema, wg, pend, err, fpc, fidx, ferr, diags>>
ProcWait ==
  /\ mpc = "procwait" /\ wg = 0
  /\ mpc' = IF AnyFatal THEN "ret_fatal" ELSE "ret_ok"
  /\ UNCHANGED <<cfg, ts, sema, wg, pend, err, fpc, fidx, ferr, diags>>

Next == \/ \E f \in Files : Run(f) \/ EndVisit(f) \/ RuleWait(f, "sc") \/ RuleWait(f, "py")
        \/ \E t \in Tasks : Go(t) \/ Acquire(t) \/ ToolStart(t) \/ ToolExit(t) \/ Release(t)
                            \/ Callback(t) \/ PDone(t) \/ EDone(t)
        \/ EgWait \/ ProcWait
Spec == Init /\ [][Next]_vars /\ WF_vars(Next)

----------------------------------------------------------------------------
Holding == {t \in Tasks : ts[t] \in {"acquired", "running", "exited"}}
InFlight == {t \in Tasks : ts[t] \in {"added", "going", "acquired", "running", "exited", "released", "cb"}}
Returned == mpc \in {"ret_ok", "ret_fatal"}

TypeOK == /\ sema \in 0 .. cfg.cap /\ wg \in 0 .. Cardinality(Tasks)
          /\ \A f \in Files : \A r \in Rules : pend[f][r] \in 0 .. Cardinality(Tasks)
\* never more tool processes than the capacity; the semaphore counts exactly the holders
BoundOK == Cardinality(Holding) <= cfg.cap /\ sema = Cardinality(Holding)
\* a tool process only exists while its task holds a slot
ToolAliveImpliesSlot == \A t \in Tasks : ts[t] = "running" => t \in Holding
WgOK == wg = Cardinality(InFlight)
\* WaitGroup.Add never happens after proc.wait() returned
NoAddAfterWait == mpc \in {"ret_ok", "ret_fatal"} /\ WaitOnError => \A f \in Files : fpc[f] # "visit"
\* all tools have finished and been collected before results are returned
Collected == Returned => InFlight = {}
NoLoss == mpc = "ret_ok" => /\ \A t1 \in Tasks : ts[t1] = "done"
                            /\ diags = {t2 \in Tasks : Outcome(t2) = "issues"}
                            /\ \A t3 \in Tasks : Outcome(t3) # "bad"
\* a failing tool always ends in a fatal error, never in silently dropped diagnostics
FatalIffBad == Returned => ((mpc = "ret_fatal") <=> \E t \in Tasks : Outcome(t) = "bad")
Terminates == <>Returned
=============================================================================
