------------------------------ MODULE Position ------------------------------
(* C07 - diagnostics point at the exact source position (DESIGN.md 5 "C07").

   DECLARATIVE LAYER ("truth").  A workflow file is a sequence of lines of characters.  The abstract
   document (scalars / sequences / mappings, the same S/Q/M trees as Schema.tla, here with a *target*
   mark) is written out as TEXT by `Render` (block style with an indentation unit, sequences indented
   or not under their key, `---`, comment lines above the document, flow style for chosen collections,
   plain / single / double quoted scalars, k extra blanks in front of the target token).  While writing,
   `Render` notes where the first character of the target lands:
        at = << number of complete lines before it + 1 , number of characters before it on its line + 1 >>
   That pair IS the property's "position of the offending token, key or value in the source"; nothing is
   added or subtracted, it is read off the text.  `sc` is the same for the first written character of the
   scalar / key that holds the target (the quote character of a quoted scalar): the position yaml.v3 reports
   for the node (the harness verifies that against yaml.v3 for every vector).

   Which character is "the offending token" is stated per diagnostic class in the catalogue (`Cat`):
        fam "tok"   a token inside a ${{ }} placeholder or inside a bare `if:` condition: the text of the
                    expression is split b \o t \o a, the token is t.  For semantic errors it is the FIRST
                    token of the offending sub-expression (expr_sema.go errorAtExpr: `github` of
                    `github.nope`, the callee of a call with a wrong argument count, the argument itself for
                    a wrong argument type (also among variable-length arguments), the left operand of a comparison, the index of an index access
                    with a wrong index type); for lexer errors the unexpected character; for parser errors
                    the unexpected token (t = "}}": the end marker).
        fam "ph"    the `${{` of the placeholder whose value must not be used in a template
        fam "kv"    a mapping key (role "key") or a scalar value (role "val"), quote character included
        fam "glob"  a character inside a filter pattern

   OPERATIONAL LAYER (the arithmetic of the code, as a small state machine `m`; actions MStart, MIter, ...).
        rule_expression.go checkExprsIn:   col := scalar column (+1 if quoted); offset := 0;
              loop: idx := index of "${{" in the rest; start := idx+3; rest := rest[start:]; offset += start;
                    lexer runs on rest, token position (line 1, column 1 + characters before it);
                    error position := (scalar line + lexline - 1, col + offset + lexcol - 1)  (convertExprLineColToPos)
                    clean placeholder: rest := rest[offsetAfter:]; offset += offsetAfter
        checkTemplateEvaluatedType:        position of `${{` = (line, col + offset - 3)
        checkIfCondition (no ${{ }}):      the condition text itself is lexed, offset 0 -- the INTENDED design adds 1
                                           for a quoted scalar like every other path (missing in the snapshot: finding
                                           C07-if-cond-bare-quoted)
        checkRawYAMLString (matrix value): same loop -- INTENDED: +1 for a quoted scalar (the snapshot passes
                                           quoted=false: finding C07-matrix-value-quoted)
        rule_glob.go globErrors:           col := scalar column (+1 if quoted) + validator column - 1
        parse.go / other rules:            position of the yaml.v3 node of the key / value
   The machine never looks at the rendered text; it gets the yaml.v3 node position `sc`, the Quoted flag and the
   scalar VALUE (as segments: literal text / placeholder text).

   INVARIANTS (checked by TLC for every parameter value of the configuration):
        Exact      the machine's report = the truth `at`
        ShiftLaw   rendering the same document with one more blank before the target / one more line above it
                   moves the truth by exactly one column / one line (so, with Exact, the report moves by k)
        InFile     1 <= line <= number of lines, col >= 1, and the truth lies on a line of the file

   GENERATOR.  Init picks (class, slot); `Place` picks the placement (quote, style, indentation unit, sequence
   indentation, nesting depth, prefix length, number of earlier placeholders, blanks inside the placeholder,
   k inserted blanks, k inserted lines, `---`); the machine runs; `tc` = JSON vector: the abstract document, the
   render options and the predicted (line, col) -- replayed into the real Linter.Lint by `position-run`. *)
EXTENDS Naturals, Sequences, FiniteSets, TLC, Json

CONSTANTS Classes,      \* catalogue classes to generate
          Slots,        \* expression slots to use (subset of AllExprSlots)
          Quotes,       \* subset of {"plain", "single", "double"}
          Styles,       \* subset of {"block", "flow"}: style of the collection that holds the target
          Indents,      \* indentation units, subset of 1..6
          SeqInds,      \* subset of BOOLEAN: sequences indented under their key (FALSE: indentation 0)
          Depths,       \* extra nesting levels of the matrix slot, subset of 0..3
          PrefixLens,   \* literal characters in front of the first placeholder, subset of 0..5
          Earliers,     \* clean placeholders before the one under test, subset of 0..3
          Blanks,       \* blanks after `${{` (leading blanks of a quoted bare condition), subset of 0..3
          Gaps,         \* k blanks inserted in front of the target token, subset of 1..3 (0 is always generated)
          Lines,        \* k lines inserted above the document, subset of 1..3 (0 is always generated)
          DocStarts,    \* subset of BOOLEAN
          Pads,         \* blanks at the start of a QUOTED scalar with placeholders, between its literal text and the
                        \* first placeholder, and at its end; subset of 0..3
          Wraps,        \* 0: every flow collection on one line; n > 0: the flow collection that holds the target is WRAPPED:
                        \* line break in front of the marked entry, continuation line indented n blanks more than the
                        \* line it continues, i.e. LESS than the column of the first entry (line and column order disagree)
          Negs,         \* subset of BOOLEAN: filter pattern written in its negated form `!pattern` (quoted only)
          CheckShiftLaw \* BOOLEAN: evaluate ShiftLaw (two more renderings per vector)

Min(S) == CHOOSE x \in S : \A y \in S : x <= y
ASSUME 0 \in PrefixLens /\ 0 \in Earliers /\ 0 \in Depths /\ 0 \in Pads /\ FALSE \in Negs /\ 0 \in Wraps
\* << k inserted blanks, k inserted lines >>: the unshifted placement, each shift alone, and the largest of both together
Max(S) == CHOOSE x \in S : \A y \in S : x >= y
Shifts == {<<0, 0>>} \cup {<<g, 0>> : g \in Gaps} \cup {<<0, l>> : l \in Lines}
          \cup (IF Gaps # {} /\ Lines # {} THEN {<<Max(Gaps), Max(Lines)>>} ELSE {})

----------------------------------------------------------------------------
(* Abstract documents *)
S0(v) == [k |-> "s", v |-> v, st |-> "", tg |-> ""]
\* target scalar: value pre \o post, the marked character is the first one of post (tg "tok") or the
\* first written character of the scalar (tg "val")
T(pre, post, st, tg) == [k |-> "s", v |-> pre \o post, st |-> st, tg |-> tg, pre |-> pre, post |-> post, brk |-> FALSE]
M(ps) == [k |-> "m", p |-> ps, st |-> ""]
Q(es) == [k |-> "q", e |-> es, st |-> ""]
C(n, cs) == [n EXCEPT !.st = IF cs = "flow" THEN "flow" ELSE ""]
\* ktg: "" | "key" (the KEY is the target) | "prev" (the key is the earlier occurrence a message refers to);
\* brk: a wrapped flow mapping breaks the line in front of this entry
E(key, n) == [key |-> key, kst |-> "", ktg |-> "", brk |-> FALSE, n |-> n]
EK(key, kst, n) == [key |-> key, kst |-> kst, ktg |-> "key", brk |-> FALSE, n |-> n]
EP(key, n) == [key |-> key, kst |-> "", ktg |-> "prev", brk |-> FALSE, n |-> n]
Brk(e) == [e EXCEPT !.brk = TRUE]
\* a scalar that is the earlier occurrence named in the message ("previously defined at", "the same value is at")
P0(v) == [k |-> "s", v |-> v, st |-> "", tg |-> "prev"]

QuoteChar(st) == CASE st = "single" -> "'" [] st = "double" -> "\"" [] OTHER -> ""
IsQuoted(st) == st \in {"single", "double"}

----------------------------------------------------------------------------
(* DECLARATIVE LAYER: the text of the file and where the target lands in it *)
RECURSIVE Sp(_)
Sp(n) == IF n = 0 THEN "" ELSE " " \o Sp(n - 1)

Put(w, s) == [w EXCEPT !.cur = @ \o s]
NL(w) == [w EXCEPT !.ls = Append(@, w.cur), !.cur = ""]
Here(w) == << Len(w.ls) + 1, Len(w.cur) + 1 >>
\* new line of a block collection, indented n blanks
PadLine(w, n) == [Put(NL(w), Sp(n)) EXCEPT !.li = n]
\* separator of two entries of a flow collection: ", " or, in front of a marked entry of a wrapped collection, "," and a
\* continuation line indented o.wrap blanks more than the block line it belongs to
Sep(w, brk) == IF brk /\ w.o.wrap > 0 THEN Put(NL(Put(w, ",")), Sp(w.li + w.o.wrap)) ELSE Put(w, ", ")

PutScalar(w, n) ==
  IF n.tg = "" THEN Put(w, QuoteChar(n.st) \o n.v \o QuoteChar(n.st))
  ELSE IF n.tg = "prev" THEN Put([w EXCEPT !.prev = Here(w)], QuoteChar(n.st) \o n.v \o QuoteChar(n.st))
  ELSE IF n.tg = "tok2"       \* companion: a second construct of the same class, no blanks inserted in front of it
  THEN LET w3 == Put(w, QuoteChar(n.st) \o n.pre) IN
       Put([w3 EXCEPT !.at2 = Here(w3)], n.post \o QuoteChar(n.st))
  ELSE LET w1 == Put(w, Sp(w.o.gap))
           w2 == [w1 EXCEPT !.sc = Here(w1)]
           w3 == Put(w2, QuoteChar(n.st) \o n.pre)
           w4 == [w3 EXCEPT !.at = IF n.tg = "val" THEN w2.sc ELSE Here(w3)]
       IN Put(w4, n.post \o QuoteChar(n.st))

\* inflow: extra blanks in front of a key are only possible inside a flow mapping
PutKey(w, e, inflow) ==
  LET w1 == IF e.ktg = "key" /\ inflow THEN Put(w, Sp(w.o.gap)) ELSE w
      w2 == IF e.ktg = "key" THEN [w1 EXCEPT !.sc = Here(w1), !.at = Here(w1)]
            ELSE IF e.ktg = "prev" THEN [w1 EXCEPT !.prev = Here(w1)] ELSE w1
  IN Put(w2, QuoteChar(e.kst) \o e.key \o QuoteChar(e.kst) \o ":")

IsFlow(n) == n.k # "s" /\ n.st = "flow"

RECURSIVE Block(_, _, _), BMap(_, _, _, _), BSeq(_, _, _, _), Flow(_, _), FSeq(_, _, _), FMap(_, _, _)
Flow(w, n) ==
  IF n.k = "s" THEN PutScalar(w, n)
  ELSE IF n.k = "q" THEN Put(FSeq(Put(w, "["), n, 1), "]")
  ELSE Put(FMap(Put(w, "{"), n, 1), "}")
FSeq(w, n, i) ==
  IF i > Len(n.e) THEN w
  ELSE LET x == n.e[i]
           brk == IF x.k = "s" THEN (IF x.tg \in {"val", "tok"} THEN x.brk ELSE FALSE) ELSE FALSE IN
       FSeq(Flow(IF i > 1 THEN Sep(w, brk) ELSE w, x), n, i + 1)
FMap(w, n, i) ==
  IF i > Len(n.p) THEN w
  ELSE LET w1 == IF i > 1 THEN Sep(w, n.p[i].brk) ELSE w
           w2 == Put(PutKey(w1, n.p[i], TRUE), " ")
       IN FMap(Flow(w2, n.p[i].n), n, i + 1)

Block(w, n, col) == IF n.k = "m" THEN BMap(w, n, col, 1) ELSE BSeq(w, n, col, 1)
BMap(w, n, col, i) ==
  IF i > Len(n.p) THEN w
  ELSE LET x == n.p[i].n
           w1 == IF i > 1 THEN PadLine(w, col - 1) ELSE w
           w2 == PutKey(w1, n.p[i], FALSE)
           c == IF x.k = "q" /\ ~w.o.seqind THEN col ELSE col + w.o.ind
           w3 == IF x.k = "s" THEN PutScalar(Put(w2, " "), x)
                 ELSE IF IsFlow(x) THEN Flow(Put(w2, " "), x)
                 ELSE Block(PadLine(w2, c - 1), x, c)
       IN BMap(w3, n, col, i + 1)
BSeq(w, n, col, i) ==
  IF i > Len(n.e) THEN w
  ELSE LET x == n.e[i]
           w1 == IF i > 1 THEN PadLine(w, col - 1) ELSE w
           w2 == Put(w1, "-")
           w3 == IF x.k = "s" THEN PutScalar(Put(w2, " "), x)
                 ELSE IF IsFlow(x) THEN Flow(Put(w2, " "), x)
                 ELSE Block(Put(w2, " "), x, col + 2)
       IN BSeq(w3, n, col, i + 1)

RECURSIVE Above(_, _)
Above(w, n) == IF n = 0 THEN w ELSE Above(NL(Put(w, "# pad")), n - 1)

\* o = [ind, seqind, gap, kl, docstart]
Render(doc, o) ==
  LET w0 == [ls |-> <<>>, cur |-> "", sc |-> <<0, 0>>, at |-> <<0, 0>>, at2 |-> <<0, 0>>, prev |-> <<0, 0>>,
             li |-> 0, o |-> o]
      w1 == Above(w0, o.kl)
      w2 == IF o.docstart THEN NL(Put(w1, "---")) ELSE w1
  IN NL(Block(w2, doc, 1))

----------------------------------------------------------------------------
(* Catalogue of diagnostic classes.  kind + phrase identify the diagnostic of the real linter (rule name and a
   stable part of its message); they are data for the harness, not used by the specification itself.
   sq: the text contains a single quote (cannot be written single-quoted without an escape sequence)
   fp: the bare text / the value may be written as a plain scalar inside a flow collection (no , [ ] { } ?)
   bp: the bare text may be written as a plain scalar at all;  bare: the class can be a bare `if:` condition *)
\* slots "filter" (branches filter: RuleGlob reports on the same scalar before RuleExpression runs), "types" (activity
\* type: RuleEvents reports first) and "matrixdup2" (the value twice in one matrix row: RuleMatrix reports a duplicate
\* first, and the expression diagnostic is expected at BOTH values) hold TWO diagnosed constructs of two rules in
\* one scalar: a rule must not disturb the position another rule reports for the same node
AllExprSlots == {"env", "runname", "stepname", "run", "with", "matrix", "ifw", "ifb", "jobifb", "timeout", "filter",
                 "types", "matrixdup2"}
NoIf == AllExprSlots \ {"ifw", "ifb", "jobifb"}

X(b, t, a, sq, fp, bp, bare, slots, phrase) ==
  [fam |-> "tok", b |-> b, t |-> t, a |-> a, sq |-> sq, fp |-> fp, bp |-> bp, bare |-> bare, slots |-> slots,
   kind |-> "expression", phrase |-> phrase]
P(b, slots, phrase) ==
  [fam |-> "ph", b |-> b, t |-> "", a |-> "", sq |-> FALSE, fp |-> FALSE, bp |-> FALSE, bare |-> FALSE,
   slots |-> slots, kind |-> "expression", phrase |-> phrase]
\* role "key": entry key: val;  role "val": entry key: <target val>;  role "elem": sequence element <target val>
KV(role, where, key, val, sq, fp, kind, phrase) ==
  [fam |-> "kv", role |-> role, slots |-> {where}, key |-> key, val |-> val, sq |-> sq, fp |-> fp,
   kind |-> kind, phrase |-> phrase]
G(where, key, b, t, a, fp, phrase) ==
  [fam |-> "glob", role |-> "val", slots |-> where, key |-> key, b |-> b, t |-> t, a |-> a, sq |-> FALSE,
   fp |-> fp, kind |-> "glob", phrase |-> phrase]

Cat(c) ==
  CASE c = "undef-prop"      -> X("true && ", "github", ".nope", FALSE, TRUE, TRUE, TRUE, AllExprSlots,
                                  "property \"nope\" is not defined in object type")
    [] c = "undef-prop0"     -> X("", "github", ".nope", FALSE, TRUE, TRUE, TRUE, AllExprSlots,
                                  "property \"nope\" is not defined in object type")
    [] c = "undef-var"       -> X("1 == ", "nope", "", FALSE, TRUE, TRUE, TRUE, AllExprSlots,
                                  "undefined variable \"nope\"")
    [] c = "undef-func"      -> X("true && ", "nope", "(1)", FALSE, TRUE, TRUE, TRUE, AllExprSlots,
                                  "undefined function \"nope\"")
    [] c = "arg-count"       -> X("true && ", "startsWith", "(1)", FALSE, TRUE, TRUE, TRUE, AllExprSlots,
                                  "number of arguments is wrong")
    [] c = "arg-type"        -> X("startsWith(1, ", "github", ")", FALSE, FALSE, TRUE, TRUE, AllExprSlots,
                                  "2nd argument of function call is not assignable")
    [] c = "vararg-type"     -> X("hashFiles(1, 2, ", "github", ")", FALSE, FALSE, TRUE, FALSE, {"stepname", "run", "with"},
                                  "3rd argument of function call is not assignable")
    [] c = "compare"         -> X("true && ", "github", " == 1", FALSE, TRUE, TRUE, TRUE, AllExprSlots,
                                  "value cannot be compared to")
    [] c = "index-type"      -> X("github[", "github", "]", FALSE, FALSE, TRUE, TRUE, AllExprSlots,
                                  "property access of object must be type of string")
    [] c = "index-operand"   -> X("true && ", "github", ".sha[0]", FALSE, FALSE, TRUE, TRUE, AllExprSlots,
                                  "index access operand must be type of object or array")
    [] c = "filter-recv"     -> X("true && ", "github", ".sha.*", FALSE, TRUE, TRUE, TRUE, AllExprSlots,
                                  "must be type of array or object but got")
    [] c = "deref-nonobj"    -> X("true && ", "github", ".sha.x", FALSE, TRUE, TRUE, TRUE, AllExprSlots,
                                  "receiver of object dereference \"x\" must be type of object")
    [] c = "format-unused"   -> X("", "format", "('{0}', 1, 2)", TRUE, FALSE, TRUE, TRUE, AllExprSlots,
                                  "does not contain placeholder {1}")
    [] c = "fromjson"        -> X("fromJSON(", "'{'", ")", TRUE, FALSE, TRUE, TRUE, AllExprSlots,
                                  "broken JSON string is passed to fromJSON()")
    [] c = "cfgvar-name"     -> X("true && ", "vars", ".a-b", FALSE, TRUE, TRUE, TRUE, AllExprSlots,
                                  "configuration variable name \"a-b\" can only contain")
    [] c = "lex-char"        -> X("github.sha ", "~", " 1", FALSE, TRUE, TRUE, TRUE, AllExprSlots,
                                  "got unexpected character '~' while lexing expression")
    [] c = "lex-amp"         -> X("github.sha &", " ", "1", FALSE, TRUE, TRUE, TRUE, AllExprSlots,
                                  "while lexing && operator")
    [] c = "lex-num"         -> X("1", "a", "", FALSE, TRUE, TRUE, TRUE, AllExprSlots,
                                  "while lexing character following number 1")
    [] c = "parse-dot"       -> X("a.", ".", "", FALSE, TRUE, TRUE, TRUE, AllExprSlots,
                                  "unexpected token \".\" while parsing object property dereference")
    [] c = "parse-remain"    -> X("1 ", "2", "", FALSE, TRUE, TRUE, TRUE, AllExprSlots,
                                  "parser did not reach end of input")
    [] c = "parse-end"       -> X("github.", "}}", "", FALSE, TRUE, TRUE, TRUE, AllExprSlots,
                                  "unexpected end of input while parsing object property dereference")
    [] c = "parse-empty"     -> X("", "}}", "", FALSE, TRUE, TRUE, FALSE, AllExprSlots,
                                  "unexpected end of input while parsing variable access")
    [] c = "int-range"       -> X("1 == ", "2147483648", "", FALSE, TRUE, TRUE, TRUE, AllExprSlots,
                                  "parsing invalid integer literal \"2147483648\"")
    \* a }} written in a condition without ${{ }}: the token is the first } of the stray }} (t = "}", a starts with "}")
    [] c = "if-stray-close"  -> X("github.sha ", "}", "} && true", FALSE, FALSE, TRUE, TRUE, {"ifb", "jobifb"},
                                  "unexpected \"}}\" in \"if\" condition")
    [] c = "if-stray-close1" -> X("1", "}", "}", FALSE, FALSE, TRUE, TRUE, {"ifb", "jobifb"},
                                  "unexpected \"}}\" in \"if\" condition")
    [] c = "ctx-notallowed"  -> X("true && ", "runner", ".os", FALSE, TRUE, TRUE, FALSE,
                                  {"env", "runname", "matrix", "matrixdup2", "timeout"}, "context \"runner\" is not allowed here")
    [] c = "func-notallowed" -> X("true && ", "success", "()", FALSE, TRUE, TRUE, FALSE, NoIf,
                                  "calling function \"success\" is not allowed here")
    [] c = "untrusted"       -> X("true && ", "github", ".head_ref", FALSE, TRUE, TRUE, FALSE, {"run"},
                                  "\"github.head_ref\" is potentially untrusted")
    [] c = "tmpl-object"     -> P("github", {"env", "runname", "stepname", "run", "with"},
                                  "should not be evaluated in template with ${{ }}")
    \* ---- keys and values
    [] c = "unknown-key-top"  -> KV("key", "top", "bogus", "x", FALSE, TRUE, "syntax-check",
                                    "unexpected key \"bogus\" for \"workflow\" section")
    [] c = "unknown-key-conc" -> KV("key", "conc", "bogus", "y", FALSE, TRUE, "syntax-check",
                                    "unexpected key \"bogus\" for \"concurrency\" section")
    [] c = "unknown-key-step" -> KV("key", "step", "bogus", "x", FALSE, TRUE, "syntax-check",
                                    "unexpected key \"bogus\" for \"step\" section")
    [] c = "unknown-key-push" -> KV("key", "push", "foo", "bar", FALSE, TRUE, "syntax-check",
                                    "unexpected key \"foo\" for \"push\" section")
    [] c = "dup-key-step"     -> KV("key", "step", "run", "x", FALSE, TRUE, "syntax-check",
                                    "key \"run\" is duplicated in element of \"steps\" section")
    [] c = "env-name"         -> KV("key", "env", "B&C", "y", FALSE, TRUE, "env-var",
                                    "environment variable name \"B&C\" is invalid")
    [] c = "perm-scope"       -> KV("key", "perm", "bogus", "read", FALSE, TRUE, "permissions",
                                    "unknown permission scope \"bogus\"")
    [] c = "perm-value"       -> KV("val", "perm", "issues", "writ", FALSE, TRUE, "permissions",
                                    "\"writ\" is invalid for permission of scope \"issues\"")
    [] c = "perm-all"         -> KV("val", "top", "permissions", "bogus-all", FALSE, TRUE, "permissions",
                                    "is invalid for permission for all the scopes")
    [] c = "input-undefined"  -> KV("key", "with", "bogus", "1", FALSE, TRUE, "action",
                                    "input \"bogus\" is not defined in action")
    [] c = "exclude-unknown"  -> KV("key", "exclude", "q", "1", FALSE, TRUE, "matrix",
                                    "\"q\" in \"exclude\" section does not exist in matrix")
    [] c = "job-id"           -> KV("key", "jobid", "1bad", "", FALSE, TRUE, "id", "invalid job ID \"1bad\"")
    [] c = "needs-unknown"    -> KV("key", "needsunk", "test", "", FALSE, TRUE, "job-needs",
                                    "needs job \"nope\" which does not exist")
    [] c = "needs-dup"        -> KV("elem", "needs", "", "test2", FALSE, TRUE, "job-needs",
                                    "duplicates in \"needs\" section")
    [] c = "step-id"          -> KV("val", "step", "id", "1bad", FALSE, TRUE, "id", "invalid step ID \"1bad\"")
    [] c = "shell-name"       -> KV("val", "step", "shell", "fish", FALSE, TRUE, "shell-name",
                                    "shell name \"fish\" is invalid")
    [] c = "bool-literal"     -> KV("val", "step", "continue-on-error", "maybe", FALSE, TRUE, "syntax-check",
                                    "expression or boolean literal")
    [] c = "bool-type"        -> KV("val", "step", "continue-on-error", "${{ 1 }}", FALSE, FALSE, "expression",
                                    "type of expression must be bool but found type number")
    [] c = "if-always"        -> KV("val", "step", "if", "${{ true }} x", FALSE, FALSE, "if-cond",
                                    "is always evaluated to true")
    [] c = "runner-label"     -> KV("val", "runson", "runs-on", "ubuntu-latestt", FALSE, TRUE, "runner-label",
                                    "label \"ubuntu-latestt\" is unknown")
    [] c = "float-literal"    -> KV("val", "job", "timeout-minutes", "1.5x", FALSE, TRUE, "syntax-check",
                                    "expression or float number literal")
    [] c = "num-type"         -> KV("val", "job", "timeout-minutes", "${{ 'x' }}", TRUE, FALSE, "expression",
                                    "must be number but found type string")
    [] c = "action-format"    -> KV("val", "stepn", "uses", "actions/checkout", FALSE, TRUE, "action",
                                    "in invalid format because ref is missing")
    [] c = "deprecated-cmd"   -> KV("val", "stepn", "run", "echo ::set-output name=x::y", FALSE, TRUE,
                                    "deprecated-commands", "workflow command \"set-output\" was deprecated")
    [] c = "event-unknown"    -> KV("elem", "onseq", "", "bogus", FALSE, TRUE, "events", "unknown Webhook event \"bogus\"")
    [] c = "activity-type"    -> KV("elem", "types", "", "bogus", FALSE, TRUE, "events", "invalid activity type \"bogus\"")
    [] c = "cron"             -> KV("val", "cron", "cron", "0 0 * *", FALSE, TRUE, "events", "invalid CRON format")
    [] c = "dispatch-type"    -> KV("val", "dispatch", "type", "strng", FALSE, TRUE, "syntax-check",
                                    "input type of workflow_dispatch event must be one of")
    [] c = "matrix-dup"       -> KV("elem", "matrixdup", "", "1", FALSE, TRUE, "matrix",
                                    "duplicate value \"1\" is found in matrix \"k\"")
    \* ---- the parser's other diagnostics about a key or a one-line scalar value (parse.go, every p.error* call)
    [] c = "unknown-key-job"      -> KV("key", "job", "bogus", "x", FALSE, TRUE, "syntax-check",
                                        "unexpected key \"bogus\" for \"job\" section")
    [] c = "unknown-key-strategy" -> KV("key", "strategy", "bogus", "x", FALSE, TRUE, "syntax-check",
                                        "unexpected key \"bogus\" for \"strategy\" section")
    [] c = "unknown-key-defrun"   -> KV("key", "defrun", "bogus", "x", FALSE, TRUE, "syntax-check",
                                        "unexpected key \"bogus\" for \"run\" section")
    [] c = "unknown-key-container" -> KV("key", "container", "bogus", "x", FALSE, TRUE, "syntax-check",
                                        "unexpected key \"bogus\" for \"container\" section")
    [] c = "unknown-key-environment" -> KV("key", "environment", "bogus", "x", FALSE, TRUE, "syntax-check",
                                        "unexpected key \"bogus\" for \"environment\" section")
    [] c = "unknown-key-runson"   -> KV("key", "runsonmap", "bogus", "x", FALSE, TRUE, "syntax-check",
                                        "unexpected key \"bogus\" for \"runs-on\" section")
    [] c = "unknown-key-dispatch" -> KV("key", "dispatchtop", "bogus", "x", FALSE, TRUE, "syntax-check",
                                        "key for \"workflow_dispatch\" section but got \"bogus\"")
    [] c = "unknown-key-call"     -> KV("key", "calltop", "bogus", "x", FALSE, TRUE, "syntax-check",
                                        "unexpected key \"bogus\" for \"workflow_call\" section")
    [] c = "dup-key-env"          -> KV("key", "env", "a", "y", FALSE, TRUE, "syntax-check",
                                        "key \"a\" is duplicated in env")
    [] c = "empty-string"         -> KV("val", "image", "image", "", FALSE, TRUE, "syntax-check", "string should not be empty")
    [] c = "int-literal"          -> KV("val", "strategy", "max-parallel", "x", FALSE, TRUE, "syntax-check",
                                        "expression or integer literal")
    [] c = "max-parallel-zero"    -> KV("val", "strategy", "max-parallel", "0", FALSE, TRUE, "syntax-check",
                                        "value at \"max-parallel\" must be greater than zero")
    [] c = "timeout-zero"         -> KV("val", "job", "timeout-minutes", "0", FALSE, TRUE, "syntax-check",
                                        "value at \"timeout-minutes\" must be greater than zero")
    [] c = "schedule-elem"        -> KV("elem", "schedseq", "", "x", FALSE, TRUE, "syntax-check",
                                        "element of \"schedule\" section must be mapping")
    [] c = "event-in-seq"         -> KV("elem", "onseq", "", "schedule", FALSE, TRUE, "syntax-check",
                                        "\"schedule\" event should not be listed in sequence")
    [] c = "event-in-seq2"        -> KV("elem", "onseq", "", "repository_dispatch", FALSE, TRUE, "syntax-check",
                                        "\"repository_dispatch\" event should not be listed in sequence")
    [] c = "on-schedule-scalar"   -> KV("key", "onkey", "on", "schedule", FALSE, TRUE, "syntax-check",
                                        "schedule event must be configured with mapping")
    [] c = "call-input-type"      -> KV("val", "callinput", "type", "strng", FALSE, TRUE, "syntax-check",
                                        "invalid value \"strng\" for input type of workflow_call event")
    [] c = "call-type-missing"    -> KV("key", "callinputkey", "x", "", FALSE, TRUE, "syntax-check",
                                        "\"type\" is missing at \"x\" input of workflow_call event")
    [] c = "call-value-missing"   -> KV("key", "calloutputkey", "o", "", FALSE, TRUE, "syntax-check",
                                        "\"value\" is missing at \"o\" output of workflow_call event")
    [] c = "key-conflict-run"     -> KV("key", "step", "uses", "x", FALSE, TRUE, "syntax-check",
                                        "but also contains \"uses\" key which is used for running action")
    [] c = "key-conflict-uses"    -> KV("key", "stepuses", "shell", "bash", FALSE, TRUE, "syntax-check",
                                        "but also contains \"shell\" key which is used for running shell command")
    [] c = "workdir-with-uses"    -> KV("val", "stepuses", "working-directory", "x", FALSE, TRUE, "syntax-check",
                                        "\"working-directory\" is not available with \"uses\"")
    [] c = "secrets-scalar"       -> KV("val", "calljob", "secrets", "foo", FALSE, TRUE, "syntax-check",
                                        "expected mapping node for secrets or \"inherit\" string node")
    [] c = "call-stepsonly-key"   -> KV("key", "calljob", "runs-on", "ubuntu-latest", FALSE, TRUE, "syntax-check",
                                        "\"runs-on\" is not available")
    [] c = "call-only-key"        -> KV("key", "job", "secrets", "inherit", FALSE, TRUE, "syntax-check",
                                        "\"secrets\" is only available for a reusable workflow call")
    \* ---- the position is chosen among candidates / an earlier occurrence is named
    [] c = "excl-branches"  -> KV("key", "excl", "branches", "branches-ignore", FALSE, TRUE, "events",
                                  "both \"branches\" and \"branches-ignore\" filters cannot be used")
    [] c = "excl-tags"      -> KV("key", "excl", "tags-ignore", "tags", FALSE, TRUE, "events",
                                  "both \"tags\" and \"tags-ignore\" filters cannot be used")
    [] c = "excl-paths"     -> KV("key", "excl", "paths", "paths-ignore", FALSE, TRUE, "events",
                                  "both \"paths\" and \"paths-ignore\" filters cannot be used")
    [] c = "needs-cycle"    -> KV("key", "cycle", "a", "", FALSE, TRUE, "job-needs",
                                  "cyclic dependencies in \"needs\" job configurations are detected")
    [] c = "label-conflict" -> KV("elem", "runsonseq", "", "windows-latest", FALSE, TRUE, "runner-label",
                                  "label \"windows-latest\" conflicts with label \"ubuntu-latest\" defined at")
    [] c = "step-id-dup"    -> KV("val", "stepids", "id", "DUP", FALSE, TRUE, "id", "step ID \"DUP\" duplicates")
    \* ---- runner labels that reach `runs-on: ${{ matrix.os }}` through the matrix: the label scalar in the matrix
    [] c = "matrix-label"   -> KV("elem", "matrixos", "", "ubuntu-latestt", FALSE, TRUE, "runner-label",
                                  "label \"ubuntu-latestt\" is unknown")
    [] c = "include-label"  -> KV("val", "includeos", "os", "ubuntu-bogus", FALSE, TRUE, "runner-label",
                                  "label \"ubuntu-bogus\" is unknown")
    \* ---- two rules report on one scalar: the diagnostic of the rule under test next to one of RuleExpression
    [] c = "deprecated-cmd-expr"  -> KV("val", "stepn", "run", "echo ::set-output name=x::${{ nope }}", FALSE, FALSE,
                                        "deprecated-commands", "workflow command \"set-output\" was deprecated")
    [] c = "if-always-expr"       -> KV("val", "step", "if", "${{ nope }} x", FALSE, FALSE, "if-cond",
                                        "is always evaluated to true")
    [] c = "activity-type-expr"   -> KV("elem", "types", "", "bogus-${{ nope }}", FALSE, FALSE, "events",
                                        "invalid activity type \"bogus-${{ nope }}\"")
    [] c = "matrix-dup-expr"      -> KV("elem", "matrixdupx", "", "${{ nope }}", FALSE, FALSE, "matrix",
                                        "duplicate value \"${{ nope }}\" is found in matrix \"k\"")
    \* ---- characters of filter patterns
    [] c = "glob-refchar-expr" -> G({"globv", "globq"}, "branches", "r", "^", "l-${{nope}}", FALSE,
                                   "character '^' is invalid for branch and tag names")
    [] c = "glob-refchar"     -> G({"globv", "globq"}, "branches", "fo", "^", "o", TRUE,
                                   "character '^' is invalid for branch and tag names")
    [] c = "glob-space"       -> G({"globv", "globq"}, "tags", "ma", " ", "in", TRUE,
                                   "character ' ' is invalid for branch and tag names")
    [] c = "glob-quant"       -> G({"globv", "globq"}, "paths", "a+", "?", "b", FALSE,
                                   "unexpected character '?' while checking special character ? (zero or one)")
    [] c = "glob-empty"       -> G({"globv", "globq"}, "paths-ignore", "a[", "]", "", FALSE,
                                   "character match must not be empty")
    [] c = "glob-range"       -> G({"globv", "globq"}, "branches-ignore", "x[b-", "a", "]", FALSE,
                                   "is larger than end of range")

ExprClasses == {"undef-prop", "undef-prop0", "undef-var", "undef-func", "arg-count", "arg-type", "vararg-type", "compare",
                "index-type", "index-operand", "filter-recv", "deref-nonobj", "format-unused", "fromjson",
                "cfgvar-name", "lex-char", "lex-amp", "lex-num", "parse-dot", "parse-remain", "parse-end",
                "parse-empty", "int-range", "if-stray-close", "if-stray-close1", "ctx-notallowed", "func-notallowed", "untrusted", "tmpl-object"}
KVClasses == {"unknown-key-top", "unknown-key-conc", "unknown-key-step", "unknown-key-push", "dup-key-step",
              "env-name", "perm-scope", "perm-value", "perm-all", "input-undefined", "exclude-unknown", "job-id",
              "needs-unknown", "needs-dup", "step-id", "shell-name", "bool-literal", "bool-type", "if-always",
              "runner-label", "float-literal", "num-type", "action-format", "deprecated-cmd", "event-unknown",
              "activity-type", "cron", "dispatch-type", "matrix-dup",
              "unknown-key-job", "unknown-key-strategy", "unknown-key-defrun", "unknown-key-container",
              "unknown-key-environment", "unknown-key-runson", "unknown-key-dispatch", "unknown-key-call", "dup-key-env",
              "empty-string", "int-literal", "max-parallel-zero", "timeout-zero", "schedule-elem", "event-in-seq",
              "event-in-seq2", "on-schedule-scalar", "call-input-type", "call-type-missing", "call-value-missing",
              "key-conflict-run", "key-conflict-uses", "workdir-with-uses", "secrets-scalar", "call-stepsonly-key",
              "call-only-key", "excl-branches", "excl-tags", "excl-paths", "needs-cycle", "label-conflict", "step-id-dup", "matrix-label", "include-label",
              "deprecated-cmd-expr", "if-always-expr", "activity-type-expr", "matrix-dup-expr"}
GlobClasses == {"glob-refchar", "glob-space", "glob-quant", "glob-empty", "glob-range", "glob-refchar-expr"}
AllClasses == ExprClasses \cup KVClasses \cup GlobClasses
\* class sets named by the configurations (spec/cfg/Position_*.cfg)
ArithClasses == {"undef-prop", "lex-num", "parse-end", "tmpl-object", "if-stray-close"}
LayoutClasses == {"undef-prop0", "arg-type", "tmpl-object"}
KVGlobClasses == KVClasses \cup GlobClasses

\* slots whose enclosing collection can only be written in block style
BlockOnly == {"runname", "timeout", "top", "job", "runson", "jobid", "needsunk", "stepn", "onkey", "jobifb"}
\* a single ${{ }} must cover the whole scalar
WholeSlots == {"timeout"}
BareSlots == {"ifb", "jobifb"}        \* step level and job level
NoContextSlots == {"filter", "types"}
\* classes whose host marks an entry in front of which a wrapped flow collection breaks the line: diagnostics whose
\* position is CHOSEN among several candidates (the later of two keys, the first job of a cycle, the second of two equal
\* values ...) or which name an earlier occurrence
WrapClasses == {"excl-branches", "excl-tags", "excl-paths", "needs-cycle", "dup-key-step", "dup-key-env", "matrix-dup",
                "label-conflict", "unknown-key-conc", "needs-dup"}
PlainOnly == {"max-parallel-zero", "timeout-zero"}      \* a quoted 0 is a string, not the number 0
SlotsOf(c) == IF Cat(c).fam \in {"tok", "ph"} THEN Cat(c).slots \cap Slots ELSE Cat(c).slots

----------------------------------------------------------------------------
(* The scalar under test as the code sees it: segments of its VALUE *)
EarlierPH == << " github.sha ", "github.ref", "  1  " >>      \* text between ${{ and }} of the clean placeholders
EarlierSep == << "-", " b ", "" >>                             \* literal text after each of them
PrefixText == << "", "a", "ab", "abc", "abcd", "abcde" >>

\* literal text in front of placeholder j (1-based, j = e + 1 is the placeholder under test)
Lit(p, j) == IF j = 1 THEN Sp(p.pad) \o PrefixText[p.plen + 1] \o (IF p.plen > 0 THEN Sp(p.pad) ELSE "")
             ELSE EarlierSep[j - 1]
RECURSIVE EarlierText(_, _)
EarlierText(p, j) ==      \* text of everything up to and including clean placeholder j
  IF j = 0 THEN "" ELSE EarlierText(p, j - 1) \o Lit(p, j) \o "${{" \o EarlierPH[j] \o "}}"

IsEnd(c) == c.t = "}}"
\* blanks in front of the expression text: after ${{, or leading blanks of a QUOTED bare condition (a plain
\* scalar cannot start with blanks)
Lead(p) == IF p.slot \in BareSlots /\ p.quote = "plain" THEN "" ELSE Sp(p.ws)
\* lexer input in front of the token
LexPre(p) ==
  LET c == Cat(p.cls) IN
  IF p.slot \in BareSlots THEN Lead(p) \o c.b
  ELSE Lead(p) \o c.b \o (IF IsEnd(c) THEN " " ELSE "")
\* pattern text in front of the offending character (the validator's column counts the `!` of a negated pattern)
GlobPre(p) == (IF p.neg THEN "!" ELSE "") \o Cat(p.cls).b
\* the target scalar: text of the value in front of the marked character, and the rest
ValuePre(p) ==
  LET c == Cat(p.cls) IN
  CASE c.fam = "tok" /\ p.slot \in BareSlots -> LexPre(p)
    [] c.fam = "tok" -> EarlierText(p, p.earlier) \o Lit(p, p.earlier + 1) \o "${{" \o LexPre(p)
    [] c.fam = "ph" -> EarlierText(p, p.earlier) \o Lit(p, p.earlier + 1)
    [] c.fam = "glob" -> GlobPre(p)
    [] OTHER -> ""
ValuePost(p) ==
  LET c == Cat(p.cls) IN
  CASE c.fam = "tok" /\ p.slot \in BareSlots -> IF IsEnd(c) THEN "" ELSE c.t \o c.a
    [] c.fam = "tok" -> (IF IsEnd(c) THEN "}}" ELSE c.t \o c.a \o " }}") \o Sp(p.pad)
    [] c.fam = "ph" -> "${{" \o Lead(p) \o c.b \o " }}" \o Sp(p.pad)
    [] c.fam = "glob" -> c.t \o c.a
    [] OTHER -> c.val
TargetTag(p) == IF Cat(p.cls).fam = "kv" THEN "val" ELSE "tok"
Target(p) == T(ValuePre(p), ValuePost(p), IF p.quote = "plain" THEN "" ELSE p.quote, TargetTag(p))
Companion(p) == T(ValuePre(p), ValuePost(p), IF p.quote = "plain" THEN "" ELSE p.quote, "tok2")

----------------------------------------------------------------------------
(* Host workflows *)
Step0 == M(<< E("run", S0("echo")) >>)
JobBody(extra, steps) == M(<< E("runs-on", S0("ubuntu-latest")) >> \o extra \o << E("steps", steps) >>)
Jobs(extra, steps) == M(<< E("test", JobBody(extra, steps)) >>)
JobsPlain == Jobs(<<>>, Q(<< Step0 >>))
WF(on, top, jobs) == M(<< E("on", on) >> \o top \o << E("jobs", jobs) >>)

RECURSIVE Wrap(_, _)
Wrap(d, x) == IF d = 0 THEN x ELSE M(<< E("n", Q(<< S0("b"), Wrap(d - 1, x) >>)) >>)

ExprDoc(p) ==
  LET x == Target(p)
      cs == p.style
      s == p.slot IN
  CASE s = "env" -> WF(S0("push"), << E("env", C(M(<< E("A", S0("x")), E("V", x) >>), cs)) >>, JobsPlain)
    [] s = "runname" -> WF(S0("push"), << E("run-name", x) >>, JobsPlain)
    [] s = "stepname" -> WF(S0("push"), <<>>, Jobs(<<>>, Q(<< C(M(<< E("run", S0("echo")), E("name", x) >>), cs) >>)))
    [] s = "run" -> WF(S0("push"), <<>>, Jobs(<<>>, Q(<< C(M(<< E("name", S0("n")), E("run", x) >>), cs) >>)))
    [] s = "with" -> WF(S0("push"), <<>>,
                        Jobs(<<>>, Q(<< M(<< E("uses", S0("actions/checkout@v4")),
                                            E("with", C(M(<< E("fetch-depth", S0("1")), E("ref", x) >>), cs)) >>) >>)))
    [] s = "matrix" -> WF(S0("push"), <<>>,
                          Jobs(<< E("strategy", M(<< E("matrix", M(<< E("k", C(Q(<< S0("a"), Wrap(p.depth, x) >>), cs)) >>)) >>)) >>,
                               Q(<< Step0 >>)))
    [] s \in {"ifw", "ifb"} -> WF(S0("push"), <<>>, Jobs(<<>>, Q(<< C(M(<< E("run", S0("echo")), E("if", x) >>), cs) >>)))
    [] s = "filter" -> WF(M(<< E("push", M(<< E("branches", C(Q(<< S0("main"), x >>), cs)) >>)) >>), <<>>, JobsPlain)
    [] s = "types" -> WF(M(<< E("pull_request", M(<< E("types", C(Q(<< S0("opened"), x >>), cs)) >>)) >>), <<>>, JobsPlain)
    [] s = "matrixdup2" -> WF(S0("push"), <<>>,
                              Jobs(<< E("strategy", M(<< E("matrix", M(<< E("k", C(Q(<< Companion(p), x >>), cs)) >>)) >>)) >>,
                                   Q(<< Step0 >>)))
    [] s = "timeout" -> WF(S0("push"), <<>>, Jobs(<< E("timeout-minutes", x) >>, Q(<< Step0 >>)))
    [] s = "jobifb" -> WF(S0("push"), <<>>, Jobs(<< E("if", x) >>, Q(<< Step0 >>)))

KVDoc(p) ==
  LET c == Cat(p.cls)
      st == IF p.quote = "plain" THEN "" ELSE p.quote
      cs == p.style
      x == Target(p)                                               \* role val / elem
      ent == IF c.role = "key" THEN EK(c.key, st, S0(c.val)) ELSE E(c.key, x)
      s == p.slot IN
  CASE s = "top" -> WF(S0("push"), << ent >>, JobsPlain)
    [] s = "conc" -> WF(S0("push"), << E("concurrency", C(M(<< E("group", S0("x")), Brk(ent) >>), cs)) >>, JobsPlain)
    [] s = "perm" -> WF(S0("push"), << E("permissions", C(M(<< E("contents", S0("read")), ent >>), cs)) >>, JobsPlain)
    [] s = "env" -> WF(S0("push"), << E("env", C(M(<< EP("A", S0("x")), Brk(ent) >>), cs)) >>, JobsPlain)
    [] s = "step" -> WF(S0("push"), <<>>, Jobs(<<>>, Q(<< C(M(<< EP("run", S0("echo")), Brk(ent) >>), cs) >>)))
    [] s = "excl" -> WF(M(<< E("push", C(M(<< E(c.val, C(Q(<< S0("a") >>), "flow")),
                                              Brk(EK(c.key, st, C(Q(<< S0("b") >>), "flow"))) >>), cs)) >>), <<>>, JobsPlain)
    [] s = "cycle" -> WF(S0("push"), <<>>,
                         C(M(<< EK(c.key, st, JobBody(<< E("needs", S0("b")) >>, Q(<< Step0 >>))),
                                Brk(E("b", JobBody(<< E("needs", S0("a")) >>, Q(<< Step0 >>)))) >>), cs))
    [] s = "runsonseq" -> WF(S0("push"), <<>>,
                             M(<< E("test", M(<< E("runs-on", C(Q(<< P0("ubuntu-latest"), [x EXCEPT !.brk = TRUE] >>), cs)),
                                                 E("steps", Q(<< Step0 >>)) >>)) >>))
    [] s = "matrixos" -> WF(S0("push"), <<>>,
                            M(<< E("test", M(<< E("runs-on", S0("${{ matrix.os }}")),
                                                E("strategy", M(<< E("matrix", M(<< E("os", C(Q(<< S0("ubuntu-latest"), x >>), cs)) >>)) >>)),
                                                E("steps", Q(<< Step0 >>)) >>)) >>))
    [] s = "includeos" -> WF(S0("push"), <<>>,
                             M(<< E("test", M(<< E("runs-on", S0("${{ matrix.os }}")),
                                                 E("strategy", M(<< E("matrix", M(<< E("os", Q(<< S0("ubuntu-latest") >>)),
                                                                                    E("include", Q(<< C(M(<< ent >>), cs) >>)) >>)) >>)),
                                                 E("steps", Q(<< Step0 >>)) >>)) >>))
    [] s = "stepids" -> WF(S0("push"), <<>>,
                           Jobs(<<>>, Q(<< M(<< E("run", S0("echo")), E("id", P0("dup")) >>),
                                           C(M(<< E("run", S0("echo")), ent >>), cs) >>)))
    [] s = "stepn" -> WF(S0("push"), <<>>, Jobs(<<>>, Q(<< M(<< E("name", S0("n")), ent >>) >>)))
    [] s = "with" -> WF(S0("push"), <<>>,
                        Jobs(<<>>, Q(<< M(<< E("uses", S0("actions/checkout@v4")),
                                            E("with", C(M(<< E("ref", S0("x")), ent >>), cs)) >>) >>)))
    [] s = "job" -> WF(S0("push"), <<>>, Jobs(<< ent >>, Q(<< Step0 >>)))
    [] s = "runson" -> WF(S0("push"), <<>>, M(<< E("test", M(<< ent, E("steps", Q(<< Step0 >>)) >>)) >>))
    [] s = "jobid" -> WF(S0("push"), <<>>, M(<< EK(c.key, st, JobBody(<<>>, Q(<< Step0 >>))) >>))
    [] s = "needsunk" -> WF(S0("push"), <<>>,
                            M(<< EK(c.key, st, JobBody(<< E("needs", S0("nope")) >>, Q(<< Step0 >>))) >>))
    [] s = "needs" -> WF(S0("push"), <<>>,
                         M(<< E("test", JobBody(<< E("needs", C(Q(<< S0("test2"), [x EXCEPT !.brk = TRUE] >>), cs)) >>, Q(<< Step0 >>))),
                              E("test2", JobBody(<<>>, Q(<< Step0 >>))) >>))
    [] s = "push" -> WF(M(<< E("push", C(M(<< E("branches", S0("main")), ent >>), cs)) >>), <<>>, JobsPlain)
    [] s = "globv" -> WF(M(<< E("push", C(M(<< E("types", S0("x")), E(c.key, x) >>), cs)) >>), <<>>, JobsPlain)
    [] s = "globq" -> WF(M(<< E("push", M(<< E(c.key, C(Q(<< S0("main"), x >>), cs)) >>)) >>), <<>>, JobsPlain)
    [] s = "onseq" -> WF(C(Q(<< S0("push"), x >>), cs), <<>>, JobsPlain)
    [] s = "types" -> WF(M(<< E("pull_request", M(<< E("types", C(Q(<< S0("opened"), x >>), cs)) >>)) >>), <<>>, JobsPlain)
    [] s = "cron" -> WF(M(<< E("schedule", Q(<< C(M(<< E("cron", x) >>), cs) >>)) >>), <<>>, JobsPlain)
    [] s = "dispatch" -> WF(M(<< E("workflow_dispatch",
                                   M(<< E("inputs", M(<< E("x", C(M(<< E("description", S0("d")), ent >>), cs)) >>)) >>)) >>),
                            <<>>, JobsPlain)
    [] s = "strategy" -> WF(S0("push"), <<>>,
                            Jobs(<< E("strategy", C(M(<< E("fail-fast", S0("true")), ent >>), cs)) >>, Q(<< Step0 >>)))
    [] s = "defrun" -> WF(S0("push"), << E("defaults", M(<< E("run", C(M(<< E("shell", S0("bash")), ent >>), cs)) >>)) >>, JobsPlain)
    [] s = "container" -> WF(S0("push"), <<>>, Jobs(<< E("container", C(M(<< E("image", S0("x")), ent >>), cs)) >>, Q(<< Step0 >>)))
    [] s = "image" -> WF(S0("push"), <<>>, Jobs(<< E("container", C(M(<< E("options", S0("x")), ent >>), cs)) >>, Q(<< Step0 >>)))
    [] s = "environment" -> WF(S0("push"), <<>>, Jobs(<< E("environment", C(M(<< E("name", S0("x")), ent >>), cs)) >>, Q(<< Step0 >>)))
    [] s = "runsonmap" -> WF(S0("push"), <<>>,
                             M(<< E("test", M(<< E("runs-on", C(M(<< E("group", S0("x")), ent >>), cs)), E("steps", Q(<< Step0 >>)) >>)) >>))
    [] s = "dispatchtop" -> WF(M(<< E("push", M(<< E("branches", S0("main")) >>)), E("workflow_dispatch", C(M(<< ent >>), cs)) >>),
                               <<>>, JobsPlain)
    [] s = "calltop" -> WF(M(<< E("push", M(<< E("branches", S0("main")) >>)), E("workflow_call", C(M(<< ent >>), cs)) >>),
                           <<>>, JobsPlain)
    [] s = "schedseq" -> WF(M(<< E("schedule", C(Q(<< x >>), cs)) >>), <<>>, JobsPlain)
    [] s = "onkey" -> M(<< EK(c.key, st, S0(c.val)), E("jobs", JobsPlain) >>)
    [] s = "callinput" -> WF(M(<< E("workflow_call", M(<< E("inputs", M(<< E("x", C(M(<< E("description", S0("d")), ent >>), cs)) >>)) >>)) >>),
                             <<>>, JobsPlain)
    [] s = "callinputkey" -> WF(M(<< E("workflow_call", M(<< E("inputs", C(M(<< EK(c.key, st, M(<< E("description", S0("d")) >>)) >>), cs)) >>)) >>),
                                <<>>, JobsPlain)
    [] s = "calloutputkey" -> WF(M(<< E("workflow_call", M(<< E("outputs", C(M(<< EK(c.key, st, M(<< E("description", S0("d")) >>)) >>), cs)) >>)) >>),
                                 <<>>, JobsPlain)
    [] s = "stepuses" -> WF(S0("push"), <<>>, Jobs(<<>>, Q(<< C(M(<< E("uses", S0("actions/checkout@v4")), ent >>), cs) >>)))
    [] s = "calljob" -> WF(S0("push"), <<>>,
                           M(<< E("test", C(M(<< E("uses", S0("o/r/.github/workflows/w.yml@v1")), ent >>), cs)) >>))
    [] s = "matrixdupx" -> WF(S0("push"), <<>>,
                              Jobs(<< E("strategy", M(<< E("matrix", M(<< E("k", C(Q(<< [S0(c.val) EXCEPT !.st = "single"], x >>), cs)) >>)) >>)) >>,
                                   Q(<< Step0 >>)))
    [] s = "matrixdup" -> WF(S0("push"), <<>>,
                             Jobs(<< E("strategy", M(<< E("matrix", M(<< E("k", C(Q(<< P0("1"), S0("2"), [x EXCEPT !.brk = TRUE] >>), cs)) >>)) >>)) >>,
                                  Q(<< Step0 >>)))
    [] s = "exclude" -> WF(S0("push"), <<>>,
                           Jobs(<< E("strategy", M(<< E("matrix", M(<< E("k", Q(<< S0("1") >>)),
                                                                    E("exclude", Q(<< C(M(<< ent >>), cs) >>)) >>)) >>)) >>,
                                Q(<< Step0 >>)))

Doc(p) == IF Cat(p.cls).fam \in {"tok", "ph"} THEN ExprDoc(p) ELSE KVDoc(p)
Opts(p) == [ind |-> p.ind, seqind |-> p.seqind, gap |-> p.gap, kl |-> p.kl, docstart |-> p.docstart, wrap |-> p.wrap]

----------------------------------------------------------------------------
(* Which placements can be written at all (YAML, one line, no escape sequences) *)
TargetIsBlockKey(p) == Cat(p.cls).fam = "kv" /\ Cat(p.cls).role = "key" /\ p.style = "block"
Valid(p) ==
  LET c == Cat(p.cls)
      expr == c.fam \in {"tok", "ph"}
      bare == p.slot \in BareSlots IN
  /\ p.style = "flow" => p.slot \notin BlockOnly
  /\ p.quote = "single" => ~c.sq
  /\ p.cls \in PlainOnly => p.quote = "plain"
  /\ (c.fam = "kv" /\ c.role # "key" /\ c.val = "" /\ c.key # "") => p.quote # "plain"
  /\ bare => c.bare
  \* plain scalars: no flow indicators inside flow collections; the text must be plain-safe
  /\ (p.quote = "plain" /\ p.style = "flow") => (IF expr /\ ~bare THEN FALSE ELSE c.fp)
  /\ (p.quote = "plain" /\ expr /\ bare) => c.bp
  /\ (p.quote = "plain" /\ c.fam = "glob") => (c.fp \/ p.style = "block")
  \* parameters that do not apply are pinned to the smallest configured value
  /\ (expr /\ ~bare /\ p.slot \notin WholeSlots) \/ (p.plen = Min(PrefixLens) /\ p.earlier = Min(Earliers))
  \* no context is available in `on:`: the clean placeholders (github.sha ...) would be errors that end the analysis
  /\ p.slot \in NoContextSlots => p.earlier = Min(Earliers)
  /\ (expr /\ (~bare \/ p.quote # "plain")) \/ p.ws = Min(Blanks)
  /\ (expr /\ p.slot = "matrix") \/ p.depth = Min(Depths)
  /\ (expr /\ ~bare /\ p.slot \notin WholeSlots /\ p.quote # "plain") \/ p.pad = 0
  /\ (c.fam = "glob" /\ p.quote # "plain") \/ p.neg = FALSE      \* a plain scalar starting with ! is a YAML tag
  /\ (p.cls \in WrapClasses /\ p.style = "flow") \/ p.wrap = 0
  \* k blanks in front of a block mapping key would change the indentation of the mapping
  /\ TargetIsBlockKey(p) => p.gap = 0

----------------------------------------------------------------------------
(* OPERATIONAL LAYER: the arithmetic of the code as a state machine *)
VARIABLES st,     \* "cls" | "run" | "done"
          v,      \* the vector: parameters, then also the rendering
          m,      \* machine state
          tc      \* JSON vector for the harness
vars == << st, v, m, tc >>

Nav == ToJson([prop |-> "nav"])
M0 == [pc |-> "idle"]

Init ==
  /\ st = "cls"
  /\ v \in UNION {{[cls |-> c, slot |-> s] : s \in SlotsOf(c)} : c \in Classes}
  /\ m = M0
  /\ tc = Nav

Place ==
  /\ st = "cls"
  /\ \E quote \in Quotes, style \in Styles, ind \in Indents, seqind \in SeqInds, depth \in Depths,
        plen \in PrefixLens, earlier \in Earliers, ws \in Blanks, sh \in Shifts, ds \in DocStarts,
        pad \in Pads, neg \in Negs, wrap \in Wraps :
       LET p == [cls |-> v.cls, slot |-> v.slot, quote |-> quote, style |-> style, ind |-> ind, seqind |-> seqind,
                 depth |-> depth, plen |-> plen, earlier |-> earlier, ws |-> ws, gap |-> sh[1], kl |-> sh[2],
                 docstart |-> ds, pad |-> pad, neg |-> neg, wrap |-> wrap] IN
       /\ Valid(p)
       /\ LET doc == Doc(p)
              r == Render(doc, Opts(p)) IN
          v' = [p |-> p, sc |-> r.sc, at |-> r.at, at2 |-> r.at2, prev |-> r.prev, quoted |-> IsQuoted(quote),
                nlines |-> Len(r.ls), tline |-> r.ls[r.at[1]]]
  /\ st' = "run"
  /\ m' = [pc |-> "start"]
  /\ tc' = Nav

Fam == Cat(v.p.cls).fam
QInc == IF v.quoted THEN 1 ELSE 0

\* parse.go / rules that report at the node of a key or value
MNode ==
  /\ st = "run" /\ m.pc = "start" /\ Fam = "kv"
  /\ m' = [pc |-> "report", line |-> v.sc[1], col |-> v.sc[2]]
  /\ UNCHANGED << st, v, tc >>

\* rule_glob.go globErrors: the validator's column is 1 + the number of characters in front of the offending one
MGlob ==
  /\ st = "run" /\ m.pc = "start" /\ Fam = "glob"
  /\ LET gcol == 1 + Len(GlobPre(v.p)) IN
     m' = [pc |-> "report", line |-> v.sc[1], col |-> v.sc[2] + QInc + (gcol - 1)]
  /\ UNCHANGED << st, v, tc >>

\* rule_expression.go checkIfCondition, condition without ${{ }}: lexer on the value, offset 0
MBare ==
  /\ st = "run" /\ m.pc = "start" /\ Fam = "tok" /\ v.p.slot \in BareSlots
  /\ LET lexline == 1
         lexcol == 1 + Len(LexPre(v.p)) IN
     m' = [pc |-> "report", line |-> lexline - 1 + v.sc[1], col |-> lexcol - 1 + (v.sc[2] + QInc)]
  /\ UNCHANGED << st, v, tc >>

\* rule_expression.go checkExprsIn: line, col := pos; if quoted { col++ }; offset := 0
MStart ==
  /\ st = "run" /\ m.pc = "start" /\ Fam \in {"tok", "ph"} /\ v.p.slot \notin BareSlots
  /\ m' = [pc |-> "loop", line |-> v.sc[1], col |-> v.sc[2] + QInc, offset |-> 0, j |-> 1]
  /\ UNCHANGED << st, v, tc >>

\* one iteration of the loop: placeholder j
MIter ==
  /\ st = "run" /\ m.pc = "loop"
  /\ LET idx == Len(Lit(v.p, m.j))                 \* strings.Index(s, "${{")
         start == idx + 3
         offset == m.offset + start
         col == m.col + offset IN
     IF m.j <= v.p.earlier
     THEN \* clean placeholder: the lexer stops behind its }}
          LET offsetAfter == Len(EarlierPH[m.j]) + 2 IN
          m' = [m EXCEPT !.offset = offset + offsetAfter, !.j = m.j + 1]
     ELSE IF Fam = "ph"
     THEN m' = [pc |-> "report", line |-> m.line, col |-> col - 3]
     ELSE LET lexline == 1
              lexcol == 1 + Len(LexPre(v.p)) IN
          m' = [pc |-> "report", line |-> lexline - 1 + m.line, col |-> lexcol - 1 + col]
  /\ UNCHANGED << st, v, tc >>

Emit ==
  /\ st = "run" /\ m.pc = "report"
  /\ st' = "done"
  /\ tc' = ToJson([prop |-> "C07", cls |-> v.p.cls, fam |-> Fam, kind |-> Cat(v.p.cls).kind,
                   phrase |-> Cat(v.p.cls).phrase, p |-> v.p, doc |-> Doc(v.p),
                   exp |-> [line |-> m.line, col |-> m.col],
                   exp2 |-> [line |-> v.at2[1], col |-> v.at2[2]],     \* truth of the companion construct, 0:0 if none
                   prev |-> [line |-> v.prev[1], col |-> v.prev[2]],   \* earlier occurrence named in the message, 0:0 if none
                   sc |-> [line |-> v.sc[1], col |-> v.sc[2], q |-> v.quoted],
                   nlines |-> v.nlines, tline |-> v.tline])
  /\ UNCHANGED << v, m >>

Next == Place \/ MNode \/ MGlob \/ MBare \/ MStart \/ MIter \/ Emit
Spec == Init /\ [][Next]_vars

----------------------------------------------------------------------------
(* Invariants *)
Exact == st = "done" => << m.line, m.col >> = v.at

InFile == st # "cls" =>
  /\ v.at[1] >= 1 /\ v.at[1] <= v.nlines /\ v.at[2] >= 1
  /\ v.sc[1] = v.at[1] /\ v.sc[2] <= v.at[2]
  /\ v.at[2] <= Len(v.tline) + 1

ShiftLaw == (CheckShiftLaw /\ st = "run" /\ m.pc = "start") =>
  LET o == Opts(v.p)
      doc == Doc(v.p)
      r1 == Render(doc, [o EXCEPT !.kl = @ + 1])
      r2 == IF TargetIsBlockKey(v.p) THEN [at |-> << v.at[1], v.at[2] + 1 >>]
            ELSE Render(doc, [o EXCEPT !.gap = @ + 1]) IN
  /\ r1.at = << v.at[1] + 1, v.at[2] >>
  /\ r2.at = << v.at[1], v.at[2] + 1 >>
=============================================================================
