----------------------------- MODULE RobustTrace -----------------------------
(* Trace validation for C01: every record of trace.ndjson is one execution of the real actionlint
   (Command.Main in a child process) on one input of one channel: [c |-> channel, o |-> outcome, ms |-> wall time].
   outcome: "clean" (exit 0) | "diag" (exit 1) | "fatal" (exit 3) | "panic" | "crash" | "hang" | "slow" | "exit:<n>".
   PropOK is the property (decides VIOLATION); ModelOK compares with the narrower design table Allowed(channel)
   (a difference there alone is model drift). *)
EXTENDS Naturals, Sequences, TLC, Json
CONSTANTS Chans, WfBases, MutKinds, Tags, Depths, LongReps, ExprDepths, ChainDepths, CollTags, RecogAll, ExprLen
VARIABLES l, mism, drift, ch, b, path, tc

R == INSTANCE Robust

Trace == ndJsonDeserialize("trace.ndjson")

PropOK(r) == r.c \in R!AllChans /\ r.o \in R!PropAllowed /\ r.ms <= R!TimeLimitMs
ModelOK(r) == r.c \in R!AllChans => r.o \in R!Allowed(r.c)

Init == l = 1 /\ mism = <<>> /\ drift = <<>> /\ ch = "" /\ b = 0 /\ path = <<>> /\ tc = ""
Step ==
  /\ l <= Len(Trace)
  /\ LET r == Trace[l] IN
       /\ mism' = IF PropOK(r) \/ Len(mism) >= 200 THEN mism ELSE Append(mism, l)
       /\ drift' = IF ModelOK(r) \/ Len(drift) >= 200 THEN drift ELSE Append(drift, l)
  /\ l' = l + 1
  /\ UNCHANGED <<ch, b, path, tc>>
Spec == Init /\ [][Step]_<<l, mism, drift, ch, b, path, tc>>

Report == (l = Len(Trace) + 1) => PrintT(<<"MISM", Len(Trace), mism, drift>>)
=============================================================================
