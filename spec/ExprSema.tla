----------------------------- MODULE ExprSema ------------------------------
(* Semantic (type) check of one expression under a typing environment -- expr_sema.go -- and the
   property C06 "unknown (any) types never cause a diagnostic".

   Operational layer   Install (the Update* methods), Check / CheckNarrow / CheckLogical (check*,
                       checkWithNarrowing, function signatures and overloads, format / fromJSON
                       special cases) returning [ty, errs], errs a set of [c |-> class, p |-> index
                       of the token the diagnostic is attached to].
   Declarative layer   the loosening preorder of ExprTypes (A.6) and any-monotonicity:
                       G [= G'  =>  (e accepted under G  =>  e accepted under G').
   Generator           state = one triple (e, G, G') with G' a single-step loosening of G (or the
                       fromJSON literal of e replaced by an expression of unknown value); `tc` is the
                       vector for the conformance harness with the predicted diagnostics.

   Check takes a set `dv` of named deviations from the design:
     "FilterAnyProp"   checkArrayDeref: `.*` on a closed object demands a property whose static type
                       is an object; a property typed `any` does not count (so making a property
                       less precise introduces "has no object element").  This was the behaviour of
                       the pinned tree; it is fixed in /repo ("fix: object filter `.*` accepts an
                       object whose properties have unknown type") and therefore DISABLED: the model
                       of the code as read (dv = AllDev = {}) is the design.  The deviation stays
                       named (KnownDev) for two uses: the guard run ExprSema_asread.cfg (TLC must
                       find the counterexample on the model with the deviation) and the labelling of
                       a regression (real outputs that equal the model with the deviation). *)
EXTENDS ExprTypes, Json, SequencesExt

CONSTANTS Size,      \* "quick" | "thorough": which alphabets the generator uses
          Fams       \* enabled generator families, subset of {"acc", "ctx", "use", "fj", "mrg"}

AllDev == {}                      \* deviations of the code as read from the design: none
KnownDev == {"FilterAnyProp"}     \* named, disabled (fixed in the code)

----------------------------------------------------------------------------
(* Expressions *)
V(n)          == [k |-> "var", n |-> n]
LitS(v)       == [k |-> "str", v |-> v]
LitN          == [k |-> "num", v |-> "1"]
LitB          == [k |-> "bool", v |-> "true"]
LitNull       == [k |-> "null"]
Fmt(v, h)     == [k |-> "fmt", v |-> v, h |-> h]          \* string literal with placeholders h (sequence)
JLit(jv)      == [k |-> "json", jv |-> jv]                \* string literal holding the JSON text of jv
Prop(e, p)    == [k |-> "prop", e |-> e, p |-> p]         \* e.p
IdxE(e, i)    == [k |-> "idx", e |-> e, i |-> i]          \* e[i]
Star(e)       == [k |-> "star", e |-> e]                  \* e.*
Not(e)        == [k |-> "not", e |-> e]
Cmp(op, l, r) == [k |-> "cmp", op |-> op, l |-> l, r |-> r]
Log(op, l, r) == [k |-> "log", op |-> op, l |-> l, r |-> r]
Call(f, a)    == [k |-> "call", f |-> f, a |-> a]

StrKinds == {"str", "fmt", "json"}
LeafKinds == {"var", "str", "num", "bool", "null", "fmt", "json"}

\* rendering convention: a child is parenthesised iff it binds weaker than its position demands
NeedPar(ctx, c) ==
  CASE ctx = "post" -> c.k \in {"not", "cmp", "log"}
    [] ctx = "not"  -> c.k \in {"cmp", "log"}
    [] OTHER        -> c.k \in {"cmp", "log"}          \* operand of a binary operator
ParN(ctx, c) == IF NeedPar(ctx, c) THEN 1 ELSE 0

RECURSIVE JText(_), JItems(_, _), JProps(_, _)
JItems(s, i) == IF i > Len(s) THEN "" ELSE (IF i > 1 THEN "," ELSE "") \o JText(s[i]) \o JItems(s, i + 1)
JProps(s, i) == IF i > Len(s) THEN ""
                ELSE (IF i > 1 THEN "," ELSE "") \o "\"" \o s[i].n \o "\":" \o JText(s[i].v) \o JProps(s, i + 1)
JText(v) ==
  CASE v.k = "jbool" -> "true" [] v.k = "jnum" -> "1" [] v.k = "jstr" -> "\"x\"" [] v.k = "jnull" -> "null"
    [] v.k = "jarr" -> "[" \o JItems(v.items, 1) \o "]"
    [] v.k = "jobj" -> "{" \o JProps(v.props, 1) \o "}"
    [] OTHER -> "{"                                     \* jbroken

RECURSIVE Render(_), RenderArgs(_, _)
Wrap(ctx, c) == IF NeedPar(ctx, c) THEN "(" \o Render(c) \o ")" ELSE Render(c)
RenderArgs(a, i) == IF i > Len(a) THEN "" ELSE (IF i > 1 THEN ", " ELSE "") \o Render(a[i]) \o RenderArgs(a, i + 1)
Render(e) ==
  CASE e.k = "var"  -> e.n
    [] e.k \in {"str", "fmt"} -> "'" \o e.v \o "'"
    [] e.k = "json" -> "'" \o JText(e.jv) \o "'"
    [] e.k \in {"num", "bool"} -> e.v
    [] e.k = "null" -> "null"
    [] e.k = "prop" -> Wrap("post", e.e) \o "." \o e.p
    [] e.k = "star" -> Wrap("post", e.e) \o ".*"
    [] e.k = "idx"  -> Wrap("post", e.e) \o "[" \o Render(e.i) \o "]"
    [] e.k = "not"  -> "!" \o Wrap("not", e.e)
    [] e.k \in {"cmp", "log"} -> Wrap("bin", e.l) \o " " \o e.op \o " " \o Wrap("bin", e.r)
    [] e.k = "call" -> e.f \o "(" \o RenderArgs(e.a, 1) \o ")"

\* number of tokens of the rendering, and of the first k arguments of a call
RECURSIVE NT(_), SumNT(_, _)
PT(ctx, c) == NT(c) + 2 * ParN(ctx, c)
SumNT(a, k) == IF k = 0 THEN 0 ELSE NT(a[k]) + SumNT(a, k - 1)
NT(e) ==
  CASE e.k \in LeafKinds -> 1
    [] e.k \in {"prop", "star"} -> PT("post", e.e) + 2
    [] e.k = "idx"  -> PT("post", e.e) + NT(e.i) + 2
    [] e.k = "not"  -> 1 + PT("not", e.e)
    [] e.k \in {"cmp", "log"} -> PT("bin", e.l) + 1 + PT("bin", e.r)
    [] e.k = "call" -> 3 + SumNT(e.a, Len(e.a)) + (IF Len(e.a) > 1 THEN Len(e.a) - 1 ELSE 0)

\* ExprNode.Token(): the token a diagnostic on node e is attached to, e rendered from token tk on
RECURSIVE Tok(_, _)
Tok(e, tk) ==
  CASE e.k \in {"prop", "star", "idx"} -> Tok(e.e, tk + ParN("post", e.e))
    [] e.k \in {"cmp", "log"} -> Tok(e.l, tk + ParN("bin", e.l))
    [] OTHER -> tk

RECURSIVE Depth(_), MaxDepthArgs(_, _)
MaxDepthArgs(a, i) == IF i > Len(a) THEN 0 ELSE Max2(Depth(a[i]), MaxDepthArgs(a, i + 1))
Depth(e) ==
  CASE e.k \in LeafKinds -> 0
    [] e.k \in {"prop", "star", "not"} -> 1 + Depth(e.e)
    [] e.k = "idx" -> 1 + Max2(Depth(e.e), Depth(e.i))
    [] e.k \in {"cmp", "log"} -> 1 + Max2(Depth(e.l), Depth(e.r))
    [] e.k = "call" -> 1 + MaxDepthArgs(e.a, 1)

----------------------------------------------------------------------------
(* Environments.  A raw environment says for each Update* method whether it is called and with which
   object type; Install is what the checker's variable table holds afterwards. *)
Slots == {"matrix", "steps", "needs", "inputs", "secrets", "jobs", "dinputs"}
NoEnv == [matrix |-> Unset, steps |-> Unset, needs |-> Unset, inputs |-> Unset, secrets |-> Unset,
          jobs |-> Unset, dinputs |-> Unset]

EmptyStrict == Obj(<<>>, Strict)
SecretsBuiltin == {"github_token", "actions_step_debug", "actions_runner_debug"}

Install(env) ==
  LET upd(o, ty) == IF Len(o.props) = 0 /\ IsStrict(o) THEN ty ELSE Merge(o, ty)          \* UpdateInputs
      inp1 == IF env.inputs.k = "unset" THEN EmptyStrict ELSE upd(EmptyStrict, env.inputs)
      inp2 == IF env.dinputs.k = "unset" THEN inp1 ELSE upd(inp1, env.dinputs)             \* UpdateDispatchInputs
      event == IF env.dinputs.k = "unset" THEN Obj(<<>>, AnyT)
               ELSE Obj(<<P("inputs", Obj(MkProps(Names(env.dinputs), LAMBDA n : String), Strict))>>, AnyT)
      sec == IF env.secrets.k = "unset" THEN Obj(<<>>, String)
             ELSE Obj(MkProps(Names(env.secrets) \cup SecretsBuiltin,
                              LAMBDA n : IF HasProp(env.secrets, n) THEN PropT(env.secrets, n) ELSE String), Strict)
      dflt(t) == IF t.k = "unset" THEN EmptyStrict ELSE t
      base == [github  |-> Obj(<<P("event", event), P("ref", String)>>, Strict),
               env     |-> Obj(<<>>, String),
               matrix  |-> dflt(env.matrix),
               steps   |-> dflt(env.steps),
               needs   |-> dflt(env.needs),
               inputs  |-> inp2,
               secrets |-> sec]
  IN IF env.jobs.k = "unset" THEN base
     ELSE [n \in (DOMAIN base) \cup {"jobs"} |-> IF n = "jobs" THEN env.jobs ELSE base[n]]

----------------------------------------------------------------------------
(* Function signatures (BuiltinFuncSignatures), overloads in the order of the Go table *)
Sig(ps, va, ret) == [ps |-> ps, va |-> va, ret |-> ret]
Sigs(f) ==
  CASE f = "contains"   -> <<Sig(<<String, String>>, FALSE, Bool), Sig(<<Arr(AnyT, FALSE), AnyT>>, FALSE, Bool)>>
    [] f = "startsWith" -> <<Sig(<<String, String>>, FALSE, Bool)>>
    [] f = "endsWith"   -> <<Sig(<<String, String>>, FALSE, Bool)>>
    [] f = "format"     -> <<Sig(<<String, AnyT>>, TRUE, String)>>
    [] f = "join"       -> <<Sig(<<Arr(String, FALSE), String>>, FALSE, String), Sig(<<Arr(String, FALSE)>>, FALSE, String)>>
    [] f = "toJSON"     -> <<Sig(<<AnyT>>, FALSE, String)>>
    [] f = "fromJSON"   -> <<Sig(<<String>>, FALSE, AnyT)>>
    [] OTHER            -> <<>>

MinOf(S) == CHOOSE x \in S : \A y \in S : x <= y
Okay == [c |-> "ok", p |-> 0]
\* checkFuncSignature: the first complaint of one signature; atok[i] = token of argument i, tk = callee
SigErr(sig, tys, atok, tk) ==
  LET lp == Len(sig.ps)
      la == Len(tys) IN
  IF (sig.va /\ lp > la) \/ (~sig.va /\ lp # la) THEN [c |-> "func-argc", p |-> tk]
  ELSE LET bad == {i \in 1 .. la : ~Assignable(IF i <= lp THEN sig.ps[i] ELSE sig.ps[lp], tys[i])} IN
       IF bad = {} THEN Okay ELSE [c |-> "func-arg", p |-> atok[MinOf(bad)]]

\* validateCompareOpOperands
RECURSIVE ValidCmp(_, _, _)
ValidCmp(op, l, r) ==
  IF op \in {"==", "!="} THEN
    CASE l.k \in {"any", "null"} -> TRUE
      [] l.k \in {"number", "bool", "string"} -> r.k \notin {"obj", "arr"}
      [] l.k = "obj" -> r.k \in {"obj", "null", "any"}
      [] l.k = "arr" -> IF r.k = "arr" THEN ValidCmp(op, l.elem, r.elem) ELSE r.k \in {"null", "any"}
  ELSE l.k \in {"any", "number", "string"} /\ r.k \notin {"null", "bool", "obj", "arr"}

R(ty, errs) == [ty |-> ty, errs |-> errs]
E(c, p) == {[c |-> c, p |-> p]}
Holders(lit) == IF lit.k = "fmt" THEN {lit.h[i] : i \in DOMAIN lit.h} ELSE {}
LitVal(lit) == IF lit.k \in {"str", "fmt"} THEN lit.v ELSE "?"

(* Check(e, G, tk, dv): e is rendered from token index tk on (0-based, without parentheses of its own) *)
RECURSIVE Check(_, _, _, _), CheckNarrow(_, _, _, _, _), CheckLogical(_, _, _, _)

\* checkBuiltinFuncCall
Special(e, sig, errs, tk, atok) ==
  IF e.f = "format" /\ e.a[1].k \in StrKinds THEN
    LET l == Len(e.a) - 1
        H == Holders(e.a[1])
        unused == {i \in 0 .. (l - 1) : i \notin H}
        missing == {i \in H : i >= l}
    IN R(sig.ret, errs \cup (IF unused # {} THEN E("format-unused", tk) ELSE {})
                       \cup (IF missing # {} THEN E("format-missing", tk) ELSE {}))
  ELSE IF e.f = "fromJSON" /\ e.a[1].k \in StrKinds THEN
    IF e.a[1].k = "json" /\ e.a[1].jv.k # "jbroken" THEN R(TypeOfJSON(e.a[1].jv), errs)
    ELSE R(sig.ret, errs \cup E("fromjson-broken", atok[1]))
  ELSE R(sig.ret, errs)

Check(e, G, tk, dv) ==
  CASE e.k = "var"  -> IF e.n \in DOMAIN G THEN R(G[e.n], {}) ELSE R(AnyT, E("undef-var", tk))
    [] e.k = "null" -> R(Null, {})
    [] e.k = "bool" -> R(Bool, {})
    [] e.k = "num"  -> R(Number, {})
    [] e.k \in StrKinds -> R(String, {})
    [] e.k = "prop" ->                                                   \* checkObjectDeref
         LET r == Check(e.e, G, tk + ParN("post", e.e), dv)
             here == Tok(e, tk)
             t == r.ty IN
         CASE t.k = "any" -> R(AnyT, r.errs)
           [] t.k = "obj" ->
                IF HasProp(t, e.p) THEN R(PropT(t, e.p), r.errs)
                ELSE IF ~IsStrict(t) THEN R(t.m, r.errs)
                ELSE R(AnyT, r.errs \cup E("prop-undef", here))
           [] t.k = "arr" ->
                IF ~t.deref THEN R(AnyT, r.errs \cup E("deref-recv", here))
                ELSE CASE t.elem.k = "any" -> R(t, r.errs)
                       [] t.elem.k = "obj" ->
                            IF HasProp(t.elem, e.p) THEN R(Arr(PropT(t.elem, e.p), TRUE), r.errs)
                            ELSE IF ~IsStrict(t.elem) THEN R(Arr(t.elem.m, TRUE), r.errs)
                            ELSE R(Arr(AnyT, TRUE), r.errs \cup E("prop-undef-filtered", here))
                       [] OTHER -> R(AnyT, r.errs \cup E("filter-prop-nonobj", here))
           [] OTHER -> R(AnyT, r.errs \cup E("deref-recv", here))
    [] e.k = "star" ->                                                   \* checkArrayDeref
         LET r == Check(e.e, G, tk + ParN("post", e.e), dv)
             here == Tok(e, tk)
             t == r.ty IN
         CASE t.k = "any" -> R(Arr(AnyT, TRUE), r.errs)
           [] t.k = "arr" -> R(Arr(t.elem, TRUE), r.errs)    \* intended: a value (the code sets Deref in place: C09)
           [] t.k = "obj" ->
                IF ~IsStrict(t) THEN
                  CASE t.m.k = "any" -> R(Arr(AnyT, TRUE), r.errs)
                    [] t.m.k = "obj" -> R(Arr(t.m, TRUE), r.errs)
                    [] OTHER -> R(AnyT, r.errs \cup E("filter-map-elem", here))
                ELSE IF \E i \in DOMAIN t.props :
                          IF t.props[i].t.k = "obj" THEN TRUE
                          ELSE ("FilterAnyProp" \notin dv /\ t.props[i].t.k = "any")
                     THEN R(Arr(AnyT, TRUE), r.errs)
                     ELSE R(AnyT, r.errs \cup E("filter-noobj", here))
           [] OTHER -> R(AnyT, r.errs \cup E("filter-recv", here))
    [] e.k = "idx" ->                                                    \* checkIndexAccess
         LET otk == tk + ParN("post", e.e)
             itk == tk + PT("post", e.e) + 1
             ri == Check(e.i, G, itk, dv)
             ro == Check(e.e, G, otk, dv)
             errs == ri.errs \cup ro.errs
             here == Tok(e, tk)
             ihere == Tok(e.i, itk)
             t == ro.ty
             idx == ri.ty IN
         CASE t.k = "any" -> R(AnyT, errs)
           [] t.k = "arr" ->
                IF idx.k \in {"any", "number"} THEN R(t.elem, errs) ELSE R(AnyT, errs \cup E("idx-arr-num", ihere))
           [] t.k = "obj" ->
                CASE idx.k = "any" -> R(AnyT, errs)
                  [] idx.k = "string" ->
                       IF e.i.k \in StrKinds THEN
                         IF HasProp(t, LitVal(e.i)) THEN R(PropT(t, LitVal(e.i)), errs)
                         ELSE IF ~IsStrict(t) THEN R(t.m, errs)
                         ELSE R(AnyT, errs \cup E("prop-undef", here))
                       ELSE IF ~IsStrict(t) THEN R(t.m, errs) ELSE R(AnyT, errs)
                  [] OTHER -> R(AnyT, errs \cup E("idx-obj-str", ihere))
           [] OTHER -> R(AnyT, errs \cup E("idx-operand", here))
    [] e.k = "call" ->                                                   \* checkFuncCall
         LET sigs == Sigs(e.f)
             n == Len(e.a)
             atk == [i \in 1 .. n |-> tk + 2 + SumNT(e.a, i - 1) + (i - 1)]
             rs == [i \in 1 .. n |-> Check(e.a[i], G, atk[i], dv)]
             aerrs == UNION {rs[i].errs : i \in 1 .. n}
             tys == [i \in 1 .. n |-> rs[i].ty]
             atok == [i \in 1 .. n |-> Tok(e.a[i], atk[i])]
             ses == [j \in DOMAIN sigs |-> SigErr(sigs[j], tys, atok, tk)]
             okj == {j \in DOMAIN sigs : ses[j].c = "ok"} IN
         IF Len(sigs) = 0 THEN R(AnyT, E("undef-func", tk))
         ELSE IF okj = {} THEN R(AnyT, aerrs \cup {ses[j] : j \in DOMAIN sigs})
         ELSE Special(e, sigs[MinOf(okj)], aerrs, tk, atok)
    [] e.k = "not" ->                                                    \* checkNotOp: bool accepts everything
         LET r == Check(e.e, G, tk + 1 + ParN("not", e.e), dv) IN R(Bool, r.errs)
    [] e.k = "cmp" ->                                                    \* checkCompareOp
         LET l == Check(e.l, G, tk + ParN("bin", e.l), dv)
             r == Check(e.r, G, tk + PT("bin", e.l) + 1 + ParN("bin", e.r), dv) IN
         R(Bool, l.errs \cup r.errs \cup (IF ValidCmp(e.op, l.ty, r.ty) THEN {} ELSE E("cmp", Tok(e, tk))))
    [] e.k = "log" -> CheckLogical(e, G, tk, dv)

\* checkLogicalOp: the left operand is narrowed (assumed falsy for &&, truthy for ||)
CheckLogical(e, G, tk, dv) ==
  LET l == CheckNarrow(e.l, G, tk + ParN("bin", e.l), dv, e.op = "||")
      r == Check(e.r, G, tk + PT("bin", e.l) + 1 + ParN("bin", e.r), dv) IN
  R(Merge(l.ty, r.ty), l.errs \cup r.errs)

\* checkWithNarrowing
CheckNarrow(e, G, tk, dv, truthy) ==
  CASE e.k = "log" ->
         IF (e.op = "&&" /\ truthy) \/ (e.op = "||" /\ ~truthy) THEN
           LET l == Check(e.l, G, tk + ParN("bin", e.l), dv)
               r == Check(e.r, G, tk + PT("bin", e.l) + 1 + ParN("bin", e.r), dv) IN
           R(r.ty, l.errs \cup r.errs)
         ELSE CheckLogical(e, G, tk, dv)
    [] e.k = "not" -> CheckNarrow(e.e, G, tk + 1 + ParN("not", e.e), dv, ~truthy)
    [] OTHER -> Check(e, G, tk, dv)

\* the observable: diagnostics of ExprSemanticsChecker.Check(e) after the Update* calls of `env`
Run(e, env, dv) == Check(e, Install(env), 0, dv)
Accepted(r) == r.errs = {}
\* rule_expression.go checkTemplateEvaluatedType: where the value is spliced into a string
TmplBad(t) == t.k \in {"obj", "arr", "null"}
AcceptedInTemplate(r) == r.errs = {} /\ ~TmplBad(r.ty)

----------------------------------------------------------------------------
(* Generator: every state is one vector.  The state is kept small (index into the table of
   environment pairs + the sequence of growth operators applied to the root expression); the
   expressions and environments are derived from it. *)
VARIABLES pi,       \* index into PairSeq: family, environments g1 [=1 g2, root expressions
          path,     \* growth operators applied so far (innermost first)
          cl, lv,   \* chain length / consumer level reached (bounds the growth)
          tc,       \* the vector (JSON text)
          ok        \* verdicts of the model-level properties for this vector (computed with tc)
vars == <<pi, path, cl, lv, tc, ok>>

Thorough == Size = "thorough"
ObjA(t) == Obj(<<P("a", t)>>, Strict)
OpenObj == Obj(<<>>, AnyT)

\* types of the property `a` of the loosened context variable
TA ==
  Scalars
  \cup {Arr(s, FALSE) : s \in {AnyT, String, Bool}}
  \cup {Obj(<<>>, m) : m \in {Strict, AnyT, String}}
  \cup {Obj(<<P("a", s)>>, m) : s \in {AnyT, String}, m \in {Strict, AnyT}}
  \cup {ObjA(ObjA(String)), ObjA(Arr(String, FALSE)), ObjA(OpenObj)}
  \cup {Arr(ObjA(String), FALSE), Arr(ObjA(AnyT), FALSE), Arr(OpenObj, FALSE), Arr(Arr(String, FALSE), FALSE)}
  \cup (IF Thorough THEN
          {Arr(Number, FALSE), Arr(Null, FALSE)}
          \cup {Obj(<<P("a", s)>>, m) : s \in Scalars, m \in {Strict, AnyT, String}}
          \cup {Obj(<<P("a", String), P("b", s)>>, m) : s \in {AnyT, Number}, m \in {Strict, AnyT}}
          \cup {Obj(<<>>, ObjA(String)), ObjA(ObjA(AnyT)), ObjA(Arr(AnyT, FALSE)), ObjA(Obj(<<>>, String))}
          \cup {Arr(Obj(<<>>, String), FALSE), Arr(Arr(AnyT, FALSE), FALSE), Arr(Obj(<<P("a", String)>>, AnyT), FALSE)}
        ELSE {})
\* type of the sibling property `b` (Unset = no such property) and Mapped of the variable itself
TB == {Unset, AnyT, ObjA(String)} \cup (IF Thorough THEN {String, Arr(String, FALSE)} ELSE {})
TM == {Strict, AnyT, String} \cup (IF Thorough THEN {ObjA(String)} ELSE {})
Top(ta, tb, m) == Obj(<<P("a", ta)>> \o (IF tb.k = "unset" THEN <<>> ELSE <<P("b", tb)>>), m)
\* reduced alphabets for the other context variables
TAc == {String, Bool, ObjA(String), Arr(ObjA(String), FALSE)}
        \cup (IF Thorough THEN {AnyT, Arr(String, FALSE), Obj(<<P("a", AnyT)>>, AnyT), ObjA(ObjA(String)), Obj(<<>>, String)}
              ELSE {})
TBc == {Unset} \cup (IF Thorough THEN {AnyT} ELSE {})
TMc == {Strict, String} \cup (IF Thorough THEN {AnyT} ELSE {})

JNum == [k |-> "jnum"]
JStr == [k |-> "jstr"]
JNull == [k |-> "jnull"]
JArr(s) == [k |-> "jarr", items |-> s]
JObj(s) == [k |-> "jobj", props |-> s]
JP(n, v) == [n |-> n, v |-> v]
JLits ==
  {JNum, JStr, JNull, [k |-> "jbool"], JArr(<<>>), JArr(<<JStr>>), JArr(<<JNum, JStr>>),
   JObj(<<>>), JObj(<<JP("a", JNum)>>), JObj(<<JP("a", JNum), JP("b", JStr)>>), JObj(<<JP("a", JObj(<<JP("a", JStr)>>))>>),
   JArr(<<JObj(<<JP("a", JNum)>>)>>), JArr(<<JObj(<<JP("a", JNum)>>), JObj(<<JP("b", JStr)>>)>>),
   JArr(<<JObj(<<JP("a", JNum)>>), JNum>>), JArr(<<JArr(<<JStr>>)>>)}

Op(o, x, A) == [o |-> o, x |-> x, A |-> A]
Apply(op, e) ==
  CASE op.o = "prop"   -> Prop(e, op.x)
    [] op.o = "idxs"   -> IdxE(e, LitS(op.x))
    [] op.o = "idxn"   -> IdxE(e, LitN)
    [] op.o = "star"   -> Star(e)
    [] op.o = "not"    -> Not(e)
    [] op.o = "cmpL"   -> Cmp(op.x, e, op.A)
    [] op.o = "cmpR"   -> Cmp(op.x, op.A, e)
    [] op.o = "logL"   -> Log(op.x, e, op.A)
    [] op.o = "logR"   -> Log(op.x, op.A, e)
    [] op.o = "call1"  -> Call(op.x, <<e>>)
    [] op.o = "call2L" -> Call(op.x, <<e, op.A>>)
    [] op.o = "call2R" -> Call(op.x, <<op.A, e>>)
    [] op.o = "fmt1"   -> Call("format", <<Fmt("{0}", <<0>>), e>>)
    [] op.o = "fmt2"   -> Call("format", <<Fmt("{0}{1}", <<0, 1>>), e, op.A>>)
    [] op.o = "fmt0"   -> Call("format", <<e, op.A>>)
    [] op.o = "idxOf"  -> IdxE(e, op.A)
    [] op.o = "idxBy"  -> IdxE(op.A, e)

ChainOps ==
  {Op("prop", "a", LitNull), Op("prop", "c", LitNull), Op("idxs", "a", LitNull), Op("idxn", "", LitNull),
   Op("star", "", LitNull)}
  \cup (IF Thorough THEN {Op("idxs", "c", LitNull)} ELSE {})
ChainOps3 == {Op("prop", "a", LitNull), Op("idxn", "", LitNull), Op("star", "", LitNull)}
\* second operands; `root` is the loosened variable, whose property b is not loosened
Atoms(root) ==
  {LitS("s"), LitN, LitNull, Prop(root, "b")}
  \cup (IF Thorough THEN {LitB, Prop(V("github"), "event"), Prop(V("env"), "a")} ELSE {})
UnaryOps == {Op("not", "", LitNull), Op("call1", "toJSON", LitNull), Op("call1", "fromJSON", LitNull),
             Op("call1", "join", LitNull), Op("fmt1", "", LitNull)}
BinaryOps(root) ==
  UNION {{Op("cmpL", "==", A), Op("cmpR", "==", A), Op("cmpL", "<", A), Op("cmpR", "<", A),
          Op("logL", "&&", A), Op("logR", "&&", A), Op("logL", "||", A), Op("logR", "||", A),
          Op("call2L", "contains", A), Op("call2R", "contains", A),
          Op("call2L", "startsWith", A), Op("call2R", "startsWith", A),
          Op("call2L", "join", A), Op("call2R", "join", A),
          Op("fmt2", "", A), Op("fmt0", "", A), Op("idxOf", "", A), Op("idxBy", "", A)} : A \in Atoms(root)}
OuterOps ==
  {Op("prop", "a", LitNull), Op("prop", "c", LitNull), Op("idxn", "", LitNull), Op("star", "", LitNull),
   Op("cmpL", "<", LitN), Op("cmpL", "==", LitNull), Op("logL", "&&", LitS("s")),
   Op("call2L", "contains", LitS("s"))}
  \cup (IF Thorough THEN {Op("not", "", LitNull), Op("call1", "join", LitNull), Op("fmt1", "", LitNull),
                          Op("cmpR", "==", LitN), Op("idxs", "a", LitNull), Op("logR", "||", LitNull)}
        ELSE {})
SmallOps == {Op("not", "", LitNull), Op("cmpL", "<", LitN), Op("cmpL", "==", LitS("s")), Op("call1", "join", LitNull),
             Op("call2L", "contains", LitS("s")), Op("fmt1", "", LitNull), Op("logL", "||", LitS("s"))}

With(slot, t) == [NoEnv EXCEPT ![slot] = t]
GithubInputs == Prop(Prop(V("github"), "event"), "inputs")
Pair(f, a1, a2, b1, b2, c) == [fam |-> f, g1 |-> a1, g2 |-> a2, r1 |-> b1, r2 |-> b2, cl |-> c]

PairsAcc ==
  UNION {{Pair("acc", With("matrix", Top(ta, tb, m)), With("matrix", t2), V("matrix"), V("matrix"), 0)
            : t2 \in Loosen1Top(Top(ta, tb, m))} : ta \in TA, tb \in TB, m \in TM}
OtherInputs == {Unset, Obj(<<P("a", Bool), P("c", String)>>, Strict)}
Flip(which) == IF which = "inputs" THEN "dinputs" ELSE "inputs"
PairsCtx ==
  UNION {{Pair("ctx", With(slot, Top(ta, tb, m)), With(slot, t2), V(slot), V(slot), 0)
            : t2 \in Loosen1Top(Top(ta, tb, m))}
         : slot \in {"steps", "needs", "inputs", "secrets", "jobs"}, ta \in TAc, tb \in TBc, m \in TMc}
  \cup
  UNION {{Pair("ctx", [With(which, Top(ta, tb, m)) EXCEPT ![Flip(which)] = other],
                      [With(which, t2) EXCEPT ![Flip(which)] = other], root, root, 0)
            : t2 \in Loosen1Top(Top(ta, tb, m))}
         : ta \in TAc, tb \in TBc, m \in TMc, other \in OtherInputs, which \in {"inputs", "dinputs"},
           root \in {V("inputs"), GithubInputs}}
\* Two updates of the same context (UpdateInputs then UpdateDispatchInputs merge into `inputs`): one of the two
\* arguments is loosened -- also down to the open, property-less object (an `inputs` section whose members are not
\* known) -- the other one fixed, closed or open, with or without members; `.c` is held by one side only.
UpdT == {Obj(<<P("c", String)>>, Strict), Obj(<<P("a", Number), P("c", String)>>, Strict), Obj(<<P("c", String)>>, AnyT),
         Obj(<<>>, String), Obj(<<>>, Strict)}
UpdOther == {Obj(<<P("a", Bool)>>, Strict), Obj(<<>>, Strict), Obj(<<>>, AnyT), Obj(<<P("a", Bool)>>, AnyT)}
\* (dropping the members is only a loosening where the other argument does not define them too: Merge keeps the
\* other side's precise type for a key the open operand lacks -- see the note at PairsMrg)
UpdLoosen(t, other) == Loosen1Top(t) \cup (IF t = Obj(<<>>, AnyT) \/ Names(t) \cap Names(other) # {} THEN {} ELSE {Obj(<<>>, AnyT)})
PairsUpd ==
  UNION {{Pair("ctx", [With(which, t) EXCEPT ![Flip(which)] = other],
                      [With(which, t2) EXCEPT ![Flip(which)] = other], V("inputs"), V("inputs"), 0)
            : t2 \in UpdLoosen(t, other)}
         : t \in UpdT, other \in UpdOther, which \in {"inputs", "dinputs"}}
PairsUse ==
  UNION {{Pair("use", With("matrix", Obj(<<P("a", x), P("b", y)>>, Strict)),
                      With("matrix", Obj(<<P("a", x2), P("b", y)>>, Strict)),
                      Prop(V("matrix"), "a"), Prop(V("matrix"), "a"), 1)
            : x2 \in Loosen1(x)} : x \in TA, y \in {AnyT, ObjA(String), Arr(String, FALSE)} \cup (IF Thorough THEN {String} ELSE {})}
PairsFj ==
  {Pair("fj", NoEnv, NoEnv, Call("fromJSON", <<JLit(j)>>), Call("fromJSON", <<Prop(V("env"), "x")>>), 0)
     : j \in JLits \cup {[k |-> "jbroken"]}}
\* Merge sites in both operand orders: l || r and l && r of two object literals; the loosening replaces ONE operand
\* by an expression evaluating to an open object (github.event) or to a value of unknown type (fromJSON(env.x)).
\* An access that only the replaced operand could supply (.c of {"c":1}) must stay accepted: open merged with
\* closed stays open, whichever side the open one is on.
MrgLits == {JObj(<<>>), JObj(<<JP("a", JNum)>>), JObj(<<JP("c", JNum)>>), JObj(<<JP("b", JStr)>>),
            JObj(<<JP("a", JNum), JP("c", JStr)>>), JObj(<<JP("a", JObj(<<JP("a", JStr)>>))>>)}
FJ(j) == Call("fromJSON", <<JLit(j)>>)
JNames(j) == {j.props[i].n : i \in DOMAIN j.props}
\* The two literals have no key in common: for a common key the code keeps the precise type of the remaining
\* literal although the open operand may hold anything under it (Merge copies a property the open receiver lacks
\* instead of merging it with the receiver's element type), so the replaced pair is not related by A.6 there;
\* that case is examined at workflow level (include lists with a common key, tools/checks/c06.py).
PairsMrg ==
  {Pair("mrg", NoEnv, NoEnv, Log(x[1], FJ(x[2]), FJ(x[3])),
        IF x[4] = "l" THEN Log(x[1], x[5], FJ(x[3])) ELSE Log(x[1], FJ(x[2]), x[5]), 0)
     : x \in {y \in {"||", "&&"} \X MrgLits \X MrgLits \X {"l", "r"}
                     \X {Prop(V("github"), "event"), Call("fromJSON", <<Prop(V("env"), "x")>>)}
                : JNames(y[2]) \cap JNames(y[3]) = {}}}
Pairs == (IF "acc" \in Fams THEN PairsAcc ELSE {}) \cup (IF "ctx" \in Fams THEN PairsCtx \cup PairsUpd ELSE {})
         \cup (IF "use" \in Fams THEN PairsUse ELSE {}) \cup (IF "fj" \in Fams THEN PairsFj ELSE {})
         \cup (IF "mrg" \in Fams THEN PairsMrg ELSE {})
PairSeq == SetToSeq(Pairs)

RECURSIVE ApplyAll(_, _, _)
ApplyAll(ops, i, e) == IF i > Len(ops) THEN e ELSE ApplyAll(ops, i + 1, Apply(ops[i], e))
ExprOf(root, ops) == ApplyAll(ops, 1, root)

\* C06 on the design (= the code as read, d1/d2): accepted stays accepted (also where the value is spliced
\* into a string); why it holds: the type of an accepted expression only loosens; a diagnostic can only
\* appear where another one (which masked it by typing its operand any) went away.  On the model with the
\* disabled deviation (r1/r2) the only new diagnostics are "has no object element" (devonly), and
\* any-monotonicity itself fails there (asread: the guard run expects TLC to find that).
Verdicts(f, d1, d2, r1, r2) ==
  [anymono  |-> (Accepted(d1) => Accepted(d2)),
   tmplmono |-> (AcceptedInTemplate(d1) => AcceptedInTemplate(d2)),
   typemono |-> (Accepted(d1) => Loosens(d1.ty, d2.ty)),
   strong   |-> ((f \notin {"fj", "mrg"}) => (d2.errs \subseteq d1.errs \/ ~(d1.errs \subseteq d2.errs))),
   devonly  |-> ((Accepted(r1) /\ ~Accepted(r2)) => \E x \in r2.errs : x.c = "filter-noobj"),
   asread   |-> (Accepted(r1) => Accepted(r2))]

Vector(i, ops) ==
  LET pr == PairSeq[i]
      b1 == ExprOf(pr.r1, ops)
      b2 == ExprOf(pr.r2, ops)
      f1 == Run(b1, pr.g1, AllDev)       \* the code as read = the design (p, k)
      f2 == Run(b2, pr.g2, AllDev)
      i1 == Run(b1, pr.g1, KnownDev)     \* the model with the disabled deviation (q, j): regression label
      i2 == Run(b2, pr.g2, KnownDev)
      t1 == Render(b1)
      t2 == Render(b2)
      txt ==
        IF ops = <<>> THEN
          \* root vectors carry the table entry
          ToJson([i |-> i, t1 |-> t1, t2 |-> (IF t2 = t1 THEN "" ELSE t2),
                  p1 |-> f1.errs, p2 |-> f2.errs, k1 |-> f1.ty.k, k2 |-> f2.ty.k,
                  q1 |-> i1.errs, q2 |-> i2.errs, j1 |-> i1.ty.k, j2 |-> i2.ty.k,
                  fam |-> pr.fam, g1 |-> pr.g1, g2 |-> pr.g2])
        ELSE IF i1.errs # f1.errs \/ i2.errs # f2.errs \/ i1.ty.k # f1.ty.k \/ i2.ty.k # f2.ty.k THEN
          \* the model with the disabled deviation (q, j) predicts something else than the code as read (p, k)
          ToJson([i |-> i, t1 |-> t1, t2 |-> (IF t2 = t1 THEN "" ELSE t2),
                  p1 |-> f1.errs, p2 |-> f2.errs, k1 |-> f1.ty.k, k2 |-> f2.ty.k,
                  q1 |-> i1.errs, q2 |-> i2.errs, j1 |-> i1.ty.k, j2 |-> i2.ty.k])
        ELSE ToJson([i |-> i, t1 |-> t1, t2 |-> (IF t2 = t1 THEN "" ELSE t2),
                     p1 |-> f1.errs, p2 |-> f2.errs, k1 |-> f1.ty.k, k2 |-> f2.ty.k]) IN
  [tc |-> txt, ok |-> Verdicts(pr.fam, f1, f2, i1, i2)]

fam == PairSeq[pi].fam
g1 == PairSeq[pi].g1
g2 == PairSeq[pi].g2
e1 == ExprOf(PairSeq[pi].r1, path)
e2 == ExprOf(PairSeq[pi].r2, path)
MaxChain == IF fam = "acc" THEN 3 ELSE IF fam = "use" THEN 1 ELSE 2

Init ==
  /\ pi \in 1 .. Len(PairSeq)
  /\ path = <<>> /\ cl = PairSeq[pi].cl /\ lv = 0
  /\ LET vo == Vector(pi, path) IN tc = vo.tc /\ ok = vo.ok

Root == IF fam = "use" THEN V("matrix") ELSE V("env")
Grow(op, ncl, nlv) ==
  /\ path' = Append(path, op)
  /\ cl' = ncl /\ lv' = nlv
  /\ UNCHANGED pi
  /\ LET vo == Vector(pi, path') IN tc' = vo.tc /\ ok' = vo.ok
Next ==
  \/ /\ lv = 0 /\ cl < MaxChain
     /\ \E op \in (IF cl = 2 /\ ~Thorough THEN ChainOps3 ELSE ChainOps) : Grow(op, cl + 1, 0)
  \/ /\ fam = "use" /\ lv = 0
     /\ \E op \in UnaryOps \cup BinaryOps(Root) : Grow(op, cl, 1)
  \/ /\ fam = "use" /\ lv = 1
     /\ \E op \in OuterOps : Grow(op, cl, 2)
  \/ /\ fam \in {"fj", "ctx", "mrg"} /\ lv = 0 /\ cl <= 1
     /\ \E op \in SmallOps : Grow(op, cl, 1)
Spec == Init /\ [][Next]_vars

----------------------------------------------------------------------------
(* Properties checked on the model (E); the verdicts are computed once per vector in Vector *)
\* the generator really produces single-step loosenings inside the preorder
StepInPreorder == \A s \in Slots : IF g1[s].k = "unset" THEN g2[s].k = "unset" ELSE Loosens(g1[s], g2[s])
AnyMono == ok.anymono
TmplMono == ok.tmplmono
TypeMono == ok.typemono
StrongMono == ok.strong
DevOnlyFilter == ok.devonly
\* NOT expected to hold: any-monotonicity of the model WITH the disabled deviation FilterAnyProp (guard of the
\* E layer: TLC must find the counterexample `matrix.*` the deviation stands for)
AnyMonoAsRead == ok.asread
\* rendering and token arithmetic agree with the depth bound
Bounded == Depth(e1) <= 6 /\ NT(e1) <= 40
=============================================================================
