--------------------------- MODULE ActionMetaDoc ---------------------------
(* Value lists that docs/checks.md ("Action metadata syntax validation") states in prose.  This file is the transcription
   of the pinned documentation; tools/checks/ext02.py regenerates it from $VERIF_REPO/docs/checks.md for every run, so
   that the declarative layer of ActionMeta.tla is what the documentation of the checked tree says. *)
\* "Supported icon colors are white, yellow, blue, green, orange, red, purple, or gray-dark."
DocColors == {"white", "yellow", "blue", "green", "orange", "red", "purple", "gray-dark"}
\* "Runner name at `using:` is one of `composite`, `docker`, `node20`"
DocRunners == {"composite", "docker", "node20"}
=============================================================================
