----------------------------- MODULE ExprLexer -----------------------------
(* Lexer of the ${{ }} expression language of actionlint: expr_lexer.go.

   A string is a sequence of CHARACTER CLASSES (the harness renders every class with several
   concrete representatives):
     alpha    g..w y z G..Z (letters that are neither hex digits nor e/E/x)   hexalpha a-d f A-D F
     e        e E        x  x (lower case only; X is an ordinary letter)
     zero 0   nz 1..9    minus -   plus +   under _   dot .   quote '   ws space/tab/CR/LF
     rbrace } bang ! lt < gt > eq = amp & bar |  lp ( rp ) lb [ rb ] star * comma ,
     illegal  any other legal character (? # " { $ / non-ASCII ...)
     bad      NUL / invalid UTF-8 (text/scanner reports these itself)

   Operational layer : Lex(s, devs) - the DFA of ExprLexer.Next with one character of look-ahead
                       (states = the positions inside lexIdent/lexNum/lexHexInt/lexString/...),
                       driven by LexExpression's loop: tokens until END or the first error.
   Declarative layer : DTok(s) - the token languages written as languages (identifier, JSON number
                       with optional minus, 0x hex without leading zeros, '..' string whose inner
                       quotes come in pairs, the operator table, the end marker) plus the scanning
                       rule "the lexeme is the longest prefix of the rest that is a prefix of some
                       token; it must be a token; a number must not be followed by an alphanumeric".

   The DFA is the INTENDED design.  Where the pinned code knowingly deviates, the deviation is a
   named branch enabled by membership in `devs` (AllDevs); Lex(s, {}) is the design, Lex(s, AllDevs)
   is the code as it is.  TLC checks Lex(s, {}) = DTok(s) for every class string up to MaxLen. *)
EXTENDS Naturals, Sequences, FiniteSets, TLC, Json

CONSTANTS MaxLen,      \* bound on the length of the generated strings
          Alphabet,    \* the classes used by the generator
          EmitTc,      \* TRUE: carry the JSON vector in `tc` (for -dump)
          EndMarker    \* TRUE: the lexer is given the generated text followed by `}}`, the way
                       \* rule_expression.go hands over the inside of a placeholder / an if: condition;
                       \* FALSE: the bare text (every run then ends in an error at the latest at EOF)

\* exponent-plus         : `1e+5` - an explicit plus sign in the exponent (JSON allows it) is rejected
\* exponent-leading-zero : `1e01` - a leading zero in the exponent (JSON allows it) is rejected
\* lookahead-past-end    : the scanner loads the character after the end marker; if that is NUL / invalid
\*                         UTF-8 the expression before it is rejected although it ended at `}}`
\* "exponent-plus" and "lookahead-past-end" were repaired in /repo (fix: commits 59e5ddd and the one after it);
\* their branches stay in the DFA as named, disabled deviations.  The code as it is = the design + AllDevs.
AllDevs == {"exponent-leading-zero"}

Letter == {"alpha", "hexalpha", "e", "x"}
Digit == {"zero", "nz"}
Alnum == Letter \cup Digit
HexDigit == Digit \cup {"hexalpha", "e"}
IdStart == Letter \cup {"under"}
IdCont == Alnum \cup {"under", "minus"}
Single == {"lp", "rp", "lb", "rb", "dot", "star", "comma"}      \* one-character tokens, kind = class

Peek(s, off) == IF off + 1 <= Len(s) THEN s[off + 1] ELSE "eof"

----------------------------------------------------------------------------
(* Operational layer.  Delta(st, c, devs) = what ExprLexer does in state st when the look-ahead
   character has class c:
     eat     consume c, go to state `to`
     skip    consume c (white space before a token), the token start moves
     eatemit consume c and return the token `k`
     emit    return the token `k` without consuming c
     fail    lexer error at the current offset (c is not consumed); dev = the named deviation, if
             this failure exists only because of one *)
Eat(to) == [act |-> "eat", to |-> to, k |-> "", dev |-> "none"]
Emit(k) == [act |-> "emit", to |-> "Start", k |-> k, dev |-> "none"]
EatEmit(k) == [act |-> "eatemit", to |-> "Start", k |-> k, dev |-> "none"]
Failure == [act |-> "fail", to |-> "Err", k |-> "", dev |-> "none"]
DevFailure(d) == [act |-> "fail", to |-> "Err", k |-> "", dev |-> d]

Delta(st, c, devs) ==
  CASE st = "Start" ->
         IF c = "ws" THEN [act |-> "skip", to |-> "Start", k |-> "", dev |-> "none"]
         ELSE IF c \in IdStart THEN Eat("Ident")
         ELSE IF c = "zero" THEN Eat("Zero")
         ELSE IF c = "nz" THEN Eat("Int")
         ELSE IF c = "minus" THEN Eat("Minus")
         ELSE IF c = "quote" THEN Eat("Str")
         ELSE IF c = "rbrace" THEN Eat("RBrace")
         ELSE IF c = "bang" THEN Eat("Bang")
         ELSE IF c = "lt" THEN Eat("Lt")
         ELSE IF c = "gt" THEN Eat("Gt")
         ELSE IF c = "eq" THEN Eat("Eq")
         ELSE IF c = "amp" THEN Eat("Amp")
         ELSE IF c = "bar" THEN Eat("Bar")
         ELSE IF c \in Single THEN EatEmit(c)
         ELSE Failure                                   \* eof, plus, illegal
    [] st = "Ident" -> IF c \in IdCont THEN Eat("Ident") ELSE Emit("ident")
    [] st = "Minus" -> IF c = "zero" THEN Eat("Zero") ELSE IF c = "nz" THEN Eat("Int") ELSE Failure
    [] st = "Zero" ->
         IF c = "x" THEN Eat("HexX")
         ELSE IF c = "dot" THEN Eat("Dot")
         ELSE IF c = "e" THEN Eat("E")
         ELSE IF c \in Alnum THEN Failure ELSE Emit("int")
    [] st = "Int" ->
         IF c \in Digit THEN Eat("Int")
         ELSE IF c = "dot" THEN Eat("Dot")
         ELSE IF c = "e" THEN Eat("E")
         ELSE IF c \in Alnum THEN Failure ELSE Emit("int")
    [] st = "Dot" -> IF c \in Digit THEN Eat("Frac") ELSE Failure
    [] st = "Frac" ->
         IF c \in Digit THEN Eat("Frac")
         ELSE IF c = "e" THEN Eat("E")
         ELSE IF c \in Alnum THEN Failure ELSE Emit("float")
    [] st = "E" ->
         IF c = "minus" THEN Eat("ESign")
         ELSE IF c = "plus" THEN (IF "exponent-plus" \in devs THEN DevFailure("exponent-plus") ELSE Eat("ESign"))
         ELSE IF c = "zero" THEN Eat("ExpZero")
         ELSE IF c = "nz" THEN Eat("Exp")
         ELSE Failure
    [] st = "ESign" -> IF c = "zero" THEN Eat("ExpZero") ELSE IF c = "nz" THEN Eat("Exp") ELSE Failure
    [] st = "ExpZero" ->       \* the exponent so far is "0"
         IF c \in Digit THEN (IF "exponent-leading-zero" \in devs THEN DevFailure("exponent-leading-zero") ELSE Eat("Exp"))
         ELSE IF c \in Alnum THEN Failure ELSE Emit("float")
    [] st = "Exp" ->
         IF c \in Digit THEN Eat("Exp")
         ELSE IF c \in Alnum THEN Failure ELSE Emit("float")
    [] st = "HexX" ->
         IF c = "zero" THEN Eat("HexZero")
         ELSE IF c \in HexDigit THEN Eat("Hex") ELSE Failure
    [] st = "HexZero" -> IF c \in Alnum THEN Failure ELSE Emit("int")
    [] st = "Hex" ->
         IF c \in HexDigit THEN Eat("Hex")
         ELSE IF c \in Alnum THEN Failure ELSE Emit("int")
    [] st = "Str" -> IF c = "quote" THEN Eat("StrQ") ELSE IF c = "eof" THEN Failure ELSE Eat("Str")
    [] st = "StrQ" -> IF c = "quote" THEN Eat("Str") ELSE Emit("string")
    [] st = "RBrace" -> IF c = "rbrace" THEN EatEmit("end") ELSE Failure
    [] st = "Bang" -> IF c = "eq" THEN EatEmit("ne") ELSE Emit("not")
    [] st = "Lt" -> IF c = "eq" THEN EatEmit("le") ELSE Emit("lt")
    [] st = "Gt" -> IF c = "eq" THEN EatEmit("ge") ELSE Emit("gt")
    [] st = "Eq" -> IF c = "eq" THEN EatEmit("eq") ELSE Failure
    [] st = "Amp" -> IF c = "amp" THEN EatEmit("and") ELSE Failure
    [] st = "Bar" -> IF c = "bar" THEN EatEmit("or") ELSE Failure

DfaStates == {"Start", "Ident", "Minus", "Zero", "Int", "Dot", "Frac", "E", "ESign", "ExpZero", "Exp", "HexX",
              "HexZero", "Hex", "Str", "StrQ", "RBrace", "Bang", "Lt", "Gt", "Eq", "Amp", "Bar"}

Tk(k, off) == [k |-> k, off |-> off]

(* The run: st, start offset of the token being lexed, current offset, tokens so far, number of
   steps, remaining fuel.  A character of class `bad` makes text/scanner itself report an error at
   the offset of that character as soon as it becomes the look-ahead, in every state.
   Result: [toks, err, off (of the error), dev, steps, maxidle]; maxidle = the largest number of
   consecutive steps that consumed nothing. *)
RECURSIVE Go(_, _, _, _, _, _, _, _, _, _)
Go(s, devs, st, start, off, toks, steps, idle, maxidle, fuel) ==
  LET c == Peek(s, off)
      res(e, o, dv) == [toks |-> toks, err |-> e, off |-> o, dev |-> dv, steps |-> steps, maxidle |-> maxidle,
                       diverged |-> FALSE]
  IN
  IF fuel = 0 THEN [res(TRUE, off, "none") EXCEPT !.diverged = TRUE]
  ELSE IF c = "bad" THEN
       \* the lexer goes on with a character that matches nothing: a state that would end its token does so
       \* (the token is complete before the error offset), every other state ends in the error
       LET db == Delta(st, "illegal", devs) IN
       [res(TRUE, off, "none") EXCEPT !.toks = IF db.act = "emit" THEN Append(toks, Tk(db.k, start)) ELSE toks]
  ELSE
  LET d == Delta(st, c, devs)
      mi == IF idle + 1 > maxidle THEN idle + 1 ELSE maxidle IN
  CASE d.act = "eat" -> Go(s, devs, d.to, start, off + 1, toks, steps + 1, 0, maxidle, fuel - 1)
    [] d.act = "skip" -> Go(s, devs, "Start", off + 1, off + 1, toks, steps + 1, 0, maxidle, fuel - 1)
    [] d.act = "eatemit" ->
         IF d.k = "end" THEN
              IF "lookahead-past-end" \in devs /\ Peek(s, off + 1) = "bad"
                THEN [res(TRUE, off + 1, "lookahead-past-end") EXCEPT !.steps = steps + 1]
                ELSE [toks |-> Append(toks, Tk("end", start)), err |-> FALSE, off |-> 0, dev |-> "none",
                      steps |-> steps + 1, maxidle |-> maxidle, diverged |-> FALSE]
         ELSE Go(s, devs, "Start", off + 1, off + 1, Append(toks, Tk(d.k, start)), steps + 1, 0, maxidle, fuel - 1)
    [] d.act = "emit" -> Go(s, devs, "Start", off, off, Append(toks, Tk(d.k, start)), steps + 1, idle + 1, mi, fuel - 1)
    [] d.act = "fail" -> [res(TRUE, off, d.dev) EXCEPT !.steps = steps + 1]

Run(s, devs) == Go(s, devs, "Start", 0, 0, <<>>, 0, 0, 0, 2 * Len(s) + 4)
\* the observable: tokens (kind, offset) before END / the first error, and the error offset
Obs(r) == [toks |-> r.toks, err |-> r.err, off |-> r.off]
Lex(s, devs) == Obs(Run(s, devs))

----------------------------------------------------------------------------
(* Declarative layer: the token languages. *)
Sub(w, a, b) == SubSeq(w, a, b)
AllIn(w, set) == \A i \in DOMAIN w : w[i] \in set

IsIdent(w) == w # <<>> /\ w[1] \in IdStart /\ AllIn(w, IdCont)

\* JSON number:  int frac? exp?   with int = 0 | [1-9][0-9]*,  frac = . [0-9]+,  exp = [eE] [+-]? [0-9]+
IsIntPart(w) == w = <<"zero">> \/ (w # <<>> /\ w[1] = "nz" /\ AllIn(w, Digit))
IsFrac(w) == w = <<>> \/ (Len(w) >= 2 /\ w[1] = "dot" /\ AllIn(Tail(w), Digit))
IsExpPart(w) ==
  \/ w = <<>>
  \/ /\ Len(w) >= 2
     /\ w[1] = "e"
     /\ LET r == Tail(w)
            d == IF r[1] \in {"plus", "minus"} THEN Tail(r) ELSE r
        IN d # <<>> /\ AllIn(d, Digit)
IsDec(w) == \E a \in 1 .. Len(w) : \E b \in a .. Len(w) :
              IsIntPart(Sub(w, 1, a)) /\ IsFrac(Sub(w, a + 1, b)) /\ IsExpPart(Sub(w, b + 1, Len(w)))
\* 0x hex: 0x0 or 0x[1-9a-fA-F][0-9a-fA-F]*  (no leading zeros, as the lexer's tests document)
IsHex(w) == /\ Len(w) >= 3
            /\ w[1] = "zero"
            /\ w[2] = "x"
            /\ LET h == Sub(w, 3, Len(w)) IN
               h = <<"zero">> \/ (h[1] \in (HexDigit \ {"zero"}) /\ AllIn(h, HexDigit))
Unsigned(w) == IF w # <<>> /\ w[1] = "minus" THEN Tail(w) ELSE w
IsNumber(w) == /\ w # <<>>
               /\ w[1] \in (Digit \cup {"minus"})        \* (implied by the next line; spares TLC the search)
               /\ LET u == Unsigned(w) IN u # <<>> /\ (IsDec(u) \/ IsHex(u))
NumKind(w) == IF IsHex(Unsigned(w)) \/ (\A i \in DOMAIN w : w[i] \notin {"dot", "e"}) THEN "int" ELSE "float"

(* String: ' body ' where every quote inside the body is doubled, i.e. every maximal run of quotes
   inside the body has even length.  For a word w starting with a quote let m = Tail(w):
   a run of quotes in m that is followed by another character must be even (an escape sequence);
   the run at the very end of m is "k escapes + the closing quote" iff it is odd. *)
RunEndingAt(m, p) ==      \* length of the maximal run of quotes of m that ends at position p (m[p] is a quote)
  LET q == CHOOSE q \in 0 .. p : /\ (q = 0 \/ m[q] # "quote")
                                 /\ \A r \in (q + 1) .. p : m[r] = "quote" IN p - q
InnerRunsEven(m) == \A p \in 1 .. (Len(m) - 1) :
                      (m[p] = "quote" /\ m[p + 1] # "quote") => RunEndingAt(m, p) % 2 = 0
StrChars(m) == \A i \in DOMAIN m : m[i] # "bad"
IsStrPrefix(w) == w # <<>> /\ w[1] = "quote" /\ StrChars(Tail(w)) /\ InnerRunsEven(Tail(w))
IsString(w) == /\ IsStrPrefix(w)
               /\ LET m == Tail(w) IN m # <<>> /\ m[Len(m)] = "quote" /\ RunEndingAt(m, Len(m)) % 2 = 1

Op(w, k) == [w |-> w, k |-> k]
Ops == {Op(<<"bang">>, "not"), Op(<<"bang", "eq">>, "ne"), Op(<<"lt">>, "lt"), Op(<<"lt", "eq">>, "le"),
        Op(<<"gt">>, "gt"), Op(<<"gt", "eq">>, "ge"), Op(<<"eq", "eq">>, "eq"), Op(<<"amp", "amp">>, "and"),
        Op(<<"bar", "bar">>, "or"), Op(<<"lp">>, "lp"), Op(<<"rp">>, "rp"), Op(<<"lb">>, "lb"), Op(<<"rb">>, "rb"),
        Op(<<"dot">>, "dot"), Op(<<"star">>, "star"), Op(<<"comma">>, "comma"), Op(<<"rbrace", "rbrace">>, "end")}
IsOp(w) == \E o \in Ops : o.w = w
IsOpPrefix(w) == \E o \in Ops : Len(w) <= Len(o.w) /\ Sub(o.w, 1, Len(w)) = w

IsToken(w) == IsIdent(w) \/ IsNumber(w) \/ IsString(w) \/ IsOp(w)
\* the languages are pairwise disjoint (different first characters), so the kind is well defined
KindOf(w) == IF IsIdent(w) THEN "ident"
             ELSE IF IsNumber(w) THEN NumKind(w)
             ELSE IF IsString(w) THEN "string"
             ELSE (CHOOSE o \in Ops : o.w = w).k
\* w can be extended to a token (every proper prefix of a number becomes a number by appending one digit)
IsTokenPrefix(w) == \/ IsIdent(w)
                    \/ IsNumber(w) \/ IsNumber(w \o <<"zero">>)
                    \/ IsStrPrefix(w)
                    \/ IsOpPrefix(w)

(* Scanning rule.  From position i (1-based) skip white space; the lexeme is the longest prefix of
   the rest that is a prefix of a token.  No such prefix, a lexeme that is not a token, a number
   followed by an alphanumeric, or the end of the text before the end marker: error at the offset
   where scanning stopped. *)
RECURSIVE SkipWs(_, _)
SkipWs(s, i) == IF i <= Len(s) /\ s[i] = "ws" THEN SkipWs(s, i + 1) ELSE i
LongestViable(s, i) ==   \* the largest j >= i-1 with s[i..j] a token prefix (the set of such j is an interval)
  LET js == {j \in i .. Len(s) : IsTokenPrefix(Sub(s, i, j))} IN
  IF js = {} THEN i - 1 ELSE CHOOSE j \in js : \A j2 \in js : j2 <= j

RECURSIVE DT(_, _, _)
DT(s, i0, acc) ==
  LET i == SkipWs(s, i0) IN
  IF i > Len(s) THEN [toks |-> acc, err |-> TRUE, off |-> Len(s)]
  ELSE
  LET j == LongestViable(s, i)
      w == Sub(s, i, j) IN
  IF ~IsToken(w) THEN [toks |-> acc, err |-> TRUE, off |-> j]
  ELSE IF IsNumber(w) /\ j + 1 <= Len(s) /\ s[j + 1] \in Alnum THEN [toks |-> acc, err |-> TRUE, off |-> j]
  ELSE IF KindOf(w) = "end" THEN [toks |-> Append(acc, Tk("end", i - 1)), err |-> FALSE, off |-> 0]
  ELSE DT(s, j + 1, Append(acc, Tk(KindOf(w), i - 1)))
DTok(s) == DT(s, 1, <<>>)

----------------------------------------------------------------------------
(* Generator: all strings over Alphabet up to MaxLen; tc = the vector for the conformance harness:
   the string, the design's prediction (toks/err/off) and, where a named deviation of the pinned
   code fires, the prediction for the code as it is (dev, ctoks/cerr/coff). *)
VARIABLES s, tc
vars == <<s, tc>>

Full(t) == IF EndMarker THEN t \o <<"rbrace", "rbrace">> ELSE t

Vector(t) ==
  LET f == Full(t)
      d == Lex(f, {})
      cr == Run(f, AllDevs)
      c == Obs(cr) IN
  ToJson([s |-> f, toks |-> d.toks, err |-> d.err, off |-> d.off,
          dev |-> cr.dev, ctoks |-> c.toks, cerr |-> c.err, coff |-> c.off])

Init == s = <<>> /\ tc = IF EmitTc THEN Vector(<<>>) ELSE ""
Next == /\ Len(s) < MaxLen
        /\ \E c \in Alphabet : s' = Append(s, c)
        /\ tc' = IF EmitTc THEN Vector(s') ELSE ""
Spec == Init /\ [][Next]_vars

full == Full(s)
design == Run(full, {})
\* the design's DFA computes exactly the declarative tokenisation (tokens, kinds, offsets, error offset)
DfaIsDeclarative == Obs(design) = DTok(full)
\* progress: never two steps in a row that consume nothing, hence at most 2*Len+2 steps and no divergence
Progress == /\ ~design.diverged
            /\ design.maxidle <= 1
            /\ design.steps <= 2 * Len(full) + 2
            /\ ~Run(full, AllDevs).diverged
\* the result is a token list closed by END, or a token list followed by exactly one error inside the text
Shape == LET r == Obs(design) IN
         /\ r.err => r.off \in 0 .. Len(full)
         /\ ~r.err => r.toks # <<>> /\ r.toks[Len(r.toks)].k = "end"
         /\ \A i \in DOMAIN r.toks : /\ r.toks[i].off < Len(full)
                                     /\ (i < Len(r.toks) => r.toks[i].k # "end" /\ r.toks[i].off < r.toks[i + 1].off)
                                     /\ (r.err => r.toks[i].off < r.off)
\* the code as it is differs from the design only where a named deviation fires
DeviationsNamed == LET cr == Run(full, AllDevs) IN (Obs(cr) # Obs(design)) <=> (cr.dev # "none")
\* the four statements above in one invariant that runs the DFA once per state (big configurations)
AllOf(d, cr, dt) ==
  LET r == Obs(d) IN
  /\ r = dt
  /\ ~d.diverged /\ d.maxidle <= 1 /\ d.steps <= 2 * Len(full) + 2 /\ ~cr.diverged
  /\ r.err => r.off \in 0 .. Len(full)
  /\ ~r.err => r.toks # <<>> /\ r.toks[Len(r.toks)].k = "end"
  /\ \A i \in DOMAIN r.toks : /\ r.toks[i].off < Len(full)
                              /\ (i < Len(r.toks) => r.toks[i].k # "end" /\ r.toks[i].off < r.toks[i + 1].off)
                              /\ (r.err => r.toks[i].off < r.off)
  /\ (Obs(cr) # r) <=> (cr.dev # "none")
LexerInvariants == AllOf(Run(full, {}), Run(full, AllDevs), DTok(full))
\* the token languages are disjoint (KindOf is well defined) - checked on every substring
Disjoint == \A i \in 1 .. Len(full) : \A j \in i .. Len(full) :
              LET w == Sub(full, i, j) IN
              Cardinality({x \in {"i", "n", "s", "o"} :
                             \/ (x = "i" /\ IsIdent(w)) \/ (x = "n" /\ IsNumber(w))
                             \/ (x = "s" /\ IsString(w)) \/ (x = "o" /\ IsOp(w))}) <= 1
=============================================================================
