------------------------------ MODULE ToolInput ------------------------------
(* What is handed to shellcheck / pyflakes: rule_shellcheck.go, rule_pyflakes.go.

   EffectiveShell : which tool (if any) a run: step goes to, from the step's shell, the job's and
                    the workflow's defaults.run.shell and the runner.
   Sanitize       : every ${{ ... }} of the script is replaced by underscores of equal length.

   Both have an operational layer (as the code computes it) and a declarative layer; TLC checks
   them equal on the complete bounded universe; `tc` is the vector for the harness. *)
EXTENDS Naturals, Sequences, FiniteSets, TLC, Json

CONSTANTS Mode,        \* "shell" or "sanitize": which generator runs
          ShellNames,  \* shell values to try ("" = not given)
          Chars, MaxLen

----------------------------------------------------------------------------
HasPrefix(s, p) == s \in {p} \cup {"bash -e {0}", "sh -e {0}", "python {0}"} /\
                   ((p = "bash" /\ s \in {"bash", "bash -e {0}"}) \/ (p = "sh" /\ s \in {"sh", "sh -e {0}"})
                    \/ (p = "python" /\ s \in {"python", "python {0}"}))
\* shell families of the names used in the universe
IsBash(s) == s \in {"bash", "bash -e {0}"}
IsSh(s) == s \in {"sh", "sh -e {0}"}
IsPython(s) == s \in {"python", "python {0}"}

\* declarative: GitHub's rule - first of step / job default / workflow default, else the runner's default
\* "" = the step / defaults.run section is absent; "<wd>" = it is present and gives working-directory but no shell
Given(s) == s \notin {"", "<wd>"}
Effective(step, job, wf, win) ==
  IF Given(step) THEN step ELSE IF Given(job) THEN job ELSE IF Given(wf) THEN wf ELSE IF win THEN "pwsh" ELSE "bash"
ToolFor(shell) == IF IsBash(shell) THEN "sc:bash" ELSE IF IsSh(shell) THEN "sc:sh" ELSE IF IsPython(shell) THEN "py" ELSE "none"
DeclTool(step, job, wf, win) == ToolFor(Effective(step, job, wf, win))

\* operational: the two rules decide independently
\* rule_shellcheck.go keeps the value of shell: ("" when the key is missing, whatever else the section has)
ScShell(step, job, wf, win) ==
  IF Given(step) THEN step ELSE IF Given(job) THEN job ELSE IF Given(wf) THEN wf ELSE IF win THEN "pwsh" ELSE "bash"
ScRuns(step, job, wf, win) == LET n == ScShell(step, job, wf, win) IN
  IF IsBash(n) THEN "sc:bash" ELSE IF IsSh(n) THEN "sc:sh" ELSE "none"
PyKind(s) == IF ~Given(s) THEN "unspec" ELSE IF IsPython(s) THEN "py" ELSE "notpy"
PyRuns(step, job, wf) ==
  IF PyKind(step) # "unspec" THEN PyKind(step) = "py"
  ELSE IF PyKind(job) # "unspec" THEN PyKind(job) = "py"
  ELSE PyKind(wf) = "py"
OpTool(step, job, wf, win) ==
  LET a == ScRuns(step, job, wf, win) b == PyRuns(step, job, wf) IN
  IF a # "none" /\ b THEN "both" ELSE IF b THEN "py" ELSE a

----------------------------------------------------------------------------
(* Sanitize over character sequences *)
RECURSIVE FindFrom(_, _, _)
\* smallest i >= from such that pat occurs in s at i; 0 if none
FindFrom(s, pat, from) ==
  IF from + Len(pat) - 1 > Len(s) THEN 0
  ELSE IF SubSeq(s, from, from + Len(pat) - 1) = pat THEN from
  ELSE FindFrom(s, pat, from + 1)
Open == <<"$", "{", "{">>
Close == <<"}", "}">>
Under(n) == [i \in 1 .. n |-> "_"]

\* operational: the loop of sanitizeExpressionsInScript
RECURSIVE OpSan(_, _)
OpSan(src, acc) ==
  LET st == FindFrom(src, Open, 1) IN
  IF st = 0 THEN acc \o src
  ELSE LET e == FindFrom(src, Close, st) IN
       IF e = 0 THEN acc \o src
       ELSE LET end == e + 1 IN       \* index of the last character of "}}"
            OpSan(SubSeq(src, end + 1, Len(src)), acc \o SubSeq(src, 1, st - 1) \o Under(end - st + 1))
OpSanitize(s) == OpSan(s, <<>>)

\* declarative: the set of masked positions
RECURSIVE Masked(_, _)
Masked(s, from) ==
  LET st == FindFrom(s, Open, from) IN
  IF st = 0 THEN {}
  ELSE LET e == FindFrom(s, Close, st + 3) IN
       IF e = 0 THEN {} ELSE (st .. (e + 1)) \cup Masked(s, e + 2)
DeclSanitize(s) == [i \in DOMAIN s |-> IF i \in Masked(s, 1) THEN "_" ELSE s[i]]

----------------------------------------------------------------------------
VARIABLES v, tc
vars == <<v, tc>>

ShellVec(a, b, c, w) == [kind |-> "shell", step |-> a, job |-> b, wf |-> c, win |-> w, tool |-> DeclTool(a, b, c, w)]
SanVec(s) == [kind |-> "sanitize", s |-> s, out |-> DeclSanitize(s)]

Init == v = <<>> /\ tc = ToJson([kind |-> "none"])
NextShell == /\ v = <<>>
             /\ \E a \in ShellNames, b \in ShellNames, c \in ShellNames, w \in BOOLEAN :
                  /\ v' = <<a, b, c, IF w THEN "win" ELSE "linux">>
                  /\ tc' = ToJson(ShellVec(a, b, c, w))
NextSan == /\ Len(v) < MaxLen
           /\ \E ch \in Chars : v' = Append(v, ch) /\ tc' = ToJson(SanVec(v'))
Next == IF Mode = "shell" THEN NextShell ELSE NextSan
Spec == Init /\ [][Next]_vars

ShellAgree == (Mode = "shell" /\ v # <<>>) =>
                OpTool(v[1], v[2], v[3], v[4] = "win") = DeclTool(v[1], v[2], v[3], v[4] = "win")
SanAgree == (Mode = "sanitize") => /\ OpSanitize(v) = DeclSanitize(v)
                                   /\ Len(OpSanitize(v)) = Len(v)
=============================================================================
