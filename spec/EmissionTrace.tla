---------------------------- MODULE EmissionTrace ----------------------------
(* Trace validation for C02 (and the isolation half of C10): each record of trace.ndjson is one
   observed outcome of the real linter: [case, kind, diags] where diags is the diagnostic list as
   <<file index, line, col, rule index, message id>> in output order.

   PropOK  (decides VIOLATION): determinism - every outcome recorded for a case equals the first
           outcome recorded for that case (a two-run property encoded with the history variable
           `seen`); for kind "single-vs-multi" records the per-file list of the multi-file run
           equals the list of the single-file run.
   ModelOK (drift only): the list is sorted by (file, line, col) and ties are ordered by rule
           order, as the Emission model says (stable sort over rule-ordered emission). *)
EXTENDS Naturals, Sequences, FiniteSets, TLC, Json
VARIABLES l, mism, drift, seen

Trace == ndJsonDeserialize("trace.ndjson")

Le(a, b) == \/ a[1] < b[1]
            \/ a[1] = b[1] /\ a[2] < b[2]
            \/ a[1] = b[1] /\ a[2] = b[2] /\ a[3] < b[3]
            \/ a[1] = b[1] /\ a[2] = b[2] /\ a[3] = b[3] /\ a[4] <= b[4]
SortedStable(ds) == \A i \in 1 .. (Len(ds) - 1) : Le(ds[i], ds[i + 1])

Init == l = 1 /\ mism = <<>> /\ drift = <<>> /\ seen = <<>>
Lookup(c) == LET hits == {i \in DOMAIN seen : seen[i].case = c} IN
             IF hits = {} THEN <<>> ELSE <<seen[CHOOSE i \in hits : TRUE]>>
Step ==
  /\ l <= Len(Trace)
  /\ LET r == Trace[l]
         prev == Lookup(r.case)
         propOK == IF r.kind = "pair" THEN r.diags = r.other
                   ELSE prev = <<>> \/ (prev[1].diags = r.diags /\ prev[1].fatal = r.fatal /\ prev[1].text = r.text)
     IN /\ mism' = IF propOK \/ Len(mism) >= 200 THEN mism ELSE Append(mism, l)
        /\ drift' = IF SortedStable(r.diags) \/ Len(drift) >= 200 THEN drift ELSE Append(drift, l)
        /\ seen' = IF r.kind = "outcome" /\ prev = <<>>
                     THEN Append(seen, [case |-> r.case, diags |-> r.diags, fatal |-> r.fatal, text |-> r.text])
                     ELSE seen
  /\ l' = l + 1
Spec == Init /\ [][Step]_<<l, mism, drift, seen>>

Report == (l = Len(Trace) + 1) => PrintT(<<"MISM", Len(Trace), mism, drift>>)
=============================================================================
