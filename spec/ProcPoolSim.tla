----------------------------- MODULE ProcPoolSim -----------------------------
(* Behaviour generator for the scheduler gate (binding S of C20): ProcPool with a history variable
   `last` naming the action just taken, so that `tlc -simulate` writes behaviours the harness can
   force onto the real goroutines step by step (the hooks of process.go block until granted). *)
EXTENDS ProcPoolMC

VARIABLE last
svars == <<vars, last>>

SimInit == Init /\ last = <<"init", <<0, 0>>>>

L(name, arg) == last' = <<name, arg>>

SimNext ==
  \/ \E f \in Files : \/ Run(f) /\ L("add", cfg.seq[f][fidx[f]].id)
                      \/ EndVisit(f) /\ L("endvisit", <<f, 0>>)
                      \/ RuleWait(f, "sc") /\ L("rwait", <<f, 1>>)
                      \/ RuleWait(f, "py") /\ L("rwait", <<f, 2>>)
  \/ \E t \in Tasks : \/ Go(t) /\ L("go", t)
                      \/ Acquire(t) /\ L("acq", t)
                      \/ ToolStart(t) /\ L("start", t)
                      \/ ToolExit(t) /\ L("exit", t)
                      \/ Release(t) /\ L("rel", t)
                      \/ Callback(t) /\ L("callback", t)
                      \/ PDone(t) /\ L("done", t)
                      \/ EDone(t) /\ L("edone", t)
  \/ EgWait /\ L("egwait", <<0, 0>>)
  \/ ProcWait /\ L("pwait", <<0, 0>>)
  \/ Returned /\ UNCHANGED vars /\ L("end", <<0, 0>>) /\ last[1] # "end"

SimSpec == SimInit /\ [][SimNext]_svars

ShapesSim == { <<<<"sc", "py", "sc">>, <<"sc", "py">>>>, <<<<"sc", "sc">>, <<"py">>, <<"sc">>>> }
=============================================================================
