"""Common machinery of the /verif checks: scratch dirs, TLC driver, harness build, verdicts,
known findings, evidence files.  Standard library only."""
import atexit
import json
import os
import re
import shutil
import signal
import subprocess
import sys
import tempfile
import time

VERIF = os.path.dirname(os.path.dirname(os.path.abspath(__file__)))
REPO = os.environ.get('VERIF_REPO', '/repo')
SPEC = os.path.join(VERIF, 'spec')
HARNESS = os.path.join(VERIF, 'harness')
# VERIF_OUT_DIR: where evidence/ and replay/ are written (default /verif; tools/seedtest.py points it at a scratch
# directory so that runs against a mutated tree never touch the evidence of the real tree)
_OUT = os.environ.get('VERIF_OUT_DIR') or VERIF
EVID = os.path.join(_OUT, 'evidence')
REPLAY = os.path.join(_OUT, 'replay')
NCPU = int(os.environ.get('VERIF_WORKERS') or os.cpu_count() or 4)

GOENV = dict(os.environ, GOFLAGS='-mod=mod', GOPROXY='off', GOSUMDB='off', GOTOOLCHAIN='local',
             CGO_ENABLED=os.environ.get('CGO_ENABLED', '0'))


class Inconclusive(Exception):
    """Tool failure, timeout, spec-coverage guard ... -> exit 2, never a violation."""


_scratch = None


def scratch():
    global _scratch
    if _scratch is None:
        base = os.environ.get('VERIF_SCRATCH_BASE') or tempfile.gettempdir()
        _scratch = tempfile.mkdtemp(prefix='vp-', dir=base)
        atexit.register(lambda: shutil.rmtree(_scratch, ignore_errors=True))
    return _scratch


def subdir(name):
    d = os.path.join(scratch(), name)
    os.makedirs(d, exist_ok=True)
    return d


def seed():
    try:
        return int(os.environ.get('VERIF_SEED', '1'))
    except ValueError:
        return 1


# ------------------------------------------------------------------------------------------ TLC

class TLCResult:
    def __init__(self):
        self.generated = 0
        self.distinct = 0
        self.ok = False
        self.violated = None      # name of violated invariant/property, if any
        self.out = ''
        self.wall = 0.0
        self.trace = []           # counterexample states (raw text)
        self.coverage_zero = []


def run_tlc(module, cfg, workers=None, extra=(), timeout=900, copy=(), files=None, deadlock=False,
            dump=None, simulate=None, depth=None, java_opts=None, coverage=False, name=None, heap=None):
    """Run TLC on spec/<module>.tla with spec/cfg/<cfg> in a scratch copy of the spec directory.
    Returns TLCResult.  `files`: {relative name: text} extra files written next to the spec (traces).
    `dump`: file name (relative to the run dir) for `-dump`."""
    rd = subdir('tlc-' + (name or (module + '-' + os.path.splitext(os.path.basename(cfg))[0])))
    for f in os.listdir(SPEC):
        if f.endswith('.tla'):
            shutil.copy(os.path.join(SPEC, f), rd)
    shutil.copy(os.path.join(SPEC, 'cfg', cfg), os.path.join(rd, 'run.cfg'))
    for k, v in (files or {}).items():
        p = os.path.join(rd, k)
        if isinstance(v, bytes):
            open(p, 'wb').write(v)
        else:
            open(p, 'w').write(v)
    meta = os.path.join(rd, 'meta')
    # measured here: without -Xms, with many GC threads or with a big heap TLC spends most of its time in the kernel
    nw = workers or NCPU
    heap = heap or os.environ.get('VERIF_TLC_HEAP', '2g')   # big heaps cost first-touch page faults here
    cmd = ['java', '-XX:+UseParallelGC', '-XX:ParallelGCThreads=%d' % (2 if nw == 1 else 4), '-Xss64m',
           '-Xmx' + heap, '-Xms' + heap]
    if java_opts:
        cmd += list(java_opts)
    cmd += ['-cp', '/opt/veriftools/tla/tla2tools.jar:/opt/veriftools/tla/CommunityModules-deps.jar',
            'tlc2.TLC', '-config', 'run.cfg', '-metadir', meta, '-noGenerateSpecTE',
            '-workers', str(nw)]
    if not deadlock:
        cmd += ['-deadlock']
    if dump:
        cmd += ['-dump', dump]
    if simulate:
        cmd += ['-simulate', simulate]
    if depth:
        cmd += ['-depth', str(depth)]
    if coverage:
        cmd += ['-coverage', '1']
    cmd += list(extra)
    cmd += [module + '.tla']
    t0 = time.time()
    env = dict(os.environ)
    env.pop('JAVA_TOOL_OPTIONS', None)
    try:
        p = subprocess.run(cmd, cwd=rd, stdout=subprocess.PIPE, stderr=subprocess.STDOUT, timeout=timeout,
                           env=env, text=True, errors='replace')
    except subprocess.TimeoutExpired:
        subprocess.run(['pkill', '-f', 'metadir ' + meta], check=False)
        raise Inconclusive('TLC timeout (%ss) on %s/%s' % (timeout, module, cfg))
    r = TLCResult()
    r.out = p.stdout
    r.wall = time.time() - t0
    r.dir = rd
    m = re.findall(r'(\d+) states generated, (\d+) distinct states found', p.stdout)
    if m:
        r.generated, r.distinct = int(m[-1][0]), int(m[-1][1])
    mv = re.search(r'Error: Invariant (\S+) is violated', p.stdout)
    if mv:
        r.violated = mv.group(1)
    elif re.search(r'Error: (Action property|Temporal properties) .*violated', p.stdout):
        r.violated = 'temporal'
    elif 'Error: Temporal properties were violated' in p.stdout:
        r.violated = 'temporal'
    elif re.search(r'Error: Deadlock reached', p.stdout):
        r.violated = 'deadlock'
    elif 'is violated' in p.stdout and 'Error:' in p.stdout:
        r.violated = 'property'
    r.ok = (p.returncode == 0 and 'Model checking completed. No error has been found.' in p.stdout) \
        or (simulate is not None and p.returncode == 0)
    if not r.ok and not r.violated:
        tail = '\n'.join(p.stdout.splitlines()[-40:])
        raise Inconclusive('TLC failed on %s/%s (rc=%s):\n%s' % (module, cfg, p.returncode, tail))
    if coverage:
        r.coverage_zero = re.findall(r'^<(\w+) line .*>: 0:0$', p.stdout, re.M)
    return r


def sany_ok(module):
    p = subprocess.run(['tla-sany', module + '.tla'], cwd=SPEC, stdout=subprocess.PIPE, stderr=subprocess.STDOUT,
                       text=True)
    return p.returncode == 0 and 'Semantic errors' not in p.stdout and '*** Errors' not in p.stdout


# -------------------------------------------------------------------------------------- harness

_built = {}


def build_harness(race=False, tags='verif'):
    """Build the Go conformance harness against the *current working tree* of REPO (default /repo).
    The harness sources are copied to the scratch dir so that nothing is written under /verif."""
    key = (race, tags)
    if key in _built:
        return _built[key]
    hd = os.path.join(scratch(), 'harness-src')
    if not os.path.isdir(hd):
        shutil.copytree(HARNESS, hd, ignore=shutil.ignore_patterns('go.sum'))
        gm = open(os.path.join(hd, 'go.mod')).read()
        gm = re.sub(r'replace github.com/rhysd/actionlint => .*', 'replace github.com/rhysd/actionlint => ' + REPO, gm)
        open(os.path.join(hd, 'go.mod'), 'w').write(gm)
        shutil.copy(os.path.join(REPO, 'go.sum'), os.path.join(hd, 'go.sum'))
    out = os.path.join(scratch(), 'harness' + ('-race' if race else ''))
    cmd = ['go', 'build', '-tags', tags, '-o', out]
    env = dict(GOENV)
    if race:
        cmd.append('-race')
        env['CGO_ENABLED'] = '1'
    cmd.append('./cmd/harness')
    p = subprocess.run(cmd, cwd=hd, env=env, stdout=subprocess.PIPE, stderr=subprocess.STDOUT, text=True)
    if p.returncode != 0:
        raise Inconclusive('harness build failed:\n' + p.stdout[-4000:])
    _built[key] = out
    return out


def build_actionlint(race=False, tags='verif'):
    key = ('bin', race, tags)
    if key in _built:
        return _built[key]
    out = os.path.join(scratch(), 'actionlint' + ('-race' if race else ''))
    cmd = ['go', 'build', '-tags', tags, '-o', out]
    env = dict(GOENV)
    if race:
        cmd.append('-race')
        env['CGO_ENABLED'] = '1'
    cmd.append('./cmd/actionlint')
    p = subprocess.run(cmd, cwd=REPO, env=env, stdout=subprocess.PIPE, stderr=subprocess.STDOUT, text=True)
    if p.returncode != 0:
        raise Inconclusive('actionlint build failed:\n' + p.stdout[-4000:])
    _built[key] = out
    return out


def run_harness(args, stdin=None, timeout=1800, race=False, env=None, check=True):
    h = build_harness(race=race)
    e = dict(os.environ)
    e['VERIF_SEED'] = str(seed())
    if env:
        e.update(env)
    try:
        p = subprocess.run([h] + list(args), input=stdin, stdout=subprocess.PIPE, stderr=subprocess.PIPE,
                           timeout=timeout, env=e)
    except subprocess.TimeoutExpired:
        raise Inconclusive('harness timeout: ' + ' '.join(args))
    if check and p.returncode not in (0,):
        raise Inconclusive('harness %s failed rc=%s: %s' % (' '.join(args[:3]), p.returncode,
                                                              p.stderr.decode('utf-8', 'replace')[-3000:]))
    return p


def read_jsonl(path):
    out = []
    with open(path) as f:
        for line in f:
            line = line.strip()
            if line:
                out.append(json.loads(line))
    return out


def write_jsonl(path, items):
    with open(path, 'w') as f:
        for it in items:
            f.write(json.dumps(it, separators=(',', ':')) + '\n')


# ---------------------------------------------------------------------------- known findings

def load_known():
    p = os.path.join(VERIF, 'known_findings.json')
    if not os.path.exists(p):
        return []
    return json.load(open(p)).get('findings', [])


def match_known(prop, viol, known=None):
    """viol: dict with at least 'site' and free fields.  An entry matches when its property is
    equal, status is 'open', and every key of entry['match'] is equal to (or, for strings with
    prefix 're:', regex-matches) the corresponding field of the violation."""
    for e in (known if known is not None else load_known()):
        if e.get('property') != prop or e.get('status') != 'open':
            continue
        ok = True
        for k, v in e.get('match', {}).items():
            x = viol.get(k)
            if isinstance(v, str) and v.startswith('re:'):
                if x is None or not re.search(v[3:], str(x)):
                    ok = False
                    break
            elif x != v:
                ok = False
                break
        if ok:
            return e
    return None


# --------------------------------------------------------------------------------- verdicts

class Check:
    """Accumulates coverage, violations and notes for one property run and produces the verdict."""

    def __init__(self, prop, level, tier):
        self.prop = prop
        self.level = level
        self.tier = tier
        self.t0 = time.time()
        self.cov = {'states': 0, 'transitions': 0, 'traces_validated_against_impl': 0, 'evaluations': 0,
                    'distinct_nontrivial': 0, 'samples': [], 'rule': '', 'tlc_runs': [], 'exhaustive': False}
        self.violations = []     # dicts: site, what, replay (dict -> written to file)
        self.assumptions = []
        self.notes = []

    def add_tlc(self, label, r):
        self.cov['states'] += r.distinct
        self.cov['transitions'] += r.generated
        self.cov['tlc_runs'].append({'label': label, 'distinct_states': r.distinct, 'states_generated': r.generated,
                                     'wall_s': round(r.wall, 1)})

    def sample(self, x, limit=6):
        if len(self.cov['samples']) < limit:
            self.cov['samples'].append(x)

    def violation(self, site, what, replay):
        self.violations.append({'site': site, 'what': what, 'replay': replay})

    def note(self, s):
        self.notes.append(s)
        print('note: ' + s)

    def finish(self):
        os.makedirs(EVID, exist_ok=True)
        rdir = os.path.join(REPLAY, self.prop)
        shutil.rmtree(rdir, ignore_errors=True)
        known = load_known()
        new = []
        kf_seen = {}
        for v in self.violations:
            flat = dict(v['replay']) if isinstance(v['replay'], dict) else {}
            flat['site'] = v['site']
            e = match_known(self.prop, flat, known)
            if e is not None:
                kf_seen.setdefault(e['id'], [e, 0])
                kf_seen[e['id']][1] += 1
            else:
                new.append(v)
        for e in known:
            if e.get('property') == self.prop and e.get('status') == 'open':
                n = kf_seen.get(e['id'], [e, 0])[1]
                print('KNOWN-FINDING: property=%s %s (%s; observed %d times in this run)' %
                      (self.prop, e['what'], e['id'], n))
        if new:
            os.makedirs(rdir, exist_ok=True)
        for i, v in enumerate(new[:50]):
            rp = os.path.join(rdir, 'violation-%03d.json' % i)
            with open(rp, 'w') as f:
                json.dump({'property': self.prop, 'site': v['site'], 'what': v['what'], 'replay': v['replay']}, f,
                          indent=1, default=str)
            print('VIOLATION property=%s replay=%s' % (self.prop, rp))
            print('  site=%s: %s' % (v['site'], v['what']))
        cov = dict(self.cov)
        if not cov['samples']:
            cov['samples'] = ['(no sample recorded)']
        cov['known_findings_observed'] = {k: n for k, (e, n) in kf_seen.items()}
        if self.notes:
            cov['notes'] = self.notes
        ev = {'property_id': self.prop, 'tier': self.tier, 'seed': seed(), 'level': self.level, 'coverage': cov,
              'assumptions': self.assumptions, 'wall_s': round(time.time() - self.t0, 1),
              'violations': len(new)}
        with open(os.path.join(EVID, self.prop + '.json'), 'w') as f:
            json.dump(ev, f, indent=1, default=str)
        print('%s %s: %d violation(s), %d known; states=%d transitions=%d evaluations=%d traces=%d wall=%.1fs' % (
            self.prop, self.tier, len(new), sum(n for _, n in kf_seen.values()), cov['states'], cov['transitions'],
            cov['evaluations'], cov['traces_validated_against_impl'], ev['wall_s']))
        return 1 if new else 0


def read_dump_json(path, var='tc'):
    """States of a TLC dump whose variable `var` holds a JSON text (built with ToJson in the spec)."""
    out = []
    pre = '/\\ %s = "' % var
    pre2 = '%s = "' % var
    with open(path, encoding='utf-8') as f:
        for line in f:
            if line.startswith(pre):
                out.append(json.loads(json.loads(line[len(pre) - 1:])))
            elif line.startswith(pre2):
                out.append(json.loads(json.loads(line[len(pre2) - 1:])))
    return out
