"""Reader for TLA+ values as printed by TLC (state dumps, error traces, -simulate files).

parse(text)        -> python value (records -> dict, sequences -> list, sets -> list,
                      functions -> dict (string keys) or list of [k, v] pairs, model values -> str)
read_dump(path)    -> iterator over states, each a dict var -> python value
"""
import re

_tok = re.compile(r'''
    (?P<ws>\s+)
  | (?P<str>"(?:[^"\\]|\\.)*")
  | (?P<num>-?\d+)
  | (?P<sym><<|>>|\|->|:>|@@|\.\.|[\[\]{}(),])
  | (?P<id>[A-Za-z_][A-Za-z0-9_!$]*)
''', re.X)


def _tokens(s):
    pos = 0
    out = []
    n = len(s)
    while pos < n:
        m = _tok.match(s, pos)
        if not m:
            raise ValueError("tlaval: bad input at %d: %r" % (pos, s[pos:pos + 40]))
        pos = m.end()
        k = m.lastgroup
        if k == 'ws':
            continue
        out.append((k, m.group(k)))
    return out


def _unescape(s):
    body = s[1:-1]
    if '\\' not in body:
        return body
    out = []
    i = 0
    while i < len(body):
        c = body[i]
        if c == '\\' and i + 1 < len(body):
            d = body[i + 1]
            out.append({'n': '\n', 't': '\t', 'r': '\r', 'f': '\f', '"': '"', '\\': '\\'}.get(d, d))
            i += 2
        else:
            out.append(c)
            i += 1
    return ''.join(out)


class _P:
    def __init__(self, toks):
        self.t = toks
        self.i = 0

    def peek(self):
        return self.t[self.i] if self.i < len(self.t) else (None, None)

    def next(self):
        x = self.t[self.i]
        self.i += 1
        return x

    def expect(self, v):
        k, x = self.next()
        if x != v:
            raise ValueError("tlaval: expected %r got %r" % (v, x))

    def value(self):
        k, x = self.next()
        if k == 'str':
            return _unescape(x)
        if k == 'num':
            v = int(x)
            if self.peek()[1] == '..':
                self.next()
                hi = self.value()
                return list(range(v, hi + 1))
            return v
        if k == 'id':
            if x == 'TRUE':
                return True
            if x == 'FALSE':
                return False
            return x
        if x == '<<':
            out = []
            if self.peek()[1] == '>>':
                self.next()
                return out
            while True:
                out.append(self.value())
                k2, x2 = self.next()
                if x2 == '>>':
                    return out
                if x2 != ',':
                    raise ValueError("tlaval: bad sequence")
        if x == '{':
            out = []
            if self.peek()[1] == '}':
                self.next()
                return out
            while True:
                out.append(self.value())
                k2, x2 = self.next()
                if x2 == '}':
                    return out
                if x2 != ',':
                    raise ValueError("tlaval: bad set")
        if x == '[':
            out = {}
            if self.peek()[1] == ']':
                self.next()
                return out
            while True:
                k2, name = self.next()
                self.expect('|->')
                out[name] = self.value()
                k3, x3 = self.next()
                if x3 == ']':
                    return out
                if x3 != ',':
                    raise ValueError("tlaval: bad record")
        if x == '(':
            pairs = []
            while True:
                kk = self.value()
                self.expect(':>')
                vv = self.value()
                pairs.append((kk, vv))
                k3, x3 = self.next()
                if x3 == ')':
                    break
                if x3 != '@@':
                    raise ValueError("tlaval: bad function")
            if all(isinstance(p[0], str) for p in pairs):
                return {p[0]: p[1] for p in pairs}
            return [[p[0], p[1]] for p in pairs]
        raise ValueError("tlaval: unexpected token %r" % (x,))


def parse(text):
    p = _P(_tokens(text))
    v = p.value()
    if p.i != len(p.t):
        raise ValueError("tlaval: trailing tokens: %r" % (p.t[p.i:p.i + 5],))
    return v


def read_dump(path):
    """Iterate over the states of a `tlc -dump` file or a `-simulate file=` behaviour file."""
    cur = None
    name = None
    buf = []

    def flush():
        if name is not None:
            cur[name] = parse(''.join(buf))

    with open(path, encoding='utf-8', errors='surrogateescape') as f:
        for line in f:
            if line.startswith('State ') or line.startswith('STATE_'):
                if cur is not None:
                    flush()
                    yield cur
                cur, name, buf = {}, None, []
                continue
            if cur is None:
                continue
            m = re.match(r'^(?:/\\ )?([A-Za-z_][A-Za-z0-9_]*) = (.*)$', line, re.S)
            if m and (line.startswith('/\\ ') or name is None):
                flush()
                name = m.group(1)
                buf = [m.group(2)]
            elif line.strip() == '':
                continue
            else:
                buf.append(line)
    if cur is not None:
        flush()
        if cur:
            yield cur


def _parse_chunk(lines):
    out = []
    cur, name, buf = None, None, []
    for line in lines:
        if line.startswith('State ') or line.startswith('STATE_'):
            if cur is not None:
                if name is not None:
                    cur[name] = parse(''.join(buf))
                out.append(cur)
            cur, name, buf = {}, None, []
            continue
        if cur is None:
            continue
        if line.startswith('/\\ ') or name is None:
            m = re.match(r'^(?:/\\ )?([A-Za-z_][A-Za-z0-9_]*) = (.*)$', line, re.S)
            if m:
                if name is not None:
                    cur[name] = parse(''.join(buf))
                name = m.group(1)
                buf = [m.group(2)]
                continue
        if line.strip():
            buf.append(line)
    if cur is not None:
        if name is not None:
            cur[name] = parse(''.join(buf))
        if cur:
            out.append(cur)
    return out


def read_dump_parallel(path, procs=None):
    """All states of a dump file as a list, parsed on several processes."""
    import multiprocessing
    with open(path, encoding='utf-8', errors='surrogateescape') as f:
        lines = f.readlines()
    starts = [i for i, l in enumerate(lines) if l.startswith('State ')]
    if not starts:
        return []
    procs = procs or min(16, multiprocessing.cpu_count())
    per = max(1, (len(starts) + procs * 4 - 1) // (procs * 4))
    chunks = []
    for k in range(0, len(starts), per):
        a = starts[k]
        b = starts[k + per] if k + per < len(starts) else len(lines)
        chunks.append(lines[a:b])
    if len(chunks) == 1:
        return _parse_chunk(chunks[0])
    with multiprocessing.Pool(procs) as pool:
        parts = pool.map(_parse_chunk, chunks)
    return [st for part in parts for st in part]
