"""C13 - unknown, duplicate and missing keys are reported in every section.

E: TLC checks Schema.tla: mandatory keys are members of their key set, fixed keys are distinct, every base workflow
   is typed by the schema, every mapping / key of the schema occurs in a base.
G: TLC enumerates DocMutation (Props = {"C13"}): every mapping node of every base x
     InsertKey (foreign key - an ordinary word or the unquoted YAML merge key `<<` - first / middle / last; closed
                key sets only),
     InsertKey/casevariant (every known but absent key of a case-sensitive closed mapping in another letter case),
     RenameKey (the key of every entry in another letter case: a foreign key where keys are case-sensitive; the same
                key - drift-only - where they are case-insensitive),
     KindKey (keys not available in a node of this kind - call-only keys in a steps job, steps-only keys in a call job,
              run-only keys in an action step and vice versa - in every value form incl. no value, first / middle / last),
     EventKey (a webhook key not available for the event + another absent webhook key; the reference has the latter
               only: a new `events` diagnostic must appear and every reference diagnostic must stay),
     DupKey (every entry, key in the same / UPPER / Mixed case, value copied, directly behind the entry or last),
     DropKey (every key whose removal leaves no mandatory alternative satisfied; also combined with a foreign key,
              and every pair of mandatory keys dropped at once - each of the two must be reported),
   each once on the clean base and once with *sensors* (a malformed placeholder in the first template scalar of
   every entry of that mapping, so that the sibling keys have diagnostics of their own).  Prediction per vector:
   a syntax-check diagnostic at the new key (for `schedule` items at the item; for a missing key at the place the
   schema names) and - for InsertKey/DupKey - every diagnostic of the reference run (same document without the
   inserted entry) is still reported ("never suppresses siblings").  Both documents are rendered with known
   positions (validated against yaml.v3) and linted by the real Linter.Lint; diagnostics are compared by node
   identity, so inserted lines do not matter.
   Converse that keeps the schema honest: the unmodified bases must not get a key diagnostic for a key the schema
   lists (an accepted key dropped from a parser switch is a violation "accept:<key path>").
Verdict: VIOLATION only if no syntax-check diagnostic is at the predicted node / a reference diagnostic vanished / a
   missing mandatory key produces no "missing" diagnostic at all.  Class or place differences while the key is still
   reported are model drift (notes).
"""
import json
import os
from collections import Counter

import vplib
from vplib import Inconclusive
from checks import doclib

LEVEL = 'model_checking'

MISSING_CLASSES = ('missing-key', 'schedule-item')


def target(v):
    at = v['exp']['at']
    p = doclib.pid(v['h']['path'])
    if at in ('conflict', 'event'):
        return ('new', 'key')
    if at == 'entrykey':
        return (doclib.pid(v['entry']), 'key')
    return {'key': ('new', 'key'), 'item': (p, 'node'), 'doc': ('doc', 'node'), 'parentkey': (p, 'key'), 'node': (p, 'node')}[at]


def judge(v, mo, ro):
    """-> (problems, drift): problems = list of (aspect, text) that break the property"""
    problems, drift = [], []
    ident, role = target(v)
    syn = [d for d in mo['diags'] if d['kind'] == 'syntax-check']
    mut = v['h']['mut']
    if mut == 'DropKey':
        miss = [d for d in syn if d['cls'] in MISSING_CLASSES]
        if not miss:
            problems.append(('report', 'the missing mandatory key %r is not reported (syntax-check diagnostics: %s)'
                             % (v['key'], [doclib.show(d) for d in syn] or 'none')))
        elif v['exp'].get('named') and len(miss) < len(v['exp']['named']) and \
                [k for k in v['exp']['named'] if not any('"%s"' % k in d['msg'] for d in miss)]:
            # several mandatory keys dropped at once: each must be reported (one diagnostic naming both is fine)
            unnamed = [k for k in v['exp']['named'] if not any('"%s"' % k in d['msg'] for d in miss)]
            problems.append(('report', 'mandatory keys %s dropped together: %s not reported (only: %s)'
                             % (v['exp']['named'], unnamed, [doclib.show(d) for d in miss])))
        elif not any(doclib.at_node(d, ident, role) for d in miss):
            drift.append('missing key %r of %s reported, but not at the %s' % (v['key'], doclib.site_str(v['h']['site']), v['exp']['at']))
        return problems, drift
    if mut == 'KindKey':
        # a key that is not available in a node of this kind: key-conflict at the key, its value or a sibling key
        sibs = {doclib.pid(v['h']['path'] + [i]) for i in range(1, v['n'] + 1)}
        hit = [d for d in syn if d['cls'] == 'key-conflict' and
               (doclib.inside(d, 'new') or any(a['id'] in sibs and a['role'] == 'key' for a in d['at']))]
        if not hit:
            text = ('key %r (%s form, inserted %s) is not available in a %s %s but no key conflict is reported (syntax-check: %s)'
                    % (v['key'], v['form'], v['where'], v['kind'], v['h']['sec'], [doclib.show(d) for d in syn] or 'none'))
            if v['exp']['soft']:
                drift.append('key %r in a %s %s is not reported (documentation reading uncertain)' % (v['key'], v['kind'], v['h']['sec']))
            else:
                problems.append(('report', text))
        return problems, drift
    if mut == 'EventKey':
        have = Counter(doclib.dkey(d) for d in mo['diags'])
        want = Counter(doclib.dkey(d) for d in ro['diags'])
        hook = doclib.pid(v['h']['path'])
        fresh = [d for d in mo['diags'] if d['kind'] == 'events' and (have - want)[doclib.dkey(d)] > 0 and
                 (doclib.at_node(d, hook, 'key') or doclib.at_node(d, 'new', 'key'))]
        if not fresh:
            problems.append(('report', 'key %r is not available for the %r event but no events diagnostic at the event or the key '
                             'is added (diagnostics: %s)' % (v['key'], v['hook'], [doclib.show(d) for d in mo['diags']][:4])))
        lost = want - have
        if lost:
            problems.append(('siblings', 'key %r hides the diagnostics of its sibling %r in the %r event: %s'
                             % (v['key'], v['key2'], v['hook'], '; '.join('[%s] %s' % (k[0], k[1][:140]) for k in list(lost)[:3]))))
        return problems, drift
    gone = doclib.pid(v['entry']) if mut == 'RenameKey' else None      # the renamed entry is no longer what it was
    if mut == 'RenameKey' and v['exp']['same']:
        # case-insensitive mapping: the same key in another letter case - nothing should change (drift only)
        if Counter(doclib.dkey(d) for d in mo['diags']) != Counter(doclib.dkey(d) for d in ro['diags']):
            drift.append('key %r of the case-insensitive mapping %s spelled %s changes the diagnostics'
                         % (v['key'], doclib.site_str(v['h']['site']), v['case']))
        return problems, drift
    at = [d for d in syn if doclib.at_node(d, ident, role)]
    if not at:
        problems.append(('report', 'no syntax-check diagnostic at the %s key %r (%s)'
                         % ('duplicated' if mut == 'DupKey' else 'foreign', v['key'] if v['case'] in ('same', '') else v['key'] + '/' + v['case'],
                            'expected at the schedule item' if v['exp']['at'] == 'item' else 'expected at the key')))
    elif not any(d['cls'] == v['exp']['cls'] for d in at):
        drift.append('%s in %s reported as %s, model says %s' % (mut, doclib.site_str(v['h']['site']),
                                                                 sorted({d['cls'] for d in at}), v['exp']['cls']))
    if v['exp']['siblings']:
        # everything located inside the inserted entry, and the predicted diagnostic itself, is not a sibling diagnostic
        others = [d for d in mo['diags'] if not doclib.inside(d, 'new') and not (d['kind'] == 'syntax-check' and doclib.at_node(d, ident, role))]
        have = Counter(doclib.dkey(d) for d in others if not (gone and doclib.inside(d, gone)))
        want = Counter(doclib.dkey(d) for d in ro['diags'] if not (gone and doclib.inside(d, gone)))
        lost = want - have
        extra = have - want
        if lost:
            problems.append(('siblings', 'diagnostics of sibling keys are suppressed: %s'
                             % '; '.join('[%s] %s' % (k[0], k[1][:120]) for k in list(lost)[:3])))
        if extra and mut != 'RenameKey':
            drift.append('%s in %s adds diagnostics elsewhere: %s' % (mut, doclib.site_str(v['h']['site']),
                                                                      '; '.join('[%s] %s' % (k[0], k[1][:100]) for k in list(extra)[:2])))
    return problems, drift


def run(ck, tier):
    sd = vplib.subdir('c13')
    schema_path, exp, selftest = doclib.prepare(ck, sd)
    # converse: keys the schema lists are accepted
    names = exp['names']
    seen_accept = set()
    unclean = []
    for x in selftest:
        bi = int(x['base'].split()[0][1:]) - 1
        for d in x['diags']:
            keys = [a for a in d['at'] if a['role'] == 'key']
            if d['kind'] == 'syntax-check' and d['cls'] in ('unknown-key', 'dup-key') and keys:
                kp = doclib.doc_key_path(exp['bases'][bi], keys[0]['id'])
                if kp not in seen_accept:
                    seen_accept.add(kp)
                    ck.violation('accept:' + kp, 'key %s of base workflow %s is listed by the workflow syntax (Schema.tla) but the '
                                 'parser rejects it: %s' % (kp, names[bi], doclib.show(d)),
                                 {'kind': 'accept', 'b': bi + 1, 'ops': [], 'refops': [], 'opts': x['layout'], 'key_path': kp,
                                  'msg': d['msg']})
            else:
                unclean.append('%s (layout %s): %s' % (x['base'], x['layout'], doclib.show(d)))
    if seen_accept:
        # the bases are the references of every other vector: nothing more can be judged until the keys are accepted again
        ck.note('mutation vectors not evaluated because %d listed keys are rejected by the parser' % len(seen_accept))
        ck.cov['rule'] = 'converse check only: every key the schema lists must be accepted in the base workflows'
        ck.cov['evaluations'] += len(selftest)
        ck.cov['distinct_nontrivial'] += len(selftest)
        return
    if unclean:
        raise Inconclusive('base workflow does not lint clean: ' + unclean[0])
    vecs = doclib.generate(ck, 'DocMutation_c13.cfg', 'DocMutation C13: every mapping of every base x InsertKey/DupKey/DropKey x sensors')
    vecs.sort(key=lambda v: json.dumps([v['h']['b'], v['h']['path'], v['h']['mut'], v['where'], v['key'], v.get('key2', ''), v['case'], v['h']['sensors']]))
    nl = len(doclib.LAYOUTS)
    runs = doclib.Runs()
    plan = []
    for n, v in enumerate(vecs):
        lays = range(nl) if tier == 'thorough' else [(n + vplib.seed()) % nl]
        for li in lays:
            opts = doclib.LAYOUTS[li]
            ident = target(v)[0]
            plan.append((v, li, runs.add(v['h']['b'], v['ops'], opts, [ident]), runs.add(v['h']['b'], v['refops'], opts)))
    runs.execute(sd, schema_path)
    fails = {}
    drifts = {}
    sites = set()
    nvec = 0
    for v, li, mi, ri in plan:
        mo, ro = runs[mi], runs[ri]
        site = doclib.site_str(v['h']['site'])
        if ro['err'] or mo['err']:
            raise Inconclusive('vector could not be materialised (%s %s): %s\n%s' % (site, v['h']['mut'], ro['err'] or mo['err'], mo['src'] or ro['src']))
        if any(d['cls'] == 'yaml-error' for d in mo['diags'] + ro['diags']):
            raise Inconclusive('generated document is not YAML (%s):\n%s' % (site, mo['src']))
        if any(d['kind'] == 'syntax-check' for d in ro['diags']):
            raise Inconclusive('reference document of %s has syntax-check diagnostics: %s' % (site, doclib.show(ro['diags'][0])))
        other = [d for d in mo['diags'] if d['kind'] == 'syntax-check' and d['cls'] == 'syntax-other']
        if other:
            raise Inconclusive('observable not understood (syntax-check message without class): %s' % doclib.show(other[0]))
        nvec += 1
        sites.add(site)
        problems, drift = judge(v, mo, ro)
        for aspect, text in problems:
            fails.setdefault((site, v['h']['mut'], aspect), []).append((v, li, text, mo, ro))
        for d in drift:
            drifts[d] = drifts.get(d, 0) + 1
    map_sites = {doclib.site_str(p['p']) for p in exp['positions'] if p['k'] == 'map'}
    missing = sorted(map_sites - sites)
    if missing:
        raise Inconclusive('mappings of the schema without any evaluated vector: %s' % ', '.join(missing))
    for (site, mut, aspect), lst in sorted(fails.items()):
        v, li, text, mo, ro = lst[0]
        ck.violation('%s:%s:%s' % (site, mut, aspect),
                     'mapping %s (section %r, %s keys), %s: %s - %d vectors, e.g.\n%s'
                     % (site, v['h']['sec'], 'case-sensitive' if v['h']['cs'] else 'case-insensitive', mut, text, len(lst), mo['src']),
                     {'kind': 'c13', 'position': site, 'mut': mut, 'aspect': aspect, 'section': v['h']['sec'], 'vector': v,
                      'opts': doclib.LAYOUTS[li], 'why': text, 'src': mo['src'], 'observed': mo['diags'], 'reference': ro['diags'],
                      'failing': sorted({'%s/%s/%s/%s' % (x[0]['key'], x[0]['case'], x[0]['where'], 'sensors' if x[0]['h']['sensors'] else 'clean')
                                         for x in lst})[:40]})
    for d, n in sorted(drifts.items())[:12]:
        ck.note('model drift (%d vectors): %s' % (n, d))
    if tier == 'thorough':
        # binding self-test: the reference document judged as if it were the mutated one must be rejected
        v0 = next(v for v in vecs if v['h']['mut'] == 'InsertKey' and v['h']['sensors'])
        o = doclib.run(sd, schema_path, [{'b': v0['h']['b'], 'ops': v0['refops'], 'opts': {}, 'want': []}], 'selftest')[0]
        problems, _ = judge(v0, o, o)
        lost = judge(v0, dict(o, diags=[]), o)[0]
        good = any(a == 'report' for a, _ in problems) and any(a == 'siblings' for a, _ in lost)
        ck.cov['binding_selftest'] = 'rejected' if good else 'NOT rejected'
        if not good:
            raise Inconclusive('binding self-test failed: an unreported key / vanished sibling diagnostics were not noticed')
    ck.cov['evaluations'] += len(runs.items)
    ck.cov['traces_validated_against_impl'] += nvec
    ck.cov['distinct_nontrivial'] += nvec
    ck.cov['vectors'] = len(vecs)
    ck.cov['mappings_evaluated'] = len(sites)
    ck.cov['by_mutation'] = dict(Counter(v['h']['mut'] for v in vecs))
    ck.cov['rule'] = ('every mapping node of the 7 base workflows (all %d mapping positions of the schema + raw matrix mappings) x '
                      'InsertKey(first/middle/last) / DupKey(every entry x 3 letter cases x 2 places) / DropKey(every mandatory key) '
                      'x {clean, sensors}, enumerated by TLC with the predicted observable; mutated and reference document '
                      'linted by the real Linter.Lint (%s); non-trivial = all (every vector expects a diagnostic)'
                      % (len(map_sites), 'all 6 layouts' if tier == 'thorough' else 'one layout per vector'))
    ck.cov['exhaustive'] = True
    for p in plan[:1]:
        ck.sample({'site': doclib.site_str(p[0]['h']['site']), 'mutation': p[0]['h']['mut'], 'key': p[0]['key'],
                   'observed': [doclib.show(d) for d in runs[p[2]]['diags'][:3]]})
    ck.assumptions += ['which keys are unavailable in a call job / steps job / action step / run step and for which events is taken '
                       'from the GitHub documentation as written down in Schema.tla (kinds, EventDeny); `services` in a call job is '
                       'drift-only; only the events occurring in the base workflows are classified','which mappings compare keys case-sensitively is taken from the schema table of DESIGN.md A.1 (Schema.tla), not '
                       'from the code: in a case-sensitive closed mapping a known key in another letter case is a foreign key and '
                       'must be reported; that a case-insensitive mapping accepts it unchanged is drift-only','the fixed key sets, case rules and mandatory keys are those written down in spec/Schema.tla (A.1 of DESIGN.md, '
                       'cross-checked against parse.go and by the bases linting clean)',
                       'the `on` mapping and the open mappings (env, with, inputs, matrix rows, ...) have no foreign key; a key of '
                       '`on` in another letter case is another event name, not a key error',
                       'a duplicated key carries a copy of the original value; diagnostics inside the inserted entry are not '
                       'sibling diagnostics']


def replay(path):
    rp = json.load(open(path))['replay']
    sd = vplib.subdir('c13r')
    ck = vplib.Check('C13', LEVEL, 'replay')
    schema_path, _, _ = doclib.prepare(ck, sd)
    if rp['kind'] == 'accept':
        outs = doclib.run(sd, schema_path, [{'b': rp['b'], 'ops': [], 'opts': rp['opts'], 'want': []}])
        bad = [d for d in outs[0]['diags'] if d['kind'] == 'syntax-check' and d['cls'] in ('unknown-key', 'dup-key')]
        for d in bad:
            print('  ' + doclib.show(d))
        return 1 if bad else 0
    v = rp['vector']
    outs = doclib.run(sd, schema_path, [{'b': v['h']['b'], 'ops': v['ops'], 'opts': rp['opts'], 'want': [target(v)[0]]},
                                        {'b': v['h']['b'], 'ops': v['refops'], 'opts': rp['opts'], 'want': []}])
    print(outs[0]['src'])
    for d in outs[0]['diags']:
        print('  ' + doclib.show(d), d['at'])
    if outs[0]['err'] or outs[1]['err']:
        print('replay not applicable:', outs[0]['err'] or outs[1]['err'])
        return 2
    problems, _ = judge(v, outs[0], outs[1])
    bad = [p for p in problems if p[0] == rp['aspect']]
    print(rp['position'], rp['mut'], '->', 'property holds' if not bad else 'VIOLATED: ' + bad[0][1])
    return 1 if bad else 0
