"""EXT04 - the type algebra of the expression types and the typing of built-in function calls and operators
(extension; not one of the 20 listed properties).

Part 1, TypeAlgebra (expr_type.go: String, Assignable, EqualTypes, Merge, DeepCopy)
 E: TLC checks TypeAlgebra.tla on the complete universe of type terms (scalars, strict / loose / map objects with up to two
    properties from a pool of three names of which two differ in case only, arrays with and without Deref, hand-picked terms of
    depth 2): the DESIGN (operational layer with no deviation enabled) satisfies every law and documented fact (Agree), every
    law the code as read breaks is explained by named deviations (Confined), the preorder used for "upper bound" contains the
    loosening preorder of DESIGN A.6 and is a preorder (LoosensInSub, SubRefl, SubTrans).
 G: every state is a vector (one term, an unordered pair, an ordered triple).  The harness builds the REAL ExprType values and
    evaluates the real methods; Merge is repeated so that results depending on map iteration order show up.  The real outcome is
    compared with the outcome the operational layer predicts (`asread`): if equal, the laws it breaks are the ones TLC computed
    for `asread`; if not, the real outcome is handed back to TLC (TypeAlgebraTrace, binding T) which judges it with the same laws.
Part 2, FuncCalls (expr_sema.go: BuiltinFuncSignatures, checkFuncCall, format(), ! && ||, comparison operators)
 E: TLC checks FuncCalls.tla: transcriptions of checkFuncSignature / checkFuncCall / parseFormatFuncSpecifiers /
    validateCompareOpOperands / checkWithNarrowing without deviation = documentation (Agree), with deviations Confined.
 G: the real BuiltinFuncSignatures table is compared as a whole with the documented table of the specification; every vector
    (function x argument types of length 0..4 over a pool of eight types, other spellings, undefined names, format literals,
    operators) is written as an expression and checked twice on the real code: with the exported ExprSemanticsChecker and with
    Linter.Lint inside a workflow (type of the whole expression read from the diagnostics of `${{ E }}` and `${{ (E).x }}`).

A disagreement with the declarative layer is a VIOLATION whose site names the deviation(s) of the code that explain it
(`TA:Dev_...`, `FC:<kind>:Dev_...`); a real outcome the operational layer does not predict gives `...:drift` / `...:unexplained`.
Entries of OBSERVATIONS turn a site into a note; the table is EMPTY unless the project owner decides otherwise.
"""
import collections
import json
import os

import vplib
from vplib import Inconclusive

LEVEL = 'model_checking'

# site -> free text.  A disagreement whose site is listed here is printed as a note instead of a violation.
OBSERVATIONS = {
    'TA:Dev_BoolMergesIntoString':
        'test-pinned by TestExprTypeMergeComplicated ("bool merges with string" / "string is merged by bool" want string); lawful: bool '
        'merged with string is any, because string does not accept bool (string.Assignable(bool) is false) - as it is, Merge is not an '
        'upper bound and not associative: (number|bool)|string = any, number|(bool|string) = string',
    'TA:Dev_EqualTypesIsCompatibility':
        'test-pinned by TestExprEqualTypes (every type "should equal to" any; map object equals loose / fitting strict object); lawful: '
        '"returns if the two types are equal" is an equivalence - EqualTypes is mutual assignability and not transitive '
        '(bool = any, any = null, bool # null)',
    'FC:log:Dev_NotNarrowsToOperand':
        'test-pinned by TestExprSemanticsCheckOK ("not operator negates && / || operator type narrowing", "double not operators does '
        'nothing on type narrowing" want number); documented: !x is a bool whatever x is, so `!1 && 1` is bool|number = any, not number '
        '(2-line repair in checkWithNarrowing, needs the three expectations changed)',
}

TA_CFG = {'quick': 'TypeAlgebra_quick.cfg', 'thorough': 'TypeAlgebra_thorough.cfg'}
FC_CFG = {'quick': 'FuncCalls_quick.cfg', 'thorough': 'FuncCalls_thorough.cfg'}
SET_FIELDS = {'mm', 'mTU', 'mUT', 'l', 'r'}

RULE_TEXT = {
    'U_Str': 'String() follows the notation table of docs/checks.md',
    'U_Refl': 'Assignable is reflexive',
    'U_EqRefl': 'EqualTypes is reflexive',
    'U_Idem': 'Merge(t, t) equals t (EqualTypes)',
    'U_IdemStr': 'Merge(t, t) prints like t',
    'U_Det': 'Merge is a function (same operands, same result)',
    'U_MergeWF': 'Merge keeps the struct invariant of ObjectType ("All types in Props field must be assignable to Mapped")',
    'U_Copy': 'DeepCopy returns an equal value',
    'U_CopyShared': 'DeepCopy shares no mutable part with the original',
    'B_AsgFact': 'Assignable follows the documented conversions (docs/checks.md, field comments of ObjectType)',
    'B_EqSym': 'EqualTypes is symmetric',
    'B_EqIsEquality': 'EqualTypes "returns if the two types are equal"',
    'B_StrInj': 'String() is injective up to EqualTypes',
    'B_MergeFact': 'Merge follows its doc comment (same type -> itself, number into string, conflict -> any, arrays element-wise with Deref false)',
    'B_ObjShape': 'Merge of objects: union of the properties, strict iff both are strict',
    'B_ObjProps': 'Merge of objects: a property of one side is kept, a common property is merged',
    'B_MergeWF': 'Merge keeps the struct invariant of ObjectType ("All types in Props field must be assignable to Mapped")',
    'B_Det': 'Merge is a function (same operands, same result)',
    'B_Comm': 'Merge is commutative up to EqualTypes',
    'B_CommStr': 'Merge(t, u) and Merge(u, t) print alike',
    'B_Upper': 'Merge(t, u) is an upper bound of t and u in the loosening preorder (types listing the same keys)',
    'B_Accepts': 'Merge(t, u) accepts t and u (Assignable)',
    'B_Pure': 'Merge does not modify its operands',
    'T_EqTrans': 'EqualTypes is transitive',
    'T_Assoc': 'Merge is associative up to EqualTypes',
    'T_AssocStr': 'Merge(Merge(t, u), v) and Merge(t, Merge(u, v)) print alike',
}
DEV_TEXT = {
    'Dev_MergeMapOrder': 'ObjectType.Merge folds the new properties of `other` into Mapped in map iteration order',
    'Dev_StrictReceiverNotFolded': 'a strict receiver merged with a non-strict object takes over the other\'s Mapped without folding its '
                                   'own properties into it (the other way round they are folded)',
    'Dev_CommonPropNotFolded': 'the merged type of a property listed by both objects is not folded into Mapped',
    'Dev_BoolMergesIntoString': 'bool merged with string gives string although string does not accept bool',
    'Dev_ArrayAnyShortcutKeepsDeref': 'array<any> merged with an array returns the array<any> operand itself, Deref flag included',
    'Dev_EqualTypesIsCompatibility': 'EqualTypes is mutual assignability: any equals every type, a map object equals every fitting strict object',
    'Dev_NotNarrowsToOperand': 'checkWithNarrowing types `!x` on the left of && / || as the (narrowed) type of x instead of bool',
}


def henv():
    return {'GOMAXPROCS': str(vplib.NCPU)}


def show(t):
    """display only: a readable text of a type term"""
    if t is None:
        return '-'
    k = t['k']
    if k == 'arr':
        return 'array<%s>%s' % (show(t['elem']), '[deref]' if t['deref'] else '')
    if k == 'obj':
        ps = '; '.join('%s: %s' % (p['n'], show(p['t'])) for p in t['props'])
        mk = t['m']['k']
        if mk == 'strict':
            return '{%s}' % ps
        head = 'object' if mk == 'any' else '{string => %s}' % show(t['m'])
        return head + ('{%s}' % ps if ps else '')
    return k


def cj(x):
    return json.dumps(x, sort_keys=True)


def norm(out):
    """outcome record with set-valued fields as sorted lists of canonical texts"""
    return {k: (sorted(cj(y) for y in v) if k in SET_FIELDS else cj(v)) for k, v in out.items()}


def within(real, asread):
    """every set-valued observable is a subset of the prediction, everything else is equal"""
    if set(real) != set(asread):
        return False
    for k in real:
        if k in SET_FIELDS:
            if not set(real[k]) <= set(asread[k]):
                return False
        elif real[k] != asread[k]:
            return False
    return True


def returned(real, back):
    """names of the repaired deviations whose predicted outcome (alone, else the smallest sets together) is the real one"""
    hits = [b['dev'].split('+') for b in back if b['dev'] != 'all' and within(real, norm(b['out']))]
    if hits:
        n = min(len(h) for h in hits)
        return sorted({d for h in hits if len(h) == n for d in h})
    if any(b['dev'] == 'all' and within(real, norm(b['out'])) for b in back):
        return sorted({d for b in back if b['dev'] != 'all' for d in b['dev'].split('+')}) or ['Dev_repaired(all)']
    return []


def ops_of(t):
    return [t[x] for x in ('t', 'u', 'v') if t.get(x) is not None]


def vec_in(i, t):
    return {'id': i, 'kind': t['kind'], 't': t['t'], 'u': t.get('u'), 'v': t.get('v')}


# ------------------------------------------------------------------------------------------------ type algebra

def ta_generate(ck, tier):
    r = vplib.run_tlc('TypeAlgebra', TA_CFG[tier], dump='vectors', timeout=2400)
    ck.add_tlc('TypeAlgebra %s: Agree / Confined / LoosensInSub / SubRefl / SubTrans / UniverseWF on the complete universe of type terms'
               % tier, r)
    if r.violated:
        raise Inconclusive('specification TypeAlgebra.tla violates its invariant %s (model level)' % r.violated)
    ts = vplib.read_dump_json(os.path.join(r.dir, 'vectors.dump'))
    if len(ts) != r.distinct:
        raise Inconclusive('dump has %d states, TLC reported %d' % (len(ts), r.distinct))
    header = [t for t in ts if t.get('kind') == 'header']
    if len(header) != 1:
        raise Inconclusive('no header state in the dump')
    vecs = [t for t in ts if t.get('kind') in ('un', 'bin', 'tri')]
    vecs.sort(key=lambda t: cj([t['kind'], t['t'], t.get('u'), t.get('v')]))
    return header[0], vecs


def ta_exec(sd, items, tag):
    fin, fout = os.path.join(sd, tag + '-in.jsonl'), os.path.join(sd, tag + '-out.jsonl')
    vplib.write_jsonl(fin, items)
    vplib.run_harness(['ta-run', fin, fout], timeout=1800, env=henv())
    outs = vplib.read_jsonl(fout)
    if len(outs) != len(items) or any(o['id'] != it['id'] for o, it in zip(outs, items)):
        raise Inconclusive('harness returned %d results for %d vectors' % (len(outs), len(items)))
    for o, it in zip(outs, items):
        if o['other']:
            raise Inconclusive('type-algebra vector %s: the observable cannot be read: %s' % (cj(it), o['other'][:3]))
    return outs


def ta_judge(ck, records, label):
    """binding T: TLC evaluates the laws on recorded real outcomes; returns {id: [rules]}"""
    if not records:
        return {}
    text = '\n'.join(json.dumps({k: v for k, v in r.items() if v is not None}, separators=(',', ':')) for r in records) + '\n'
    r = vplib.run_tlc('TypeAlgebraTrace', 'TypeAlgebraTrace.cfg', workers=1, dump='verdicts', files={'trace.ndjson': text},
                      timeout=1800, name='TypeAlgebraTrace-' + label)
    if ck is not None:
        ck.add_tlc('TypeAlgebraTrace (%s): %d recorded real outcomes judged by the laws' % (label, len(records)), r)
    if r.violated:
        raise Inconclusive('TypeAlgebraTrace failed: %s' % r.violated)
    vs = [t for t in vplib.read_dump_json(os.path.join(r.dir, 'verdicts.dump')) if 'id' in t]
    if len(vs) != len(records):
        raise Inconclusive('TypeAlgebraTrace judged %d of %d records' % (len(vs), len(records)))
    return {v['id']: sorted(v['broken']) for v in vs}


def ta_outcome_text(t, out):
    k = t['kind']
    if k == 'un':
        return ('String()=%r Assignable(t,t)=%s EqualTypes(t,t)=%s Merge(t,t)=%s DeepCopy=%s shared=%s'
                % (out['str'], out['self'], out['eqself'], [show(x) for x in out['mm']], show(out['copy']), out['shared']))
    if k == 'bin':
        return ('Merge(t,u)=%s Merge(u,t)=%s; t.Assignable(u)=%s u.Assignable(t)=%s EqualTypes(t,u)=%s; EqualTypes of the two merges=%s; '
                'the merges accept t and u: %s / %s'
                % ([show(x) for x in out['mTU']], [show(x) for x in out['mUT']], out['asgTU'], out['asgUT'], out['eqTU'],
                   out['commEq'], out['accTU'], out['accUT']))
    return ('Merge(Merge(t,u),v)=%s Merge(t,Merge(u,v))=%s EqualTypes of the two=%s; EqualTypes(t,u)=%s (u,v)=%s (t,v)=%s'
            % ([show(x) for x in out['l']], [show(x) for x in out['r']], out['assocEq'], out['eTU'], out['eUV'], out['eTV']))


def ta_operands_text(t):
    return ', '.join('%s = %s' % (n, show(t[n])) for n in ('t', 'u', 'v') if t.get(n) is not None)


def run_ta(ck, tier, sd):
    header, vecs = ta_generate(ck, tier)
    outs = ta_exec(sd, [vec_in(i, t) for i, t in enumerate(vecs)], 'ta')
    findings = []          # (index, rule, devs or None)
    drifted = []
    tojudge = []
    for i, (t, o) in enumerate(zip(vecs, outs)):
        if norm(o['out']) == norm(t['asread']):
            for b in t['broken']:
                findings.append((i, b['rule'], sorted(b['devs'])))
        else:
            tojudge.append(i)
    if tojudge:
        verdicts = ta_judge(ck, [dict(vec_in(i, vecs[i]), out=outs[i]['out']) for i in tojudge], 'drift')
        for i in tojudge:
            t, o = vecs[i], outs[i]
            inside = within(norm(o['out']), norm(t['asread']))
            if not inside:
                drifted.append(i)
            predicted = {b['rule']: sorted(b['devs']) for b in t['broken']}
            back = returned(norm(o['out']), t.get('back', []))
            for rule in verdicts[i]:
                if rule in predicted and (inside or back):
                    findings.append((i, rule, predicted[rule]))      # broken by the enabled deviations already
                elif back:
                    findings.append((i, rule, back))                 # broken because a repaired deviation is back
                else:
                    findings.append((i, rule, None))
    for i in drifted[:3]:
        ck.note('model drift: the real outcome of %s is not the one TypeAlgebra.tla predicts for the code as read: real %s, model %s'
                % (ta_operands_text(vecs[i]), ta_outcome_text(vecs[i], outs[i]['out']), ta_outcome_text(vecs[i], vecs[i]['asread'])))
    if len(drifted) > 3:
        ck.note('model drift: %d type-algebra vectors in total have an outcome the operational layer does not predict' % len(drifted))

    # re-execute the vectors with findings on the real code alone before they count
    idx = sorted({i for i, _, _ in findings})
    if idx:
        again = ta_exec(sd, [vec_in(i, vecs[i]) for i in idx], 'ta-again')
        bad = [i for i, a in zip(idx, again) if not within(norm(a['out']), norm(outs[i]['out']))
               and not within(norm(outs[i]['out']), norm(a['out']))]
        if bad:
            raise Inconclusive('%d type-algebra vectors did not reproduce their outcome on re-execution, e.g. %s'
                               % (len(bad), ta_operands_text(vecs[bad[0]])))

    groups = collections.OrderedDict()
    for i, rule, devs in findings:
        sites = ['TA:' + d for d in devs] if devs else ['TA:%s:%s' % (rule, 'drift' if devs is None else 'unexplained')]
        for s in sites:
            groups.setdefault(s, []).append((i, rule))
    for site in sorted(groups):
        items = groups[site]
        per_rule = collections.OrderedDict()
        for i, rule in sorted(items, key=lambda x: (x[1], len(cj(ops_of(vecs[x[0]]))), cj(ops_of(vecs[x[0]])))):
            per_rule.setdefault(rule, []).append(i)
        dev = site.split(':')[1]
        if dev in header.get('repaired', []):
            site_note = ' (REGRESSION of a repaired deviation)'
        else:
            site_note = ''
        lines = ['%d vector(s) break %d law(s)%s' % (len({i for i, _ in items}), len(per_rule),
                                                     ((': ' + DEV_TEXT[dev]) if dev in DEV_TEXT else '') + site_note)]
        for rule, ii in per_rule.items():
            i = ii[0]
            lines.append('  %s [%s] x%d, smallest: %s -> %s' % (rule, RULE_TEXT.get(rule, '?'), len(ii), ta_operands_text(vecs[i]),
                                                                ta_outcome_text(vecs[i], outs[i]['out'])))
        what = '\n'.join(lines)
        if site in OBSERVATIONS:
            ck.note('OBSERVATION %s: %s -- %s' % (site, OBSERVATIONS[site], what))
            continue
        keep = []
        for rule, ii in per_rule.items():
            for i in ii[:2]:
                keep.append({'kind': vecs[i]['kind'], 't': vecs[i]['t'], 'u': vecs[i].get('u'), 'v': vecs[i].get('v'), 'rules': [rule]})
        ck.violation(site, what, {'kind': 'ta', 'count': len(items), 'rules': list(per_rule), 'vectors': keep[:12]})

    # ---- vacuity guards
    if not drifted:
        seen_devs = {d for t in vecs for b in t['broken'] for d in b['devs']}
        missing = set(header['devs']) - seen_devs
        if missing:
            raise Inconclusive('the universe exercises no vector for the deviation(s) %s' % sorted(missing))
    kinds = collections.Counter(t['kind'] for t in vecs)
    if set(kinds) != {'un', 'bin', 'tri'}:
        raise Inconclusive('vector kinds generated: %s' % dict(kinds))
    # (Merge depending on map iteration order is repaired: no vector is expected to show two results of one call any more; if one does,
    #  its outcome is not the predicted one and TLC judges it - B_Det, named Dev_MergeMapOrder through `back`)

    if tier == 'thorough':
        # binding self-test: forged real outcomes must be judged broken by TLC
        i = next(k for k, t in enumerate(vecs) if t['kind'] == 'un' and t['t']['k'] == 'obj')
        forged = dict(outs[i]['out'], self=False, shared=True)
        v = ta_judge(ck, [dict(vec_in(0, vecs[i]), out=forged)], 'selftest')
        ok = {'U_Refl', 'U_CopyShared'} <= set(v[0])
        ck.cov['binding_selftest_type_algebra'] = 'rejected' if ok else 'NOT rejected'
        if not ok:
            raise Inconclusive('binding self-test failed: a forged outcome was not rejected (%s)' % v[0])

    ck.cov['evaluations'] += len(vecs)
    ck.cov['traces_validated_against_impl'] += len(vecs)
    ck.cov['distinct_nontrivial'] += len({i for i, _, _ in findings}) + sum(1 for o in outs if len(o['out'].get('mTU', [])) > 1)
    ck.cov['type_algebra'] = {'universe_terms': header['size'], 'ternary_universe': header['tri'], 'vectors': dict(kinds),
                              'vectors_with_unpredicted_outcome': len(tojudge), 'vectors_breaking_a_law': len({i for i, _, _ in findings}),
                              'laws_broken': dict(collections.Counter(r for _, r, _ in findings)),
                              'merges_with_two_results': sum(1 for o in outs if len(o['out'].get('mTU', [])) > 1
                                                             or len(o['out'].get('mUT', [])) > 1)}
    for t, o in zip(vecs, outs):
        if t['kind'] == 'bin' and t['t']['k'] == 'obj' and t['u']['k'] == 'obj' and len(t['broken']) >= 2:
            ck.sample({'vector': ta_operands_text(t), 'real': ta_outcome_text(t, o['out']), 'laws_broken': [b['rule'] for b in t['broken']]})
            break
    for t, o in zip(vecs, outs):
        if t['kind'] == 'tri' and t['broken']:
            ck.sample({'vector': ta_operands_text(t), 'real': ta_outcome_text(t, o['out']), 'laws_broken': [b['rule'] for b in t['broken']]})
            break


# ------------------------------------------------------------------------------------------------ function calls

def fc_generate(ck, tier):
    r = vplib.run_tlc('FuncCalls', FC_CFG[tier], dump='vectors', timeout=2400)
    ck.add_tlc('FuncCalls %s: Agree / Confined / TablesOK on all calls (argument types over the pool), format literals, operators' % tier, r)
    if r.violated:
        raise Inconclusive('specification FuncCalls.tla violates its invariant %s (model level)' % r.violated)
    ts = vplib.read_dump_json(os.path.join(r.dir, 'vectors.dump'))
    if len(ts) != r.distinct:
        raise Inconclusive('dump has %d states, TLC reported %d' % (len(ts), r.distinct))
    header = [t for t in ts if t.get('kind') == 'header']
    if len(header) != 1:
        raise Inconclusive('no header state in the dump')
    vecs = [t for t in ts if 'v' in t]
    vecs.sort(key=lambda t: cj(t['v']))
    return header[0], vecs


def fc_exec(sd, vecs, tag):
    fin, fout = os.path.join(sd, tag + '-in.jsonl'), os.path.join(sd, tag + '-out.jsonl')
    vplib.write_jsonl(fin, [{'id': i, 'v': t['v']} for i, t in enumerate(vecs)])
    vplib.run_harness(['fc-run', fin, fout], timeout=1800, env=henv())
    outs = vplib.read_jsonl(fout)
    if len(outs) != len(vecs) or any(o['id'] != i for i, o in enumerate(outs)):
        raise Inconclusive('harness returned %d results for %d vectors' % (len(outs), len(vecs)))
    for t, o in zip(vecs, outs):
        for side in ('api', 'lint'):
            if o[side]['other']:
                raise Inconclusive('vector %s (%s, %s): the observable cannot be read: %s\n%s'
                                   % (cj(t['v']), o['expr'], side, o[side]['other'][:3], o.get('src', '')))
    return outs


def fc_table(sd):
    f = os.path.join(sd, 'table.json')
    vplib.run_harness(['fc-table', f], timeout=600, env=henv())
    return vplib.read_jsonl(f)[0]


def fc_doc_table(header):
    doc = collections.OrderedDict()
    for s in header['sigs']:
        doc.setdefault(s['name'].lower(), []).append(s)
    return doc


def bag(diags):
    return collections.Counter(cj(d) for d in diags)


def same(pred, side):
    return pred['ty'] == side['ty'] and bag(pred['diags']) == bag(side['diags'])


def fc_show(r):
    ds = sorted('%s@%s%s' % (d['c'], d['w'], ''.join(' %s=%s' % (k, d[k]) for k in ('i', 'sig', 'got', 'want') if d[k] not in ('', '0')))
                for d in r['diags'])
    return 'type %s, diagnostics %s' % (r['ty'], ds or 'none')


def fc_mismatches(vecs, outs, key):
    return [(t, o) for t, o in zip(vecs, outs) if not (same(t[key], o['api']) and same(t[key], o['lint']))]


def fc_site(t, o):
    v = t['v']
    g = 'FC:' + v['kind'] + (':' + v['f'].lower() if v['kind'] == 'call' else '')
    if t['devs'] and same(t['asread'], o['api']) and same(t['asread'], o['lint']):
        return 'FC:%s:%s' % (v['kind'], '+'.join(sorted(t['devs'])))
    return g + ':unexplained'


def run_fc(ck, tier, sd):
    header, vecs = fc_generate(ck, tier)

    # ---- the table as a whole
    real = fc_table(sd)
    doc = fc_doc_table(header)
    if cj(real) != cj(doc):
        diff = []
        for k in sorted(set(real) | set(doc)):
            if cj(real.get(k)) != cj(doc.get(k)):
                diff.append('%s: documented %s, real %s' % (k, [s['str'] for s in doc.get(k, [])], [s['str'] for s in real.get(k, [])]))
        site = 'FC:table'
        what = 'actionlint.BuiltinFuncSignatures differs from the documented functions: ' + '; '.join(diff)
        if site in OBSERVATIONS:
            ck.note('OBSERVATION %s: %s -- %s' % (site, OBSERVATIONS[site], what))
        else:
            ck.violation(site, what, {'kind': 'fc-table', 'documented': doc, 'diff': diff})

    outs = fc_exec(sd, vecs, 'fc')
    judged = [(t, o) for t, o in zip(vecs, outs) if t['judged']]
    bad = fc_mismatches([t for t, _ in judged], [o for _, o in judged], 'exp')
    if bad:
        again = fc_exec(sd, [t for t, _ in bad], 'fc-again')
        still = fc_mismatches([t for t, _ in bad], again, 'exp')
        if len(still) != len(bad):
            raise Inconclusive('%d of %d disagreeing vectors did not reproduce on re-execution' % (len(bad) - len(still), len(bad)))
    groups = collections.OrderedDict()
    for t, o in bad:
        groups.setdefault(fc_site(t, o), []).append((t, o))
    for site in sorted(groups):
        items = groups[site]
        items.sort(key=lambda x: (len(x[1]['expr']), x[1]['expr']))
        t, o = items[0]
        dev = site.split(':')[-1]
        what = ('%d expression(s) disagree with the documentation%s; smallest: `%s`: documented %s; real (ExprSemanticsChecker) %s; '
                'real (Linter.Lint) %s\n%s'
                % (len(items), (' (%s)' % DEV_TEXT[dev]) if dev in DEV_TEXT else '', o['expr'], fc_show(t['exp']), fc_show(o['api']),
                   fc_show(o['lint']), o.get('src', '')))
        if site in OBSERVATIONS:
            ck.note('OBSERVATION %s (%d vectors): %s -- %s' % (site, len(items), OBSERVATIONS[site], what))
            continue
        ck.violation(site, what, {'kind': 'fc', 'count': len(items), 'devs': sorted(t['devs']),
                                  'vectors': [{'v': a['v'], 'exp': a['exp'], 'judged': True} for a, _ in items[:8]],
                                  'exprs': [b['expr'] for _, b in items[:8]], 'src': o.get('src', '')})

    # ---- model drift: the code as read (operational layer) on every vector, judged or not
    badids = {id(t) for t, _ in bad}
    drift = [(t, o) for t, o in fc_mismatches(vecs, outs, 'asread') if id(t) not in badids]
    for t, o in drift[:3]:
        ck.note('model drift: `%s`: the operational layer predicts %s, real %s / %s' % (o['expr'], fc_show(t['asread']), fc_show(o['api']),
                                                                                        fc_show(o['lint'])))
    if len(drift) > 3:
        ck.note('model drift: %d expressions in total differ from the operational layer only' % len(drift))

    # ---- vacuity guards
    if not any(sx.endswith(':unexplained') for sx in groups) and not drift:
        want = collections.defaultdict(set)
        seen = collections.defaultdict(set)
        verdicts = collections.defaultdict(set)
        for t, o in judged:
            k = t['v']['kind']
            want[k] |= {d['c'] for d in t['exp']['diags']}
            seen[k] |= {d['c'] for d in o['lint']['diags']}
            verdicts[k].add(bool(o['lint']['diags']))
        for k in want:
            if want[k] - seen[k]:
                raise Inconclusive('kind %s: classes %s predicted but never observed through Linter.Lint' % (k, sorted(want[k] - seen[k])))
        for k in ('call', 'fmt', 'cmp'):
            if verdicts[k] != {True, False}:
                raise Inconclusive('kind %s: only verdict %s observed' % (k, sorted(verdicts[k])))
        names = {t['v']['f'].lower() for t in vecs if t['v']['kind'] == 'call'}
        if not set(doc) <= names:
            raise Inconclusive('no call vectors for %s' % sorted(set(doc) - names))
        types_seen = {o['lint']['ty'] for o in outs}
        if not set(header['pool']) <= types_seen:
            raise Inconclusive('result types never observed through Linter.Lint: %s' % sorted(set(header['pool']) - types_seen))

    if tier == 'thorough' and vecs:
        i = next((k for k, t in enumerate(vecs) if t['judged'] and t['exp']['diags']), 0)
        forged = dict(vecs[i], exp={'ty': vecs[i]['exp']['ty'], 'diags': []})
        rej = fc_mismatches([forged], [outs[i]], 'exp')
        ck.cov['binding_selftest_func_calls'] = 'rejected' if len(rej) == 1 else 'NOT rejected'
        if len(rej) != 1:
            raise Inconclusive('binding self-test failed: a forged prediction was not rejected')

    per = collections.Counter(t['v']['kind'] for t in vecs)
    ck.cov['evaluations'] += 2 * len(vecs)
    ck.cov['traces_validated_against_impl'] += 2 * len(vecs)
    ck.cov['distinct_nontrivial'] += sum(1 for t in vecs if t['exp']['diags'])
    ck.cov['func_calls'] = {'vectors': dict(per), 'not_judged_format_literals': sum(1 for t in vecs if not t['judged']),
                            'functions': sorted(doc), 'signatures': len(header['sigs']), 'pool': header['pool'],
                            'vectors_under_a_named_deviation': dict(collections.Counter(d for t in vecs for d in t['devs'])),
                            'result_types_seen_through_lint': sorted({o['lint']['ty'] for o in outs})}
    for k in ('call', 'fmt', 'cmp', 'log'):
        for t, o in zip(vecs, outs):
            if t['v']['kind'] == k and t['judged'] and (len(t['exp']['diags']) >= (2 if k in ('call', 'fmt') else 1) or (k == 'log' and t['devs'])):
                ck.sample({'expression': o['expr'], 'predicted': fc_show(t['exp']), 'real_api': fc_show(o['api']),
                           'real_lint': fc_show(o['lint']), 'workflow': o.get('src', '')})
                break


# ------------------------------------------------------------------------------------------------

def run(ck, tier):
    sd = vplib.subdir('ext04')
    run_ta(ck, tier, sd)
    run_fc(ck, tier, sd)
    ck.cov['observations_table'] = sorted(OBSERVATIONS)
    ck.cov['rule'] = ('every state of TypeAlgebra.tla (one / two / three type terms) evaluated on the real ExprType methods and every '
                      'state of FuncCalls.tla written as an expression and checked with ExprSemanticsChecker and with Linter.Lint; '
                      'non-trivial = a law is broken / two Merge results observed / at least one diagnostic expected')
    ck.cov['exhaustive'] = True
    ck.assumptions += [
        'GitHub\'s page "Evaluate expressions in workflows and actions" is not available offline: the documented functions are taken '
        'from docs/checks.md ("Contexts and built-in functions": overloads of contains, optional separator of join, repeatable '
        'parameters of hashFiles / format, case-insensitive names, format placeholders) and from the comments of expr_sema.go; '
        'parameter types follow the conversions of docs/checks.md ("Only any and number are allowed to be converted to string '
        'implicitly", "Implicit conversion to number is not allowed"); GitHub additionally lets join() take a plain string - not '
        'judged here because no offline source states it',
        'a repeatable last parameter stands for one or more arguments (format needs a replacement value, hashFiles a path)',
        'comparison operators: docs/checks.md "Strict type checks for comparison operators"; null and any operands of == / != are '
        'never reported (a value typed object may be null at run time; the section lists `0 == null` among the allowed surprises)',
        'the type of l && r / l || r is Merge(narrowed type of l, type of r) with the Merge of the type algebra as it is: the '
        'algebra itself is judged by part 1; !x is bool whatever x is',
        'format literals are judged when they consist of text, {{ }} escapes and {N} placeholders; literals with a lone brace, {}, '
        '{ 0} or {01} are only compared with the operational layer (model drift)',
        'type algebra: the laws are those asked for (Equals an equivalence, Assignable reflexive, Merge idempotent / commutative / '
        'associative up to Equals and in print, upper bound, String injective, DeepCopy equal and unshared) plus what the doc comments '
        'of expr_type.go state (conflict -> any, union of properties, struct invariant of ObjectType, Deref false after Merge); '
        'the universe holds well-formed objects only (struct invariant, and Mapped already covers the listed properties)',
        'the upper-bound law uses the loosening preorder of DESIGN A.6 extended by number -> string and by keys that are absent '
        'below and present above (TLC checks that it contains Loosens and is a preorder); it is stated for operands that list the '
        'same keys',
        'Merge is repeated 192 times per vector when a map with two entries is involved: a result that depends on map iteration '
        'order (repaired deviation Dev_MergeMapOrder) would be missed with probability below 1e-11',
    ]


def replay(path):
    rp = json.load(open(path))['replay']
    sd = vplib.subdir('ext04r')
    if rp['kind'] == 'ta':
        items = [dict(id=i, kind=v['kind'], t=v['t'], u=v.get('u'), v=v.get('v')) for i, v in enumerate(rp['vectors'])]
        outs = ta_exec(sd, items, 'replay')
        verdicts = ta_judge(None, [dict(it, out=o['out']) for it, o in zip(items, outs)], 'replay')
        fails = 0
        for it, v, o in zip(items, rp['vectors'], outs):
            still = [r for r in v['rules'] if r in verdicts[it['id']]]
            print('%s: %s\n   laws broken by the real outcome: %s' % (ta_operands_text(it), ta_outcome_text(it, o['out']), verdicts[it['id']]))
            if still:
                fails += 1
        return 1 if fails else 0
    if rp['kind'] == 'fc-table':
        real = fc_table(sd)
        for k in sorted(set(real) | set(rp['documented'])):
            if cj(real.get(k)) != cj(rp['documented'].get(k)):
                print('%s: documented %s, real %s' % (k, [s['str'] for s in rp['documented'].get(k, [])], [s['str'] for s in real.get(k, [])]))
        return 1 if cj(real) != cj(rp['documented']) else 0
    vecs = rp['vectors']
    outs = fc_exec(sd, vecs, 'replay')
    fails = 0
    for t, o in zip(vecs, outs):
        print(o.get('src', ''))
        print('`%s`: documented %s; real (ExprSemanticsChecker) %s; real (Linter.Lint) %s'
              % (o['expr'], fc_show(t['exp']), fc_show(o['api']), fc_show(o['lint'])))
        if not (same(t['exp'], o['api']) and same(t['exp'], o['lint'])):
            fails += 1
    return 1 if fails else 0
