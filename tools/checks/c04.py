"""C04 - the expression parser accepts exactly the documented grammar.

E: TLC checks ExprLexer.tla (DFA of expr_lexer.go == token languages + longest-viable-prefix rule,
   progress, shape of the result) for all character-class strings up to L, and ExprParser.tla
   (recursive descent of expr_parser.go: accepted <=> derivable, the tree IS the derivation tree of
   the stratified grammar, grammar unambiguous, one error inside the text) for all token strings
   up to N over the 14 token classes.
G: the same runs produce the vectors: every class string with the predicted tokens/error (dump),
   every token string up to 4 with the predicted verdict/tree/error index (dump) and the table of
   all sentences up to N with their trees (printed by TLC).  The harness renders them with rotating
   concrete representatives and three white-space interleavings, runs the real ExprLexer /
   ExprParser (every token string up to N is enumerated and compared with the table) and a sample
   through Linter.Lint inside ${{ }} and as a bare if: condition.
I: the if: channel (ExprIf.tla): every string of symbols (characters plus the marks `}}`, `${{`, `&&`) up to a
   bound is written as the value of a job-level and a step-level `if:` in every YAML style that can carry it
   (plain, single-quoted, double-quoted) and linted: a bare condition is accepted iff it is a sentence - `}}`
   outside a string literal never is -, a rejected one gets exactly one syntax diagnostic within the condition.
T: random long token strings (7..40, near-sentences, deep nesting) are run on the real lexer+parser,
   recorded, and validated by TLC (ExprTrace.tla).  Every real run that differs from a prediction is
   judged by the same trace specification: PropOK (declarative layer) decides VIOLATION, ModelOK
   (operational model) only model drift.
"""
import json
import os
import random
import re
import threading

import vplib
from vplib import Inconclusive

LEVEL = 'model_checking'

NCLASS = 14
TOK_KINDS = {'var', 'kw', 'lit', 'call', 'not'}
NAMED_KINDS = {'var', 'kw', 'lit', 'call', 'prop', 'cmp'}
MAX_PER_SITE = 40
# named deviations of ExprLexer.tla (AllDevs); TLC names the one a rejected record exhibits
DEVS = {'exponent-plus', 'exponent-leading-zero', 'lookahead-past-end'}

WHY_SITE = {
    'render-lex': 'parser:render-lex', 'accepts-nonsentence': 'parser:accepts-nonsentence',
    'rejects-sentence': 'parser:rejects-sentence', 'tree': 'parser:tree', 'error-position': 'parser:error-position',
    'lex-accepts': 'lexer:accepts-nontoken', 'lex-rejects': 'lexer:rejects-token', 'lex-tokens': 'lexer:tokens',
    'lex-error-position': 'lexer:error-position',
    'if-accepts': 'if:accepts-nonsentence', 'if-rejects': 'if:rejects-sentence', 'if-diagnostics': 'if:diagnostics',
}
# named deviations of ExprIf.tla (AllIfDevs)
IF_DEVS = {'bare-if-stray-close'}


# ------------------------------------------------------------------------------------ helpers

def project(d, names):
    """Specification tree [k, at, a] -> the shape the harness gives to the real AST."""
    k = d['k']
    return {'k': k, 'at': d['at'] if k in TOK_KINDS else 0,
            'n': names[d['at'] - 1] if k in NAMED_KINDS and 1 <= d['at'] <= len(names) else '',
            'a': [project(c, names) for c in d['a']]}


def trace_line(rec):
    """The fields TLC needs (uniform per kind), without the free text."""
    if rec['kind'] == 'lex':
        return json.dumps({'kind': 'lex', 's': rec['s'], 'toks': rec['toks'], 'err': rec['err'], 'off': rec['off']})
    if rec['kind'] == 'if':
        return json.dumps({'kind': 'if', 's': rec['s'], 'nsyntax': rec['nsyntax'], 'nexpr': rec['nexpr'],
                           'inside': rec['inside'], 'off': rec['off']})
    return json.dumps({'kind': 'parse', 'ts': rec['ts'], 'names': rec['names'], 'ok': rec['ok'], 'tree': rec['tree'],
                       'errAt': rec['errAt'], 'lexok': rec['lexok']})


def parse_report(out):
    m = re.search(r'<<\s*"MISM",\s*(\d+),\s*<<(.*?)>>,\s*<<(.*?)>>,\s*<<(.*?)>>\s*>>', out, re.S)
    if not m:
        raise Inconclusive('trace validation produced no verdict:\n' + out[-2000:])

    def ints(body):
        body = body.strip()
        return [int(x) for x in body.replace('\n', ' ').split(',') if x.strip()] if body else []
    whys = re.findall(r'"([a-z-]+)"', m.group(3))
    mism = ints(m.group(2))
    if len(whys) != len(mism):
        raise Inconclusive('trace verdict not understood: %r' % m.group(0)[:500])
    return int(m.group(1)), list(zip(mism, whys)), ints(m.group(4))


def judge(text, name='ExprTrace'):
    t = vplib.run_tlc('ExprTrace', 'ExprTrace.cfg', workers=1, files={'trace.ndjson': text}, timeout=3000, name=name)
    n, mism, drift = parse_report(t.out)
    return t, n, mism, drift


def replay_of(rec, extra=None):
    if rec['kind'] == 'lex':
        rp = {'kind': 'lex', 's': rec['s'], 'rot': rec['rot'], 'input': rec['text'], 'observed':
              {'toks': rec['toks'], 'err': rec['err'], 'off': rec['off'], 'msg': rec.get('msg', '')}}
    elif rec['kind'] == 'if':
        rp = {'kind': 'if', 's': rec['s'], 'rot': rec['rot'], 'only': rec['level'] + '/' + rec['style'], 'input': rec['text'],
              'src': rec['src'], 'observed': {'nsyntax': rec['nsyntax'], 'nexpr': rec['nexpr'], 'inside': rec['inside'],
                                              'off': rec['off'], 'msgs': rec['msgs']}}
    else:
        rp = {'kind': 'parse', 'ts': rec['ts'], 'rot': rec['rot'], 'variant': rec['variant'], 'input': rec['text'],
              'observed': {'ok': rec['ok'], 'errAt': rec['errAt'], 'msg': rec.get('msg', ''), 'tree': rec['tree']}}
    if extra:
        rp.update(extra)
    return rp


class Part:
    """Stands in for the Check while the lexer and the parser halves run side by side; merged afterwards."""

    def __init__(self):
        self.tlc, self.viol, self.notes, self.samples, self.cov, self.exc = [], [], [], [], {}, None

    def add_tlc(self, label, r):
        self.tlc.append((label, r))

    def violation(self, site, what, rp):
        self.viol.append((site, what, rp))

    def note(self, s):
        self.notes.append(s)

    def sample(self, x):
        self.samples.append(x)

    def count(self, key, n):
        self.cov[key] = self.cov.get(key, 0) + n

    def merge(self, ck):
        for label, r in self.tlc:
            ck.add_tlc(label, r)
        for v in self.viol:
            ck.violation(*v)
        for s in self.notes:
            ck.note(s)
        for x in self.samples:
            ck.sample(x)
        for k, n in self.cov.items():
            ck.cov[k] = ck.cov.get(k, 0) + n


HALF = max(2, vplib.NCPU // 2)      # TLC workers of each half while both run


class Collector:
    """Real runs that are not exactly as predicted, waiting for TLC's judgement."""

    def __init__(self):
        self.recs = []      # (record, meta)

    def add(self, rec, **meta):
        self.recs.append((rec, meta))


# ------------------------------------------------------------------------------------ lexer (E, G)

def iter_dump(path, var='tc'):
    """The JSON vectors of a TLC dump, one at a time (vplib.read_dump_json without the list)."""
    pre, pre2 = '/\\ %s = "' % var, '%s = "' % var
    with open(path, encoding='utf-8') as f:
        for line in f:
            if line.startswith(pre):
                yield json.loads(json.loads(line[len(pre) - 1:]))
            elif line.startswith(pre2):
                yield json.loads(json.loads(line[len(pre2) - 1:]))


def lexer_part(ck, sd, tier, col):
    cfgs = [('ExprLexer_full3raw.cfg', 'all 27 character classes, L<=3, bare text (EOF instead of the end marker)', True),
            ('ExprLexer_full3.cfg', 'all 27 character classes, L<=3, text followed by }}', True),
            ('ExprLexer_core4.cfg', '20 classes (one of each group of interchangeable operators), L<=4, text followed by }}', True)]
    if tier == 'thorough':
        cfgs += [('ExprLexer_core4raw.cfg', '20 classes, L<=4, bare text', True),
                 ('ExprLexer_full4.cfg', 'all 27 character classes, L<=4, text followed by }}', True),
                 ('ExprLexer_num5.cfg', 'the 11 classes numbers are made of, L<=5, text followed by }}', True),
                 ('ExprLexer_num6.cfg', 'the 11 number classes, L<=6, text followed by }} (model only)', False),
                 ('ExprLexer_core5.cfg', '20 classes, L<=5, text followed by }} (model only)', False)]
    rots = 2 if tier == 'quick' else 3
    for cfg, what, emit in cfgs:
        r = vplib.run_tlc('ExprLexer', cfg, dump='vectors' if emit else None, timeout=3000, workers=HALF,
                          heap='4g' if tier == 'thorough' else None)
        ck.add_tlc('ExprLexer %s: DFA == token languages + longest viable prefix, progress, shape' % what, r)
        if r.violated:
            raise Inconclusive('specification ExprLexer.tla violates its own invariant %s with %s (model-level only)'
                               % (r.violated, cfg))
        if not emit:
            continue
        # stream: dump -> harness input + predictions file -> harness output (hundreds of thousands of vectors)
        tag = cfg.split('.')[0]
        fin, fout, fpred = (os.path.join(sd, tag + x) for x in ('.in.jsonl', '.out.jsonl', '.pred.jsonl'))
        nvec = nontrivial = 0
        mid = None
        with open(fin, 'w') as fi, open(fpred, 'w') as fp:
            for v in iter_dump(os.path.join(r.dir, 'vectors.dump')):
                fi.write(json.dumps({'id': nvec, 's': v['s']}, separators=(',', ':')) + '\n')
                fp.write(json.dumps(v, separators=(',', ':')) + '\n')
                nvec += 1
                if len(v['toks']) >= 2 or (v['err'] and v['off'] > 0):
                    nontrivial += 1
                if nvec == r.distinct // 2:
                    mid = v
        if nvec != r.distinct:
            raise Inconclusive('dump has %d vectors, TLC reported %d states' % (nvec, r.distinct))
        os.remove(os.path.join(r.dir, 'vectors.dump'))
        harness(['expr-lex-vectors', fin, fout, str(rots)])
        n = 0
        with open(fout) as f, open(fpred) as fp:
            for line, pline in zip(f, fp):
                o, v = json.loads(line), json.loads(pline)
                if o['id'] != n:
                    raise Inconclusive('harness output out of order')
                n += 1
                pred = (v['toks'], v['err'], v['off'] if v['err'] else 0)
                for run in o['runs']:
                    if run.get('panic') or run.get('note'):
                        ck.violation('lexer:observable', 'input %s: %s' % (run['text'], run.get('panic') or run.get('note')),
                                     replay_of(run, {'problem': run.get('panic') or run.get('note')}))
                        continue
                    real = (run['toks'], run['err'], run['off'] if run['err'] else 0)
                    if real != pred and len(col.recs) < 30000:
                        col.add(run, predicted={'toks': v['toks'], 'err': v['err'], 'off': v['off']},
                                predicted_for_code_as_is={'dev': v['dev'], 'toks': v['ctoks'], 'err': v['cerr'], 'off': v['coff']})
        if n != nvec:
            raise Inconclusive('harness returned %d of %d lexer vectors' % (n, nvec))
        for x in (fin, fout, fpred):
            os.remove(x)
        ck.count('evaluations', nvec * rots)
        ck.count('traces_validated_against_impl', nvec)
        ck.count('distinct_nontrivial', nontrivial)
        ck.count('lexer_vectors', nvec)
        if mid is not None:
            ck.sample({'lexer_vector': mid})


# ----------------------------------------------------------------------------------- parser (E, G)

def parser_part(ck, sd, tier, col):
    # every token string up to 4 with verdict, tree and error index
    r4 = vplib.run_tlc('ExprParser', 'ExprParser_vec4.cfg', dump='vectors', timeout=1200, workers=HALF)
    ck.add_tlc('ExprParser N<=4 (14 token classes): accepted<=>derivable, tree==derivation tree, unambiguous, one error inside', r4)
    if r4.violated:
        raise Inconclusive('specification ExprParser.tla violates its own invariant %s (model-level only)' % r4.violated)
    vecs = vplib.read_dump_json(os.path.join(r4.dir, 'vectors.dump'))
    if len(vecs) != r4.distinct:
        raise Inconclusive('dump has %d vectors, TLC reported %d states' % (len(vecs), r4.distinct))
    fin, fout = os.path.join(sd, 'p4.in.jsonl'), os.path.join(sd, 'p4.out.jsonl')
    vplib.write_jsonl(fin, [{'id': i, 'ts': v['ts']} for i, v in enumerate(vecs)])
    harness(['expr-parse-vectors', fin, fout])
    outs = vplib.read_jsonl(fout)
    if len(outs) != len(vecs):
        raise Inconclusive('harness returned %d of %d parser vectors' % (len(outs), len(vecs)))
    for v, o in zip(vecs, outs):
        for run in o['runs']:
            if run.get('panic'):
                ck.violation('parser:panic', 'input %r: %s' % (run['text'], run['panic']), replay_of(run, {'problem': run['panic']}))
                continue
            same = run['lexok'] and run['ok'] == v['ok'] and run['errAt'] == v['errAt'] and \
                (not v['ok'] or project(v['tree'], run['names']) == run['tree']) and (v['ok'] or run['inside'])
            if not same:
                col.add(run, predicted={'ok': v['ok'], 'errAt': v['errAt'], 'tree': v['tree']})
    ck.count('evaluations', 3 * len(vecs))
    ck.count('traces_validated_against_impl', len(vecs))
    ck.sample({'parser_vector': next(v for v in vecs if v['ok'] and len(v['ts']) == 4)})

    # all token strings up to N: the sentence table printed by TLC against the real parser
    n, cfg = (5, 'ExprParser_n5.cfg') if tier == 'quick' else (6, 'ExprParser_n6.cfg')
    rn = vplib.run_tlc('ExprParser', cfg, timeout=3400, workers=HALF, heap='6g' if tier == 'thorough' else None)
    ck.add_tlc('ExprParser N<=%d: same invariants + bracket-balance pruning is sound; prints the sentence table' % n, rn)
    if rn.violated:
        raise Inconclusive('specification ExprParser.tla violates its own invariant %s at N=%d (model-level only)' % (rn.violated, n))
    table = {}
    for m in re.finditer(r'^<<"ACC", (".*")>>$', rn.out, re.M):
        a = json.loads(json.loads(m.group(1)))
        table[tuple(a['ts'])] = a
    expect_states = sum(NCLASS ** i for i in range(n + 1))
    if rn.distinct != expect_states:
        raise Inconclusive('ExprParser explored %d states, expected %d' % (rn.distinct, expect_states))
    in4 = {tuple(v['ts']) for v in vecs if v['ok']}
    if not table or {t for t in table if len(t) <= 4} != in4:
        raise Inconclusive('sentence table printed by TLC (%d entries) is inconsistent with the N<=4 dump' % len(table))
    facc, fenum = os.path.join(sd, 'acc.jsonl'), os.path.join(sd, 'enum.jsonl')
    vplib.write_jsonl(facc, list(table.values()))
    harness(['expr-parse-enum', facc, str(n), fenum])
    lines = vplib.read_jsonl(fenum)
    summary = lines[-1]['summary']
    if summary['strings'] != expect_states or summary['table_entries_met'] != len(table):
        raise Inconclusive('enumeration incomplete: %r' % summary)
    for ln in lines[:-1]:
        run = ln['run']
        if run.get('panic'):
            ck.violation('parser:panic', 'input %r: %s' % (run['text'], run['panic']), replay_of(run, {'problem': run['panic']}))
            continue
        ent = table.get(tuple(run['ts']))
        col.add(run, predicted={'ok': ent is not None, 'tree': ent['tree'] if ent else None})
    ck.count('evaluations', summary['runs'])
    ck.count('traces_validated_against_impl', summary['strings'])
    ck.count('distinct_nontrivial', len(table))
    ck.count('sentences_in_table', len(table))
    ck.count('token_strings_enumerated', summary['strings'])
    return vecs, table


# ---------------------------------------------------------------------------------- if: channel (E, G)

def if_usable(run):
    """The embedding itself must be clean: anything else is a problem of the rendering, not of the code."""
    if run.get('lintErr'):
        raise Inconclusive('Lint failed on a rendered if: condition: %s\n%s' % (run['lintErr'], run['src']))
    if run['other']:
        raise Inconclusive('rendered if: condition has unrelated diagnostics: %r in\n%s' % (run['other'][:2], run['src']))


def if_part(ck, sd, tier, col):
    cfgs = [('ExprIf_q4.cfg', '12 symbols incl. the marks }} ${{ && and the characters } { $, up to 4 symbols')]
    if tier == 'thorough':
        cfgs = [('ExprIf_s4.cfg', '14 symbols incl. the marks }} ${{ && and the characters } { $, up to 4 symbols'),
                ('ExprIf_q5.cfg', '12 symbols, up to 5 symbols')]
    for cfg, what in cfgs:
        r = vplib.run_tlc('ExprIf', cfg, dump='vectors', timeout=3000, workers=HALF, heap='4g' if tier == 'thorough' else None)
        ck.add_tlc('ExprIf %s: checkIfCondition satisfies the property for every value; the behaviour before fix '
                   '4175e16 is exactly the named deviation' % what, r)
        if r.violated:
            raise Inconclusive('specification ExprIf.tla violates its own invariant %s with %s (model-level only)' % (r.violated, cfg))
        tag = cfg.split('.')[0]
        fin, fout, fpred = (os.path.join(sd, tag + x) for x in ('.in.jsonl', '.out.jsonl', '.pred.jsonl'))
        nvec = nontrivial = 0
        sample = None
        with open(fin, 'w') as fi, open(fpred, 'w') as fp:
            for v in iter_dump(os.path.join(r.dir, 'vectors.dump')):
                nvec += 1
                if not v['s']:
                    continue            # an empty value is not a condition (the YAML level reports it)
                fi.write(json.dumps({'id': nvec, 's': v['s']}, separators=(',', ':')) + '\n')
                fp.write(json.dumps(v, separators=(',', ':')) + '\n')
                if v['sentence'] or ('rbrace' in v['s'] or 'dollar' in v['s']):
                    nontrivial += 1
                if sample is None and v['mode'] == 'bare' and v['s'][-2:] == ['rbrace', 'rbrace'] and len(v['s']) > 3:
                    sample = v
        if nvec != r.distinct:
            raise Inconclusive('dump has %d vectors, TLC reported %d states' % (nvec, r.distinct))
        os.remove(os.path.join(r.dir, 'vectors.dump'))
        harness(['expr-if', fin, fout])
        n = nruns = 0
        styles = {}
        with open(fout) as f, open(fpred) as fp:
            for line, pline in zip(f, fp):
                o, v = json.loads(line), json.loads(pline)
                if o['runs'] and o['runs'][0]['s'] != v['s']:
                    raise Inconclusive('harness output out of order')
                n += 1
                for run in o['runs']:
                    if_usable(run)
                    nruns += 1
                    key = run['level'] + '/' + run['style']
                    styles[key] = styles.get(key, 0) + 1
                    if v['n'] == 2:
                        same = False                                     # syntax alone does not decide: TLC bounds it
                    elif v['n'] == 0:
                        same = run['nsyntax'] == 0
                    else:
                        same = run['nsyntax'] == 1 and run['nexpr'] == 1 and run['inside'] and run['off'] == v['off']
                    if not same and len(col.recs) < 30000:
                        col.add(run, predicted={k: v[k] for k in ('mode', 'sentence', 'more', 'n', 'off')})
        if n != nvec - 1:
            raise Inconclusive('harness returned %d of %d if: vectors' % (n, nvec - 1))
        if not all(styles.get(lv + '/' + st) for lv in ('job', 'step') for st in ('plain', 'single', 'double')):
            raise Inconclusive('some if: embedding was never rendered: %r' % styles)
        for x in (fin, fout, fpred):
            os.remove(x)
        ck.count('evaluations', nruns)
        ck.count('traces_validated_against_impl', n)
        ck.count('distinct_nontrivial', nontrivial)
        ck.count('if_vectors', n)
        ck.count('if_renderings', nruns)
        if sample is not None:
            ck.sample({'if_vector': sample})


# ------------------------------------------------------------------------------------- lint level

def lint_part(ck, sd, tier, vecs, table, long_recs):
    rng = random.Random(vplib.seed())
    rejected = [v for v in vecs if not v['ok'] and v['ts']]
    rng.shuffle(rejected)
    sentences = [t for t in table.values() if len(t['ts']) <= 5]
    if tier == 'quick':
        rng.shuffle(sentences)
        sentences = sentences[:500]
    cases = [{'ts': t['ts'], 'ok': True} for t in sentences]
    cases += [{'ts': v['ts'], 'ok': False} for v in rejected[:1500 if tier == 'quick' else 12000]]
    cases += [{'ts': [], 'ok': False}]
    cases += [{'ts': r['ts'], 'ok': r['ok']} for r in long_recs[:300 if tier == 'quick' else 3000]]
    fin, fout = os.path.join(sd, 'lint.in.jsonl'), os.path.join(sd, 'lint.out.jsonl')
    vplib.write_jsonl(fin, [{'id': i, 'ts': c['ts']} for i, c in enumerate(cases)])
    harness(['expr-lint', fin, fout])
    outs = vplib.read_jsonl(fout)
    if len(outs) != len(cases):
        raise Inconclusive('harness returned %d of %d lint cases' % (len(outs), len(cases)))
    nsites = 0
    for c, o in zip(cases, outs):
        for s in o['sites']:
            nsites += 1
            problem = lint_verdict(c['ok'], o, s)
            if problem:
                ck.violation('lint:' + s['site'], '%s, text %r: %s' % (s['site'], o['text'], problem),
                             {'kind': 'lint', 'ts': c['ts'], 'id': o['id'], 'where': s['site'], 'expected_ok': c['ok'],
                              'input': o['text'], 'src': s['src'], 'problem': problem})
    ck.cov['evaluations'] += nsites
    ck.cov['lint_renderings'] = nsites
    ck.sample({'workflow': outs[0]['sites'][0]['src'], 'expected_ok': cases[0]['ok']})


def lint_verdict(expected_ok, o, s):
    """None if Linter.Lint treated the text as the property demands, else a description."""
    if s.get('lintErr'):
        raise Inconclusive('Lint failed on a rendered workflow: %s\n%s' % (s['lintErr'], s['src']))
    if s['other']:
        raise Inconclusive('rendered workflow has unrelated diagnostics: %r in\n%s' % (s['other'][:2], s['src']))
    if expected_ok:
        if s['syntax']:
            return 'a sentence of the grammar got the syntax diagnostic %r' % (s['syntax'][0],)
        return None
    if len(s['expr']) != 1:
        return 'rejected text must yield exactly one expression diagnostic, got %d: %r' % (len(s['expr']), s['expr'][:3])
    d = s['expr'][0]
    if not s['syntax']:
        return 'the only diagnostic is not a syntax error of the lexer/parser: %r' % (d,)
    if not o['apiOk'] and d['msg'] != o['apiMsg']:
        return 'diagnostic %r differs from the parser\'s own error %r' % (d['msg'], o['apiMsg'])
    if d['line'] != s['line'] or not (s['colFrom'] <= d['col'] <= s['colTo']):
        return 'diagnostic at %d:%d lies outside the placeholder (line %d, columns %d..%d)' % (
            d['line'], d['col'], s['line'], s['colFrom'], s['colTo'])
    return None


# ------------------------------------------------------------------------------------------ run

def run(ck, tier):
    sd = vplib.subdir('c04')
    global _builder
    _builder = builder = threading.Thread(target=build_quietly)
    builder.start()
    col_lex, col_par, col_if = Collector(), Collector(), Collector()
    lex, par, ifp = Part(), Part(), Part()
    result = {}

    def guarded(part, fn):
        try:
            result[part] = fn()
        except BaseException as e:      # re-raised in the main thread
            part.exc = e
    tl = threading.Thread(target=guarded, args=(lex, lambda: lexer_part(lex, sd, tier, col_lex)))
    tp = threading.Thread(target=guarded, args=(par, lambda: parser_part(par, sd, tier, col_par)))
    ti = threading.Thread(target=guarded, args=(ifp, lambda: if_part(ifp, sd, tier, col_if)))
    tl.start()
    tp.start()
    ti.start()
    tl.join()
    tp.join()
    ti.join()
    builder.join()
    for part in (lex, par, ifp):
        part.merge(ck)
    for part in (lex, par, ifp):
        if part.exc is not None:
            raise part.exc
    vecs, table = result[par]
    col = Collector()
    col.recs = col_lex.recs[:10000] + col_par.recs[:10000] + col_if.recs[:10000]
    ndiff = len(col_lex.recs) + len(col_par.recs) + len(col_if.recs)

    # ---- T: random long inputs, plus every real run that differed from its prediction, judged by TLC
    n = 4000 if tier == 'quick' else 40000
    ftrace = os.path.join(sd, 'random.ndjson')
    harness(['expr-random', str(n), '7', '40', str(vplib.seed()), ftrace])
    rand = vplib.read_jsonl(ftrace)
    if len(rand) != n:
        raise Inconclusive('recorder wrote %d of %d records' % (len(rand), n))
    for rec in rand:
        if rec.get('panic'):
            ck.violation('parser:panic', 'input %r: %s' % (rec['text'], rec['panic']), replay_of(rec, {'problem': rec['panic']}))
    rand = [rec for rec in rand if not rec.get('panic')]
    nl = 1500 if tier == 'quick' else 15000
    flex = os.path.join(sd, 'lexrandom.ndjson')
    harness(['expr-lex-random', str(nl), '5', '16', str(vplib.seed()), flex])
    lexrand = vplib.read_jsonl(flex)
    if len(lexrand) != nl:
        raise Inconclusive('recorder wrote %d of %d lexer records' % (len(lexrand), nl))
    for rec in lexrand:
        if rec.get('panic') or rec.get('note'):
            ck.violation('lexer:observable', 'input %s: %s' % (rec['text'], rec.get('panic') or rec.get('note')),
                         replay_of(rec, {'problem': rec.get('panic') or rec.get('note')}))
    lexrand = [rec for rec in lexrand if not (rec.get('panic') or rec.get('note'))]
    ni = 1500 if tier == 'quick' else 15000
    fif = os.path.join(sd, 'ifrandom.ndjson')
    harness(['expr-if-random', str(ni), '3', '14', str(vplib.seed()), fif])
    ifrand = vplib.read_jsonl(fif)
    if len(ifrand) != ni:
        raise Inconclusive('recorder wrote %d of %d if: records' % (len(ifrand), ni))
    for rec in ifrand:
        if_usable(rec)
    differing = col.recs
    if ndiff > len(differing):
        ck.note('%d real runs differ from their prediction; %d of them are judged' % (ndiff, len(differing)))
    allrecs = [(rec, meta) for rec, meta in differing] + [(rec, {}) for rec in rand] + [(rec, {}) for rec in lexrand] + \
        [(rec, {}) for rec in ifrand]
    text = ''.join(trace_line(rec) + '\n' for rec, _ in allrecs)
    t, cnt, mism, drift = judge(text)
    ck.add_tlc('ExprTrace: %d recorded executions (%d runs differing from their prediction + %d random token strings '
               'of length 7..40 + %d random character strings of length 5..18 + %d random if: values of length 3..20)'
               % (cnt, len(differing), len(rand), len(lexrand), len(ifrand)), t)
    if cnt != len(allrecs):
        raise Inconclusive('TLC read %d of %d trace records' % (cnt, len(allrecs)))
    if len(mism) >= 20000 or len(drift) >= 20000:
        raise Inconclusive('more than 20000 rejected records: the trace verdict is truncated')
    report(ck, allrecs, mism, drift)
    ck.cov['traces_validated_against_impl'] += len(rand) + len(lexrand) + len(ifrand)
    ck.cov['evaluations'] += len(rand) + len(lexrand) + len(ifrand)
    ck.cov['runs_differing_from_prediction'] = ndiff
    ck.cov['random_accepted'] = sum(1 for r in rand if r['ok'])
    ck.sample({'trace_record': {k: rand[0][k] for k in ('ts', 'text', 'ok', 'errAt', 'msg')}})
    bad = {i for i, _ in mism}
    good_long = [rec for k, (rec, meta) in enumerate(allrecs) if k + 1 not in bad and rec['kind'] == 'parse' and len(rec['ts']) >= 7]

    # ---- G: through Linter.Lint
    lint_part(ck, sd, tier, vecs, table, good_long)

    if tier == 'thorough':
        selftest(ck, rand)
    ck.cov['rule'] = ('lexer: every character-class string of the TLC state spaces (dumped with predicted tokens/error) on '
                      'ExprLexer.Next and LexExpression, 2-3 representative rotations each; parser: every token string up '
                      'to N over 14 classes, three white-space renderings each, against the sentence table (with trees) '
                      'printed by TLC, and every string up to 4 also against the predicted error index; non-trivial = '
                      'sentences of the table + lexer vectors with at least two tokens or an error after the first '
                      'character; plus Linter.Lint renderings and random long token strings validated by TLC')
    ck.cov['exhaustive'] = True
    ck.assumptions += [
        'representatives stand for their classes (letters outside a-f/e/x, digits 1-9, illegal characters ? " # { $ / \\ ~ % ^ : ; @ VT NBSP ` and non-ASCII)',
        'integer literals stay inside 32 bits and floats inside float64 (out-of-range literals are rejected by design)',
        'a leading byte-order mark (skipped by text/scanner) is outside the modelled alphabet',
        'Linter.Lint is exercised with single-line double-quoted scalars only; positions inside multi-line scalars belong to C07',
        'for a bare if: condition the placeholder is the scalar including its quotes',
        'if: channel: white space is a blank and characters are ASCII (multi-line scalars and non-ASCII columns belong to C07); '
        'an unterminated string literal of a bare condition is reported at the end of the lexer\'s input, two characters '
        'behind the value, which counts as within the condition; the empty value is not a condition; in placeholder form '
        'only the first ${{ }} is decided by syntax alone (later ones depend on the semantic check of the earlier ones)',
        'syntax diagnostics are recognised by the message prefixes of expr_lexer.go/expr_parser.go; in the rejected case the '
        'message must equal the one returned by ExprParser.Parse on the same text']


_builder = None


def harness(args):
    """run_harness once the (single) background build is finished"""
    if _builder is not None:
        _builder.join()
    return vplib.run_harness(args)


def build_quietly():
    try:
        vplib.build_harness()
    except Exception:
        pass        # reported by the first run_harness call


def report(ck, allrecs, mism, drift):
    per_site = {}
    for idx, why in mism:
        rec, meta = allrecs[idx - 1]
        site = WHY_SITE.get(why, 'trace:' + why)
        if why in DEVS:
            site = 'lexer:' + why
        elif why in IF_DEVS:
            site = 'if:' + why
        per_site[site] = per_site.get(site, 0) + 1
        if per_site[site] > MAX_PER_SITE:
            continue
        if rec['kind'] == 'if':
            what = ('%s-level if: %s written as a %s scalar: Linter.Lint reports %d syntax diagnostic(s) %s(%d of the expression '
                    'rule in all%s), the if: channel of ExprIf.tla demands otherwise (%s)'
                    % (rec['level'], json.dumps(rec['text']), rec['style'], rec['nsyntax'], json.dumps(rec['msgs'][:2]) + ' ' if rec['msgs'] else '',
                       rec['nexpr'], '' if rec['inside'] else ', positioned outside the condition', why))
        elif rec['kind'] == 'lex':
            what = ('input %s (classes %s): the real lexer gives tokens=%s error=%s, the token languages of ExprLexer.tla '
                    'do not (%s)' % (rec['text'], ' '.join(rec['s']), [(t['k'], t['off']) for t in rec['toks']],
                                    ('offset %d: %s' % (rec['off'], rec.get('msg', ''))) if rec['err'] else 'none', why))
        else:
            what = ('input %r (tokens %s): the real parser %s, the grammar of ExprParser.tla says otherwise (%s)'
                    % (rec['text'], ' '.join(rec['ts']),
                       'accepts it' if rec['ok'] else 'rejects it at token %d (%s)' % (rec['errAt'], rec.get('msg', '')), why))
        ck.violation(site, what, replay_of(rec, {'why': why, 'dev': why if why in DEVS or why in IF_DEVS else 'none', 'predicted': meta.get('predicted')}))
    for site, cnt in per_site.items():
        if cnt > MAX_PER_SITE:
            ck.note('site %s: %d violating runs, the first %d are recorded' % (site, cnt, MAX_PER_SITE))
    ck.cov['violating_runs_per_site'] = per_site
    only_drift = [i for i in drift if i not in {j for j, _ in mism}]
    if only_drift:
        rec, meta = allrecs[only_drift[0] - 1]
        ck.note('model drift: %d real runs satisfy the property but differ from the operational model (error index / '
                'tokens before an error), e.g. %s predicted %s' % (len(only_drift), json.dumps(replay_of(rec))[:600],
                                                                  json.dumps(meta.get('predicted'))[:300]))
        ck.cov['model_drift_records'] = len(only_drift)


def selftest(ck, rand):
    """Binding self-test: corrupted records must be rejected by the trace specification."""
    recs = json.loads(json.dumps(rand[:120]))
    want = []
    flipped = swapped = False
    for i, r in enumerate(recs):
        if not r['ok'] and not flipped:
            r['ok'] = True
            flipped = True
            want.append(i + 1)
        elif r['ok'] and not swapped:
            node = find_binary(r['tree'])
            if node is not None:
                node['a'] = node['a'][::-1]
                swapped = True
                want.append(i + 1)
    _, _, mism, _ = judge(''.join(trace_line(r) + '\n' for r in recs), name='selftest')
    got = [i for i, _ in mism]
    ok = flipped and swapped and got == want
    ck.cov['binding_selftest'] = 'rejected' if ok else 'NOT rejected: wanted %r got %r' % (want, got)
    if not ok:
        raise Inconclusive('binding self-test failed: corrupted records not rejected (%r vs %r)' % (want, got))


def find_binary(t):
    if t['k'] in ('and', 'or', 'cmp', 'index') and json.dumps(t['a'][0]) != json.dumps(t['a'][1]):
        return t
    for c in t['a']:
        f = find_binary(c)
        if f is not None:
            return f
    return None


# --------------------------------------------------------------------------------------- replay

def replay(path):
    rp = json.load(open(path))['replay']
    sd = vplib.subdir('c04r')
    fin, fout = os.path.join(sd, 'i.jsonl'), os.path.join(sd, 'o.jsonl')
    if rp['kind'] == 'lint':
        vplib.write_jsonl(fin, [{'id': rp['id'], 'ts': rp['ts']}])
        vplib.run_harness(['expr-lint', fin, fout])
        o = vplib.read_jsonl(fout)[0]
        for s in o['sites']:
            if s['site'] == rp['where']:
                problem = lint_verdict(rp['expected_ok'], o, s)
                print('text %r as %s: %s' % (o['text'], s['site'], problem or 'as the property demands'))
                return 1 if problem else 0
        print('site not rendered')
        return 2
    if rp['kind'] == 'if':
        vplib.write_jsonl(fin, [{'id': 0, 's': rp['s'], 'rot': rp['rot'], 'only': rp['only']}])
        vplib.run_harness(['expr-if', fin, fout])
        runs = vplib.read_jsonl(fout)[0]['runs']
        if len(runs) != 1:
            print('the rendering %s is not available for this value' % rp['only'])
            return 2
        run = runs[0]
        if_usable(run)
        print('%s-level if: %s (%s): %d syntax diagnostic(s) %r, %d of the expression rule, inside=%s'
              % (run['level'], json.dumps(run['text']), run['style'], run['nsyntax'], run['msgs'], run['nexpr'], run['inside']))
        _, _, mism, drift = judge(trace_line(run) + '\n', name='replay')
        print('property violated (%s)' % mism[0][1] if mism else 'property holds', '(model drift)' if drift and not mism else '')
        return 1 if mism else 0
    if rp['kind'] == 'lex':
        vplib.write_jsonl(fin, [{'id': 0, 's': rp['s'], 'rot': rp['rot']}])
        vplib.run_harness(['expr-lex-vectors', fin, fout, '1'])
    else:
        vplib.write_jsonl(fin, [{'id': 0, 'ts': rp['ts'], 'rot': rp['rot'], 'variant': rp['variant']}])
        vplib.run_harness(['expr-parse-vectors', fin, fout])
    run = vplib.read_jsonl(fout)[0]['runs'][0]
    if run.get('panic') or run.get('note'):
        print('input %s: %s' % (run['text'], run.get('panic') or run.get('note')))
        return 1
    if rp['kind'] == 'lex':
        print('input %s: real tokens=%s err=%s off=%s %s' % (run['text'], [(t['k'], t['off']) for t in run['toks']],
                                                           run['err'], run['off'], run['msg']))
    else:
        print('input %r: real ok=%s errAt=%s %s' % (run['text'], run['ok'], run['errAt'], run['msg']))
    _, _, mism, drift = judge(trace_line(run) + '\n', name='replay')
    print('property violated (%s)' % mism[0][1] if mism else 'property holds', '(model drift)' if drift and not mism else '')
    return 1 if mism else 0
