"""C09 - jobs, steps and expressions are checked independently (no state leaks).

E: TLC checks the visitor model of Scope.tla (per-rule state records with their reset points) on every
   runner / job-shell / workflow-shell configuration and every job order: all per-job state is initial
   at every job entry (EntryClean), the shell state in force at a run: step is the one the text
   determines (ShellAgrees), scopes agree (ScopeAgrees).
G: relational, two real outputs.  TLC (Compose.tla) enumerates compositions - histories of state-bearing
   constructs before/after a subject - at three levels: job (predecessor jobs x subject job x header x
   insertion position), step (predecessor steps x subject step) and expression (predecessor expression
   placed in ANOTHER string x subject expression).  TLC (Scope.tla) also supplies workflow shapes with
   needs / matrix / step ids carrying one reference; every job of a shape is a subject.  The harness
   lints the composed workflow and the reduced one (subject + header + the jobs it needs / the ids of
   earlier steps) and the check compares the subject's multiset of (relative line, column, kind,
   message).  shellcheck / pyflakes are replaced by stand-ins that echo the shell they were given, which
   makes the shell state of those rules observable.
"""
import json
import os
import random

import vplib
from vplib import Inconclusive

LEVEL = 'model_checking'


def read_vectors(path):
    out = []
    pre = '/\\ tc = "'
    with open(path, encoding='utf-8') as f:
        for line in f:
            if line.startswith(pre) and not line.startswith(pre + '"'):
                out.append(json.loads(json.loads(line[len(pre) - 1:])))
    return out


def violation_site(v, differs_only_after):
    if v['lvl'] == 'expr':
        st = v['states'][0]
    else:
        before = v['states'][:v['pos']]
        st = '+'.join(sorted(set(before))) if before else 'later:' + '+'.join(sorted(set(v['states'])))
        if set(before) == {'none'}:      # the predecessor bears no named state: name the state the subject depends on
            st = 'into-' + v.get('sstate', '?')
    return '%s-leak:%s' % (v['lvl'], st)


def outcome_key(o):
    return '\n'.join(o)


def compare(o):
    """-> None if equal, else (composed outcome, reduced outcome)"""
    red = {outcome_key(x) for x in o['reduced']}
    for c in o['composed']:
        if outcome_key(c) not in red:
            return c, o['reduced'][0]
    return None


def run_compose(sd, vecs, reps):
    inp = [dict(v, id=i) for i, v in enumerate(vecs)]
    vplib.write_jsonl(os.path.join(sd, 'cin.jsonl'), inp)
    vplib.run_harness(['compose-run', os.path.join(sd, 'cin.jsonl'), os.path.join(sd, 'cout.jsonl'), str(reps)], timeout=3000)
    return vplib.read_jsonl(os.path.join(sd, 'cout.jsonl'))


def run_reduce(sd, vecs):
    inp = [{'id': i, 'sh': v['sh'], 'site': v['site'], 'ref': v['ref'], 'sp': v.get('sp', {})} for i, v in enumerate(vecs)]
    vplib.write_jsonl(os.path.join(sd, 'rin.jsonl'), inp)
    vplib.run_harness(['scope-reduce', os.path.join(sd, 'rin.jsonl'), os.path.join(sd, 'rout.jsonl')], timeout=3000)
    return vplib.read_jsonl(os.path.join(sd, 'rout.jsonl'))


def run(ck, tier):
    sd = vplib.subdir('c09')
    # E: rule state model
    for cfg, what in ([('Scope_rules_q.cfg', 'rule state: runs-on x job shell x workflow shell, <=2 jobs, every job order')]
                      if tier == 'quick' else
                      [('Scope_rules_t.cfg', 'rule state: runs-on x job shell x workflow shell, <=3 jobs, every job order')]):
        r = vplib.run_tlc('Scope', cfg, timeout=3000)
        ck.add_tlc('Scope %s' % what, r)
        if r.violated:
            raise Inconclusive('specification Scope.tla violates %s under %s (model level)' % (r.violated, cfg))
    # G1: catalogue compositions
    comps = []
    for cfg, what in ([('Compose_quick.cfg', 'pairs at job/step/expression level, headers on demand')] if tier == 'quick' else
                      [('Compose_pairs.cfg', 'pairs at job/step/expression level under every header'),
                       ('Compose_triples.cfg', 'two predecessors/successors at job and step level')]):
        r = vplib.run_tlc('Compose', cfg, dump='vectors', timeout=3000)
        ck.add_tlc('Compose %s' % what, r)
        if r.violated:
            raise Inconclusive('specification Compose.tla violates %s under %s (model level)' % (r.violated, cfg))
        comps += read_vectors(os.path.join(r.dir, 'vectors.dump'))
    seen = set()
    uniq = []
    for v in comps:
        key = json.dumps(v, sort_keys=True)
        if key not in seen:
            seen.add(key)
            uniq.append(v)
    rng = random.Random(vplib.seed())
    rng.shuffle(uniq)
    if len(uniq) > 400000:       # the triples are sampled (seeded); pairs and self pairs are all kept
        uniq = [v for v in uniq if len(v['preds']) < 2] + [v for v in uniq if len(v['preds']) >= 2][:350000]
        rng.shuffle(uniq)
    outs = run_compose(sd, uniq, 2)
    if len(outs) != len(uniq):
        raise Inconclusive('harness returned %d results for %d compositions' % (len(outs), len(uniq)))
    nontrivial = 0
    lints = 0
    unstable = 0
    for o in outs:
        v = uniq[o['id']]
        if o['other']:
            raise Inconclusive('composition %s not understood: %r' % (v, o['other'][:3]))
        lints += 4
        if len(o['reduced']) > 1:
            unstable += 1
        if any(o['reduced'][0]):
            nontrivial += 1
        d = compare(o)
        if d is not None:
            site = violation_site(v, False)
            only_c = sorted(set(d[0]) - set(d[1]))
            only_r = sorted(set(d[1]) - set(d[0]))
            ck.violation(site,
                         '%s %r checked after/with %s (%s, header %s, config %s): its diagnostics differ from those in the reduced workflow. '
                         'only in the composed workflow: %s; only in the reduced workflow: %s'
                         % (v['lvl'], v['subj'], v['preds'], v['place'] or 'position %d' % v['pos'], v['hdr'], v.get('cfg', 'none'), only_c, only_r),
                         {'kind': 'compose', 'lvl': v['lvl'], 'hdr': v['hdr'], 'cfg': v.get('cfg', 'none'), 'subj': v['subj'], 'preds': v['preds'],
                          'states': v['states'], 'sstate': v.get('sstate', ''), 'pos': v['pos'], 'place': v['place'], 'tools': v['tools'],
                          'pred': v['preds'][0], 'only_composed': only_c, 'only_reduced': only_r,
                          'src_composed': o['src_composed'], 'src_reduced': o['src_reduced']})
    if outs and outs[0].get('global_changed'):
        ck.note('a process-global type table differs after the batch of compositions (attributed below if a single entry does it)')
        batch_changed = True
    else:
        batch_changed = False
    # G1b: process-global type tables.  Composed and reduced workflows are linted in one process, so an entry that
    # edits BuiltinGlobalVariableTypes / BuiltinFuncSignatures would change both alike: every catalogue entry is
    # linted alone in a fresh process and the tables are dumped before and after (two real observations).
    items = sorted({(v['lvl'], n) for v in uniq for n in [v['subj']] + v['preds']})
    iin = [{'lvl': l, 'name': n, 'hdr': h} for (l, n) in items for h in (('push', 'pydefault', 'call', 'callx') if l == 'job' else ('push',))]
    vplib.write_jsonl(os.path.join(sd, 'iin.jsonl'), iin)
    vplib.run_harness(['compose-items', os.path.join(sd, 'iin.jsonl'), os.path.join(sd, 'iout.jsonl')], timeout=1800)
    blamed = 0
    for o in vplib.read_jsonl(os.path.join(sd, 'iout.jsonl')):
        if o['other']:
            raise Inconclusive('catalogue entry %s/%s not understood: %r' % (o['lvl'], o['name'], o['other'][:2]))
        lints += 1
        if o['changed']:
            blamed += 1
            ck.violation('global-leak:%s' % o['name'],
                         'linting the %s entry %r alone (header %s) changes a process-global type table, so every expression '
                         'checked later in the process is typed differently: %s' % (o['lvl'], o['name'], o['hdr'], o['changed'][:3]),
                         {'kind': 'global', 'lvl': o['lvl'], 'name': o['name'], 'hdr': o['hdr'], 'changed': o['changed'][:10],
                          'src_composed': o['src']})
    ck.cov['catalogue_entries_checked_for_global_effects'] = len(iin)
    if batch_changed and not blamed:
        raise Inconclusive('a process-global type table changed during the compositions but no single catalogue entry does it')
    # binding self-test: a reduced workflow that drops something the subject DOES depend on must be told apart
    st = run_compose(sd, [{'lvl': 'step', 'hdr': 'push', 'subj': 'refs', 'preds': ['id-a'], 'states': ['steps'], 'pos': 1,
                           'place': '', 'tools': False, 'nostub': True}], 1)[0]
    ck.cov['binding_selftest'] = 'rejected' if (not st['other'] and compare(st) is not None) else 'NOT rejected'
    if ck.cov['binding_selftest'] != 'rejected':
        raise Inconclusive('binding self-test failed: %r' % st)
    # G2: shapes of Scope.tla, every job against its reduced workflow
    r = vplib.run_tlc('Scope', 'Scope_c09.cfg', dump='vectors', timeout=3000)
    ck.add_tlc('Scope shapes for reduction: 3 jobs x needs graph x matrix x step id, one reference in a run: step', r)
    if r.violated:
        raise Inconclusive('specification Scope.tla violates %s under Scope_c09.cfg (model level)' % r.violated)
    shapes = [v for v in read_vectors(os.path.join(r.dir, 'vectors.dump')) if len(v['sh']['jobs']) >= 2]
    rng.shuffle(shapes)
    shapes = shapes[:3000 if tier == 'quick' else 40000]
    r = vplib.run_tlc('Scope', 'Scope_jobsites.cfg', dump='vectors', timeout=3000)
    ck.add_tlc('Scope shapes for reduction: 2 jobs normal / reusable-workflow call with matrix and needs, job-level sites', r)
    if r.violated:
        raise Inconclusive('specification Scope.tla violates %s under Scope_jobsites.cfg (model level)' % r.violated)
    more = [v for v in read_vectors(os.path.join(r.dir, 'vectors.dump')) if len(v['sh']['jobs']) >= 2]
    rng.shuffle(more)
    shapes += more[:3000 if tier == 'quick' else 40000]
    routs = run_reduce(sd, shapes)
    rsubjects = 0
    for o in routs:
        v = shapes[o['id']]
        if o['other']:
            raise Inconclusive('shape reduction not understood: %r\n%s' % (o['other'][:3], o['src_full']))
        if o['trivial']:
            continue
        rsubjects += 1
        lints += 2 * len(o['full'])
        if any(o['reduced'][0]):
            nontrivial += 1
        red = {outcome_key(x) for x in o['reduced']}
        for c in o['full']:
            if outcome_key(c) not in red:
                only_c = sorted(set(c) - set(o['reduced'][0]))
                only_r = sorted(set(o['reduced'][0]) - set(c))
                ck.violation('shape-leak:%s' % v['ref']['ctx'],
                             'job j%d of a generated shape: diagnostics differ between the whole workflow and the one '
                             'reduced to jobs %s. only whole: %s; only reduced: %s' % (o['job'], o['kept'], only_c, only_r),
                             {'kind': 'shape', 'sh': v['sh'], 'site': v['site'], 'ref': v['ref'], 'job': o['job'],
                              'ctx': v['ref']['ctx'], 'only_composed': only_c, 'only_reduced': only_r,
                              'src_composed': o['src_full'], 'src_reduced': o['src_reduced']})
                break
    ck.cov['evaluations'] += lints
    ck.cov['traces_validated_against_impl'] += len(outs) + rsubjects
    ck.cov['distinct_nontrivial'] += nontrivial
    ck.cov['compositions'] = len(uniq)
    ck.cov['compositions_by_level'] = {l: sum(1 for v in uniq if v['lvl'] == l) for l in ('job', 'step', 'expr')}
    ck.cov['compositions_with_tool_standins'] = sum(1 for v in uniq if v['tools'])
    ck.cov['shape_subjects'] = rsubjects
    ck.cov['reduced_outputs_unstable'] = unstable
    ck.cov['rule'] = ('every composition of the TLC state space is materialised and linted twice, composed and reduced; every job '
                      'of the sampled shapes is compared under every textual order; non-trivial = the subject has at least '
                      'one diagnostic in the reduced workflow')
    ck.cov['exhaustive'] = True
    for o in outs[:400]:
        if o['reduced'] and o['reduced'][0] and len(ck.cov['samples']) < 4:
            v = uniq[o['id']]
            ck.sample({'composition': {k: v[k] for k in ('lvl', 'hdr', 'subj', 'preds', 'pos', 'place')},
                       'subject_diagnostics': o['reduced'][0][:3]})
    ck.assumptions += [
        'jobs are visited in source order (pass.go), so the textual order of a composition is its visiting order; every '
        'insertion position of the subject is enumerated',
        'reusable workflows and actions are remote or bundled (no local callee files); a job in a needs cycle is compared '
        'together with the cycle; the reduced workflow keeps the transitive closure of needs',
        'absolute positions quoted inside messages ("line:N,col:M") are line offsets and are masked',
        'shellcheck / pyflakes are stand-ins that report the shell and a hash of the script they received',
        'catalogue: %d job, %d step and %d expression constructs named in Compose.tla, texts in harness compose.go'
        % (60, 16, 19)]


def replay(path):
    rp = json.load(open(path))['replay']
    sd = vplib.subdir('c09r')
    if rp['kind'] == 'global':
        vplib.write_jsonl(os.path.join(sd, 'iin.jsonl'), [{'lvl': rp['lvl'], 'name': rp['name'], 'hdr': rp['hdr']}])
        vplib.run_harness(['compose-items', os.path.join(sd, 'iin.jsonl'), os.path.join(sd, 'iout.jsonl')])
        o = vplib.read_jsonl(os.path.join(sd, 'iout.jsonl'))[0]
        print(o['src'])
        print('changed entries of the global type tables:', o['changed'])
        return 1 if o['changed'] else 0
    if rp['kind'] == 'compose':
        v = {k: rp[k] for k in ('lvl', 'hdr', 'subj', 'preds', 'states', 'pos', 'place', 'tools')}
        v['cfg'] = rp.get('cfg', 'none')
        o = run_compose(sd, [v], 4)[0]
        print(o['src_composed'])
        print('--- reduced ---')
        print(o['src_reduced'])
        print('composed:', o['composed'])
        print('reduced :', o['reduced'])
        if o['other']:
            print('other:', o['other'])
            return 0
        return 0 if compare(o) is None else 1
    outs = [o for o in run_reduce(sd, [rp]) if o['job'] == rp['job']]
    o = outs[0]
    print(o['src_full'])
    print('--- reduced ---')
    print(o['src_reduced'])
    print('whole  :', o['full'])
    print('reduced:', o['reduced'])
    red = {outcome_key(x) for x in o['reduced']}
    return 1 if any(outcome_key(c) not in red for c in o['full']) else 0
