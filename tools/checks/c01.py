"""C01 - no input makes actionlint panic, crash or hang.

E: TLC checks spec/Robust.tla (cfg Robust_total): the design's handling of (schema position type x node kind x
   explicit tag) is a TOTAL case analysis on all four channels (CASE without OTHER over every type of the four
   channel schemas), an alias is never silently accepted by the hand-written parser, the channel bases are typed
   by their schemas.  spec/RobustScan.tla: the placeholder scan of checkExprsIn advances on every iteration and
   stays inside the string, for all strings over {$ { } a} up to the bound (Progress, InBounds, Bounded).
G: TLC enumerates the C01 mutation space over the base documents (every node x replacement kind scalar / sequence /
   mapping / alias / anchored / tagged / merge key / key / nesting / long repetition / `${{`-fragments / whole
   documents, x explicit tag x value class of the scalar domain) with the predicted outcome class.  The harness
   renders each vector (render.go + fragments), lays it out as a repository of the channel (workflow file; local
   action.yml reached through a caller; local reusable workflow reached through a caller; .github/actionlint.yaml
   or -config-file) and runs actionlint.Command.Main on it in CHILD PROCESSES in batches.  A Go panic / fatal
   error / crash / stalled worker names one input, which is re-run alone three times before it is reported.
   Checked: exit status in {0, 1, 3}, no panic, wall time per input <= 2 s, and the spec's stronger prediction
   (node-kind / tag mismatch => at least one diagnostic; broken configuration => exit 3).
T: a seeded byte-level driver (bit flips, truncation, splicing, special tokens / random UTF-8 / invalid bytes / NUL
   at token boundaries; seeds: the rendered bases and testdata/ok, testdata/examples of the repository) records
   (channel, input hash, outcome, ms); spec/RobustTrace.tla accepts a record iff outcome is allowed and ms <= 2000.
Level: exploration (whether Go code panics on a byte string is decided only by executing it).
"""
import base64
import collections
import json
import os
import re
import shutil
import subprocess
import tempfile

import vplib
from vplib import Inconclusive

LEVEL = 'exploration'
OK_OUTCOMES = ('clean', 'diag', 'fatal')
WF = '.github/workflows/w.yml'
DISABLE = ['-shellcheck=', '-pyflakes=']


def site_str(site):
    return '.'.join(site).replace('.[]', '[]') or '<root>'


def b64(s):
    return base64.b64encode(s if isinstance(s, bytes) else s.encode()).decode()


def stack_top(stderr):
    """innermost frame that belongs to actionlint: of the panicking goroutine, or, for a hang, of a goroutine that
    is blocked in a system call / IO rather than waiting for other goroutines"""
    blocks = re.split(r'\n(?=goroutine \d+ \[)', stderr)
    blocks = [b for b in blocks if b.startswith('goroutine ') and 'rbChildMain.func1' not in b] or [stderr]

    def rank(b):
        st = re.match(r'goroutine \d+ \[([^\],]*)', b)
        st = st.group(1) if st else ''
        return 0 if st in ('running', 'syscall', 'IO wait', 'runnable') else 1
    blocks.sort(key=rank)
    fallback = None
    for b in blocks:
        frames = re.findall(r'^([\w./%*()\-]+)\(.*\)\n\t(\S+):(\d+)', b, re.M)
        frames = [(f, p, l) for f, p, l in frames if not f.startswith(('panic', 'runtime.', 'reflect.', 'main.'))
                  and 'handleErr' not in f]
        own = [(f, p, l) for f, p, l in frames if 'rhysd/actionlint' in f and '(*Command)' not in f]
        if own:
            f, p, l = own[0]
            return '%s (%s:%s)' % (f.split('/')[-1], os.path.basename(p), l)
        if frames and fallback is None:
            fallback = frames[0]
    if fallback:
        return '%s (%s:%s)' % (fallback[0].split('/')[-1], os.path.basename(fallback[1]), fallback[2])
    return '?'


GENERIC = re.compile(r'Linter\)|Visitor\)|Command\)|\)\.Visit|errgroup|\.func\d|^main\.')


def hang_chain(stderr):
    """call chain (innermost first) of the goroutine that stack_top picks, without the generic outer frames"""
    blocks = re.split(r'\n(?=goroutine \d+ \[)', stderr)
    blocks = [b for b in blocks if b.startswith('goroutine ') and 'rbChildMain.func1' not in b]

    def rank(b):
        st = re.match(r'goroutine \d+ \[([^\],]*)', b)
        return 0 if st and st.group(1) in ('running', 'syscall', 'IO wait', 'runnable') else 1
    blocks.sort(key=rank)
    for b in blocks:
        frames = re.findall(r'^([\w./%*()\-]+)\(.*\)\n\t\S+:\d+', b, re.M)
        own = [f.split('/')[-1] for f in frames if 'rhysd/actionlint' in f]
        own = [f for f in own if not GENERIC.search(f)]
        if own:
            return own
    return []


def panic_line(stderr):
    m = re.search(r'^(panic: .*|fatal error: .*|HANG id=.*)$', stderr, re.M)
    return m.group(1)[:300] if m else stderr.strip().split('\n')[0][:300]


def main_file(case):
    if case.get('out'):
        return sorted(case['out'])[0]
    for k in ('act/action.yml', '.github/workflows/callee.yml', '.github/actionlint.yaml', 'cfg/custom.yaml', WF):
        if k in case['files']:
            return k
    return sorted(case['files'])[0]


def show_input(case, limit=1500):
    b = base64.b64decode((case.get('out') or case['files']).get(main_file(case)) or case['files'][main_file(case)])
    t = b.decode('utf-8', 'backslashreplace')
    return '%s (%d bytes):\n%s' % (main_file(case), len(b), t if len(t) <= limit else t[:limit] + '\n... [cut]')


class Judge:
    """Collects the verdicts; failures are grouped so that one defect is one violation."""

    def __init__(self, ck):
        self.ck = ck
        self.fail = collections.OrderedDict()     # site -> (what, replay, count)
        self.unconfirmed = []
        self.drift = collections.Counter()
        self.drift_ex = {}
        self.outcomes = collections.Counter()
        self.unmaterialised = collections.Counter()
        self.nontrivial = 0
        self.evaluated = 0
        self.maxms = 0
        self.slow = []
        self.hangs = []
        self.slowfind = []

    def failure(self, rec, where, vec=None):
        case = rec['case']
        top = stack_top(rec.get('stderr', '')) if rec['o'] in ('panic', 'crash', 'hang') else rec['o']
        site = '%s:%s:%s' % (rec['o'], rec['c'], top.split(' (')[0])
        what = ('%s on channel %s (%s): %s; stack top %s; alone: %s\ncommand line: %s\ninput %s'
                % (rec['o'].upper(), rec['c'], where, panic_line(rec.get('stderr', '')), top, rec.get('alone'),
                   ' '.join(case['args']), show_input(case)))
        if rec.get('confirmed', 0) < 3:
            self.unconfirmed.append((site, what, rec))
            return
        if rec['o'] == 'hang':
            self.hangs.append((hang_chain(rec.get('stderr', '')), what, rec, where, vec, top))
            return
        if site in self.fail:
            self.fail[site][2] += 1
            return
        self.fail[site] = [what, {'kind': 'case', 'outcome': rec['o'], 'channel': rec['c'], 'stack_top': top,
                                  'where': where, 'case': case, 'stderr': rec.get('stderr', '')[:4000],
                                  'vector': vec_brief(vec)}, 1]

    def undiagnosed(self, rec, vec, case_src):
        site = 'undiagnosed:%s:%s' % (vec['ch'], site_str(vec['site']))
        if site in self.fail:
            self.fail[site][2] += 1
            return
        self.fail[site] = ['malformed input is neither diagnosed nor a fatal error: channel %s, position %s (schema type %s), '
                           'mutation %s/%s: the specification predicts %s, observed %s\n%s'
                           % (vec['ch'], site_str(vec['site']), vec['tk'], vec['mut'], vec['label'], vec['exp'], rec['o'],
                              case_src),
                           {'kind': 'undiagnosed', 'channel': vec['ch'], 'position': site_str(vec['site']), 'exp': vec['exp'],
                            'vector': vec, 'observed': rec['o']}, 1]

    def record(self, rec, where, vec=None):
        """one completed or failed execution; returns True if it completed normally"""
        if rec.get('err'):
            if not rec['err'].startswith('n/a'):          # shape without a meaning on this channel
                self.unmaterialised[rec['err'][:60]] += 1
            return False
        self.evaluated += 1
        self.outcomes[(rec['c'], rec['o'])] += 1
        if rec.get('case') is not None:
            if rec['o'] == 'slow' and rec.get('confirmed', 0) == 3:
                # terminates, but only far beyond the per-input limit: reported, not a violation of the property
                top = stack_top(rec.get('stderr', ''))
                self.slowfind.append('%s: %s terminates only after %s ms (limit %d ms; runs alone: %s); busy in %s; '
                                     'command line: %s; input %s' % (rec['c'], where, rec.get('ms'), 2000, rec.get('alone'), top,
                                                                     ' '.join(rec['case']['args']), show_input(rec['case'], 300)))
                return False
            self.failure(rec, where, vec)
            return False
        self.maxms = max(self.maxms, rec.get('ms', 0))
        if rec.get('ms', 0) >= 250:
            self.slow.append((rec['ms'], rec['c'], where))
        return True

    def cluster_hangs(self):
        """hanging inputs stopped at different leaves of the same loop are one finding: the site is the innermost
        frame that occurs on all their call chains"""
        clusters = []       # [common suffix, members]
        for h in self.hangs:
            chain = h[0]
            for c in clusters:
                both = [f for f in c[0] if f in chain]      # frames (innermost first) on every call chain
                if both and c[1][0][2]['c'] == h[2]['c']:
                    c[0] = both
                    c[1].append(h)
                    break
            else:
                clusters.append([list(chain), [h]])
        for common, members in clusters:
            chain, what, rec, where, vec, top = members[0]
            frame = common[0] if common else top.split(' (')[0]
            site = 'hang:%s:%s' % (rec['c'], frame)
            self.fail[site] = [what, {'kind': 'case', 'outcome': 'hang', 'channel': rec['c'], 'stack_top': top,
                                      'where': where, 'case': rec['case'], 'stderr': rec.get('stderr', '')[:4000],
                                      'vector': vec_brief(vec)}, len(members)]

    def finish(self):
        self.cluster_hangs()
        for t in self.slowfind[:5]:
            self.ck.note('SLOW input (bounded, so not a violation; far beyond the 2 s limit): ' + t)
        if self.slowfind:
            self.ck.cov['slow_inputs_found'] = len(self.slowfind)
        for site, (what, replay, n) in self.fail.items():
            self.ck.violation(site, what + ('\n(%d inputs of this run fail the same way)' % n if n > 1 else ''), replay)
        for k, n in sorted(self.drift.items()):
            self.ck.note('model drift (%d inputs): %s, e.g. %s' % (n, k, self.drift_ex[k]))
        if self.unconfirmed and not self.fail:
            site, what, rec = self.unconfirmed[0]
            if any(r['o'] != 'hang' for _, _, r in self.unconfirmed):
                raise Inconclusive('%d failure(s) did not reproduce alone three times, e.g. %s' % (len(self.unconfirmed), what))
        for site, what, rec in self.unconfirmed[:5]:
            self.ck.note('not confirmed when run alone (%s): %s' % (rec.get('alone'), what[:600]))


def vec_brief(v):
    if not v:
        return None
    return {k: v.get(k) for k in ('ch', 'b', 'path', 'site', 'mut', 'label', 'exp', 'tk', 'dom', 'mode', 'fmt', 'layout')}


# ------------------------------------------------------------------------------------------ E

def design(ck, tier):
    r = vplib.run_tlc('Robust', 'Robust_total.cfg', workers=1, timeout=600)
    ck.add_tlc('Robust: handling of (position type x node kind x tag) is total on the four channels; bases typed', r)
    if r.violated or not r.ok:
        raise Inconclusive('Robust.tla: the design-level invariant %s fails (model level)' % r.violated)


def scan(ck, tier, sd, jd):
    cfg = 'RobustScan_quick.cfg' if tier == 'quick' else 'RobustScan_thorough.cfg'
    r = vplib.run_tlc('RobustScan', cfg, dump='vectors', timeout=1800)
    ck.add_tlc('RobustScan: the placeholder scan advances, stays in bounds and terminates for every string (%s)' % cfg, r)
    if r.violated:
        raise Inconclusive('RobustScan.tla violates %s (model level)' % r.violated)
    vs = vplib.read_dump_json(os.path.join(r.dir, 'vectors.dump'))
    if len(vs) != r.distinct:
        raise Inconclusive('RobustScan dump has %d states, TLC reported %d' % (len(vs), r.distinct))
    for i, v in enumerate(vs):
        v['id'] = i
    vplib.write_jsonl(os.path.join(sd, 'scan-in.jsonl'), vs)
    p = vplib.run_harness(['robust-scan', os.path.join(sd, 'scan-in.jsonl'), os.path.join(sd, 'scan-out.jsonl')],
                          timeout=1800, check=False)
    if p.returncode != 0:
        m = re.search(r'HANG id=(\d+)', p.stderr.decode('utf-8', 'replace'))
        if m:
            v = vs[int(m.group(1))]
            text = ''.join(v['s']).replace('a', '1')
            src = 'on: push\nenv:\n  V: "%s"\njobs:\n  j:\n    runs-on: ubuntu-latest\n    steps:\n      - run: echo\n' % text
            rec = run_cases(sd, [make_case(0, 'workflow', {WF: src}, DISABLE + ['{ROOT}/' + WF])], 'scanhang')[0]
            if jd.record(rec, 'placeholder scan string %r' % text):
                raise Inconclusive('the scan of %r stalled inside the harness but not in a child process' % text)
            return
        raise Inconclusive('robust-scan failed: ' + p.stderr.decode('utf-8', 'replace')[-2000:])
    outs = vplib.read_jsonl(os.path.join(sd, 'scan-out.jsonl'))
    if len(outs) != len(vs):
        raise Inconclusive('robust-scan returned %d records for %d strings' % (len(outs), len(vs)))
    bad = [(v, o) for v, o in zip(vs, outs) if o['other']]
    if bad:
        raise Inconclusive('scan vector produced an unexpected diagnostic: %r: %s' % (bad[0][1]['text'], bad[0][1].get('msg')))
    nd = 0
    for v, o in zip(vs, outs):
        jd.maxms = max(jd.maxms, o['ms'])
        if o['err'] != v['err']:
            nd += 1
            jd.drift['placeholder scan: error predicted %s, observed %s' % (v['err'], o['err'])] += 1
            jd.drift_ex.setdefault('placeholder scan: error predicted %s, observed %s' % (v['err'], o['err']), repr(o['text']))
    ck.cov['scan_strings'] = len(vs)
    ck.cov['evaluations'] += len(vs)
    ck.cov['distinct_nontrivial'] += sum(1 for v in vs if v['n'] >= 1 or v['err'])
    return len(vs)


# ------------------------------------------------------------------------------------------ G

def make_case(i, chan, files, args):
    return {'id': i, 'chan': chan, 'files': {k: b64(v) for k, v in files.items()}, 'args': args}


def run_cases(sd, cases, name, env=None):
    vplib.write_jsonl(os.path.join(sd, name + '-cases.jsonl'), cases)
    vplib.run_harness(['robust-cases', os.path.join(sd, name + '-cases.jsonl'), os.path.join(sd, name + '-out.jsonl')],
                      timeout=3000, env=env)
    outs = vplib.read_jsonl(os.path.join(sd, name + '-out.jsonl'))
    if len(outs) != len(cases):
        raise Inconclusive('robust-cases returned %d records for %d cases' % (len(outs), len(cases)))
    return outs


def generate(ck, cfg, label):
    r = vplib.run_tlc('Robust', cfg, dump='vectors', timeout=3000, name='Robust-' + cfg)
    ck.add_tlc(label, r)
    if r.violated:
        raise Inconclusive('Robust.tla violates %s under %s (model level)' % (r.violated, cfg))
    vs = vplib.read_dump_json(os.path.join(r.dir, 'vectors.dump'))
    if len(vs) != r.distinct:
        raise Inconclusive('dump has %d states, TLC reported %d (%s)' % (len(vs), r.distinct, cfg))
    exp = [v for v in vs if v['prop'] == 'export']
    if len(exp) != 1:
        raise Inconclusive('no export state in the dump of %s' % cfg)
    vecs = [v for v in vs if v['prop'] == 'C01']
    vecs.sort(key=lambda v: json.dumps(v, sort_keys=True))
    return exp[0], vecs


def run_vectors(sd, export_path, vecs, name):
    for i, v in enumerate(vecs):
        v['id'] = i
    vplib.write_jsonl(os.path.join(sd, name + '-in.jsonl'), vecs)
    vplib.run_harness(['robust-run', export_path, os.path.join(sd, name + '-in.jsonl'), os.path.join(sd, name + '-out.jsonl')],
                      timeout=6000)
    outs = vplib.read_jsonl(os.path.join(sd, name + '-out.jsonl'))
    if len(outs) != len(vecs) or any(o['id'] != i for i, o in enumerate(outs)):
        raise Inconclusive('robust-run returned %d records for %d vectors' % (len(outs), len(vecs)))
    return outs


def source_of(sd, export_path, vec):
    vplib.write_jsonl(os.path.join(sd, 'src-in.jsonl'), [vec])
    vplib.run_harness(['robust-src', export_path, os.path.join(sd, 'src-in.jsonl'), os.path.join(sd, 'src-out.jsonl')])
    return vplib.read_jsonl(os.path.join(sd, 'src-out.jsonl'))[0].get('src', '')


def judge_vectors(jd, sd, export_path, vecs, outs, allowed_prop):
    for v, o in zip(vecs, outs):
        where = 'position %s, mutation %s/%s' % (site_str(v['site']), v['mut'], v['label'])
        if not jd.record(o, where, v):
            continue
        if o['o'] not in allowed_prop:
            raise Inconclusive('unclassified outcome %r' % o['o'])
        if v.get('pair'):
            continue
        if v['exp'] != 'any':
            jd.nontrivial += 1
        if o['o'] not in v['allowed']:
            k = 'outcome %s on channel %s is outside the design table Allowed' % (o['o'], v['ch'])
            jd.drift[k] += 1
            jd.drift_ex.setdefault(k, where)
        if v.get('mode') == 'dirty':
            # the linted workflow has a diagnostic of its own (so that `ignore` patterns are applied): only the
            # outcome class is judged
            continue
        if v['exp'] in ('diag', 'fatal') and o['o'] == 'clean':
            jd.undiagnosed(o, v, source_of(sd, export_path, v)[:1500])
        elif v['exp'] == 'fatal' and o['o'] != 'fatal':
            k = 'fatal configuration error predicted, observed %s at %s' % (o['o'], site_str(v['site']))
            jd.drift[k] += 1
            jd.drift_ex.setdefault(k, where)


def variants(vecs, tier, seed):
    """channel modes, output formats and layouts are spread over the vectors (deterministic in the seed)"""
    fmts = ['', '', 'oneline', 'json', 'sarif']
    for n, v in enumerate(vecs):
        k = n + seed
        v['fmt'] = fmts[k % len(fmts)]
        v['layout'] = (k // 5) % 4 if not v.get('raw') else 0
        v['mode'] = ''
        if v['ch'] == 'reusable' and k % 3 == 0:
            v['mode'] = 'both'
        if v['ch'] == 'config' and k % 2 == 0:
            v['mode'] = 'flag'


def pairs(vecs, n, rng):
    """two single mutations of the same base in different subtrees; the only expectation kept is the allowed set"""
    by = collections.defaultdict(list)
    for v in vecs:
        if v['path'] and not v['raw'] and v['mut'] not in ('alias', 'merge', 'long'):
            by[(v['ch'], v['b'])].append(v)
    keys = sorted(by)
    out = []
    tries = 0
    while len(out) < n and tries < 20 * n:
        tries += 1
        lst = by[keys[rng.randrange(len(keys))]]
        a, b = lst[rng.randrange(len(lst))], lst[rng.randrange(len(lst))]
        pa, pb = a['path'], b['path']
        m = min(len(pa), len(pb))
        if pa[:m] == pb[:m]:
            continue        # one inside the other (or its parent entry for key mutations)
        rn = lambda s: s.replace('VERIFHOLE1', 'VERIFHOLE7').replace('VERIFKEY1', 'VERIFKEY7')
        b2 = json.loads(rn(json.dumps({'ops': b['ops'], 'holes': b['holes'], 'decos': b['decos']})))
        out.append(dict(a, ops2=b2['ops'], holes2=b2['holes'], decos2=b2['decos'], pair=True, exp='any',
                        label=a['label'] + '+' + b['mut'] + '/' + b['label'],
                        allowed=sorted(set(a['allowed']) & set(b['allowed']))))
    return out


# ----------------------------------------------------------------------- fixed regression inputs

def wf_with(job_extra='', step_extra='', on='on: push'):
    return ('%s\njobs:\n  j:\n    runs-on: ubuntu-latest\n%s    steps:\n      - run: echo\n%s' % (on, job_extra, step_extra))


CALLER = ('on: push\njobs:\n  c:\n    uses: ./.github/workflows/callee.yml\n    with:\n      target: x\n')
CALLEE_NULL_TAG = ('on:\n  workflow_call:\n    inputs:\n      target: !!null\n        type: string\n        required: false\n'
                   'jobs:\n  j:\n    runs-on: ubuntu-latest\n    steps:\n      - run: echo\n')


def regression_cases():
    """inputs that made earlier versions of the pinned tree panic / accept garbage (fixed in /repo); kept forever.
    -> [(case, allowed outcomes, site reported if the outcome is outside)]"""
    srcs = [
        wf_with(job_extra='    timeout-minutes: !!float nan\n'),
        wf_with(step_extra='        timeout-minutes: !!float .nan\n'),
        wf_with(job_extra='    timeout-minutes: !!float NaN\n'),
        wf_with(on="on:\n  schedule:\n    - cron: 'TZ=UTC'"),
        wf_with(on="on:\n  schedule:\n    - cron: 'CRON_TZ=UTC'"),
        wf_with(on="on:\n  schedule:\n    - cron: 'TZ='"),
    ]
    out = [(make_case(i, 'workflow', {WF: s}, DISABLE + ['{ROOT}/' + WF]), ('diag',), 'undiagnosed:workflow:regression')
           for i, s in enumerate(srcs)]
    # `!!null` tagged input mapping of a local reusable workflow (yaml.v3 skips UnmarshalYAML for it)
    out.append((make_case(len(out), 'reusable', {WF: CALLER, '.github/workflows/callee.yml': CALLEE_NULL_TAG},
                          DISABLE + ['{ROOT}/' + WF]), ('clean', 'diag'), 'undiagnosed:reusable:regression'))
    # non-scalar elements of an `ignore:` list used to compile the empty pattern, which ignores every error
    for elem, exp in (('[a]', ('fatal',)), ('{a: b}', ('fatal',)), ('!!str [a]', ('fatal',)), ('*p', ('clean', 'diag'))):
        cfg = 'config-variables:\n  - &p FOO\npaths:\n  "**/*.yml":\n    ignore:\n      - %s\n' % elem
        out.append((make_case(len(out), 'config', {WF: wf_with(), '.github/actionlint.yaml': cfg}, DISABLE + ['{ROOT}/' + WF]),
                    exp, 'undiagnosed:config:paths.*.ignore[]'))
    # `!!null` tagged collections with null children in metadata files (nil map entries / zero regexp)
    act = ('name: a\ndescription: d\ninputs: !!null\n  a: null\noutputs: !!null\n  o: null\nruns:\n  using: composite\n'
           '  steps:\n    - run: echo\n      shell: bash\n')
    actcaller = 'on: push\njobs:\n  j:\n    runs-on: ubuntu-latest\n    steps:\n      - uses: ./act\n        with:\n          undefined: x\n'
    out.append((make_case(len(out), 'action', {WF: actcaller, 'act/action.yml': act}, DISABLE + ['{ROOT}/' + WF]),
                ('clean', 'diag'), 'undiagnosed:action:regression'))
    callee = ('on:\n  workflow_call:\n    inputs: !!null\n      a: null\n    secrets: !!null\n      s: null\n    outputs: !!null\n      o: null\n'
              'jobs:\n  j:\n    runs-on: ubuntu-latest\n    steps:\n      - run: echo\n')
    caller2 = ('on: push\njobs:\n  c:\n    uses: ./.github/workflows/callee.yml\n    with:\n      undefined: x\n    secrets:\n      nosuch: y\n')
    out.append((make_case(len(out), 'reusable', {WF: caller2, '.github/workflows/callee.yml': callee}, DISABLE + ['{ROOT}/' + WF]),
                ('clean', 'diag'), 'undiagnosed:reusable:regression'))
    dirty = wf_with(step_extra='      - run: echo ${{ nosuchcontext.x }}\n')
    for elem in ('!!null [null]', '!!null [{a: b}]', '!!null [[x]]'):
        cfg = 'paths:\n  "**/*.yml":\n    ignore: %s\n' % elem
        out.append((make_case(len(out), 'config', {WF: dirty, '.github/actionlint.yaml': cfg}, DISABLE + ['{ROOT}/' + WF]),
                    ('clean', 'diag', 'fatal'), 'undiagnosed:config:regression'))
    # invalid local reusable workflow call in files that belong to no project (null caches)
    bad = 'on: push\njobs:\n  c:\n    uses: ./foo.yml@main\n'
    c = make_case(len(out), 'workflow', {}, DISABLE + ['{OUT}/a.yml', '{OUT}/b.yml'])
    c['out'] = {'a.yml': b64(bad), 'b.yml': b64(bad)}
    out.append((c, ('clean', 'diag'), 'undiagnosed:workflow:regression'))
    # a called workflow whose `on:` merges itself and has no workflow_call
    selfm = 'on: &a\n  <<: *a\n  push:\njobs:\n  j:\n    runs-on: ubuntu-latest\n    steps:\n      - run: echo\n'
    out.append((make_case(len(out), 'reusable', {WF: CALLER, '.github/workflows/callee.yml': selfm}, DISABLE + ['{ROOT}/' + WF]),
                ('clean', 'diag'), 'undiagnosed:reusable:regression'))
    return out


QUICK_SAMPLE = 2      # quick tier: one of QUICK_SAMPLE vectors of the bulky mutation kinds

TOOLS = ['-shellcheck', '{SELF} robust-tool sc', '-pyflakes', '{SELF} robust-tool py']
BOUND = 64 << 10


def big_script_cases(sizes):
    """`run:` scripts around the pipe-buffer size with stand-in shellcheck / pyflakes enabled"""
    cases = []
    for i, n in enumerate(sizes):
        line = 'echo 0123456789012345678901234567890123456789012345678901234\n'     # 64 bytes
        body = (line * (n // len(line) + 1))[:n]
        ind = ''.join('          ' + l + '\n' for l in body.split('\n') if l)
        for j, shell in enumerate(('bash', 'python')):
            src = ('on: push\njobs:\n  j:\n    runs-on: ubuntu-latest\n    steps:\n      - shell: %s\n        run: |\n%s'
                   % (shell, ind if shell == 'bash' else ind.replace('echo ', 'print(').replace('234\n', '234)\n')))
            cases.append((n, shell, make_case(2 * i + j, 'workflow', {WF: src}, TOOLS + ['{ROOT}/' + WF])))
    return cases


# ------------------------------------------------------------------------------------------ T

def parse_mism(out):
    m = re.search(r'<<\s*"MISM",\s*(\d+),\s*<<(.*?)>>,\s*<<(.*?)>>\s*>>', out, re.S)
    if not m:
        raise Inconclusive('trace validation produced no verdict:\n' + out[-2000:])

    def ints(body):
        body = body.strip()
        return [int(x) for x in body.replace('\n', ' ').split(',') if x.strip()] if body else []
    return int(m.group(1)), ints(m.group(2)), ints(m.group(3))


def validate_trace(ck, recs, label, chunk=100000):
    """every record is judged by TLC (RobustTrace.tla); returns (indices rejected by the property, drift indices)"""
    mism, drift = [], []
    for s in range(0, len(recs), chunk):
        part = recs[s:s + chunk]
        text = '\n'.join(json.dumps({'c': r['c'], 'o': r['o'], 'ms': max(0, r.get('ms', 0))}, separators=(',', ':'))
                         for r in part) + '\n'
        t = vplib.run_tlc('RobustTrace', 'RobustTrace.cfg', workers=1, files={'trace.ndjson': text}, timeout=3000,
                          name='RobustTrace-%s-%d' % (label, s), heap='3g')
        ck.add_tlc('RobustTrace: %d recorded executions (%s)' % (len(part), label), t)
        n, mi, dr = parse_mism(t.out)
        if n != len(part):
            raise Inconclusive('trace validation read %d of %d records' % (n, len(part)))
        mism += [s + i - 1 for i in mi]
        drift += [s + i - 1 for i in dr]
    return mism, drift


def fuzz(ck, jd, sd, export_path, n, chans):
    out = os.path.join(sd, 'fuzz-out.jsonl')
    p = vplib.run_harness(['robust-fuzz', export_path, out, str(n), ','.join(chans), vplib.REPO], timeout=6000)
    recs = vplib.read_jsonl(out)
    if len(recs) != n:
        raise Inconclusive('robust-fuzz returned %d records for %d inputs' % (len(recs), n))
    seeds = ' '.join(sorted(set(p.stderr.decode('utf-8', 'replace').strip().split('\n')[-1].split()[1:])))
    for r in recs:
        jd.record(r, 'seeded byte-level driver, input %s' % r.get('h'))
    mism, drift = validate_trace(ck, recs, 'byte-level driver')
    failed = {i for i, r in enumerate(recs) if r.get('case') is not None}
    for i in mism:
        if i not in failed:
            r = recs[i]
            if r['o'] in OK_OUTCOMES and r.get('ms', 0) > 2000:
                raise Inconclusive('trace record %d exceeds the time limit but was not re-run alone' % i)
            raise Inconclusive('trace record %d (%s, %s) is rejected by RobustTrace.tla but was not isolated by the harness'
                               % (i, r['c'], r['o']))
    if failed - set(mism):
        raise Inconclusive('binding broken: RobustTrace.tla accepts a failed execution')
    for i in drift:
        if i not in failed:
            k = 'outcome %s on channel %s is outside the design table Allowed (byte-level driver)' % (recs[i]['o'], recs[i]['c'])
            jd.drift[k] += 1
            jd.drift_ex.setdefault(k, 'input hash %s' % recs[i].get('h'))
    ck.cov['traces_validated_against_impl'] += len(recs)
    ck.cov['random_records'] = len(recs)
    ck.cov['random_seed_documents'] = seeds
    ck.cov['random_distinct_inputs'] = len({r.get('h') for r in recs})
    return recs


# ---------------------------------------------------------------------------------------- run

def run(ck, tier):
    import random
    sd = vplib.subdir('c01')
    seed = vplib.seed()
    rng = random.Random(seed)
    jd = Judge(ck)
    import time
    t0 = time.time()
    stages = ck.cov.setdefault('stage_wall_s', {})

    def lap(name):
        nonlocal t0
        stages[name] = round(time.time() - t0, 1)
        t0 = time.time()
    design(ck, tier)
    scan(ck, tier, sd, jd)
    lap('design+scan')

    if tier == 'quick':
        plans = [('Robust_quick.cfg', 'all single mutations of the base workflow B1 (workflow channel)'),
                 ('Robust_quick_files.cfg', 'collection / alias / tag / merge / nesting mutations of the action.yml, reusable '
                                            'workflow and actionlint.yaml bases')]
    else:
        plans = [('Robust_thorough_wf.cfg', 'all single mutations of the 7 base workflows (workflow channel)'),
                 ('Robust_thorough_files.cfg', 'all single mutations of the action.yml / reusable workflow / actionlint.yaml bases')]
    export = None
    allvecs = []
    for cfg, label in plans:
        export, vecs = generate(ck, cfg, 'Robust generator: ' + label)
        export_path = os.path.join(sd, 'export.json')
        json.dump(export, open(export_path, 'w'))
        if tier == 'quick':
            # the bulky kinds are sampled by seed in the quick tier (every kind, position and channel keeps vectors;
            # the thorough tier runs all of them)
            bulky = ('scalar', 'map', 'seq', 'recog', 'key', 'multi')
            n0 = len(vecs)
            vecs = [v for i, v in enumerate(vecs) if v['mut'] not in bulky or (i + seed) % QUICK_SAMPLE == 0]
            ck.cov.setdefault('quick_sampled', {})[cfg] = '%d of %d generated vectors run' % (len(vecs), n0)
        variants(vecs, tier, seed)
        # every configuration is also applied to a workflow that HAS a diagnostic (the `ignore` patterns are only
        # used then); these copies are judged by their outcome class alone
        vecs += [dict(v, mode='dirty') for v in vecs if v['ch'] == 'config']
        # multi-byte text in front of a diagnosed position: the crash sites are in the OUTPUT path, so these vectors are run
        # through the default (snippet) output and through templates that use the snippet
        for v in [v for v in vecs if v['mut'] == 'mbyte']:
            v['fmt'] = ''
            vecs += [dict(v, fmt='json'), dict(v, fmt='sarif')]
        # anchor cycles in a called workflow are run through both derivations of its interface (file and AST)
        vecs += [dict(v, mode='' if v['mode'] == 'both' else 'both') for v in vecs if v['ch'] == 'reusable' and v['mut'] == 'cycle']
        outs = run_vectors(sd, export_path, vecs, 'vec-' + cfg.split('.')[0])
        judge_vectors(jd, sd, export_path, vecs, outs, export['propallowed'])
        allvecs += vecs
        ck.cov.setdefault('vectors', {})[cfg] = len(vecs)
        lap(cfg)
    if tier == 'thorough':
        pv = pairs(allvecs, 200000, rng)
        variants(pv, tier, seed + 1)
        outs = run_vectors(sd, export_path, pv, 'pairs')
        judge_vectors(jd, sd, export_path, pv, outs, export['propallowed'])
        ck.cov['pair_vectors'] = len(pv)
        lap('pairs')
    nunmat = sum(jd.unmaterialised.values())
    if nunmat > 0.02 * max(1, len(allvecs)):
        raise Inconclusive('%d of %d vectors could not be materialised: %s' % (nunmat, len(allvecs), dict(jd.unmaterialised)))

    # fixed inputs: earlier panics of the pinned tree, and scripts around the pipe-buffer size with tools enabled
    regr = regression_cases()
    for r, (c, exp, site) in zip(run_cases(sd, [c for c, _, _ in regr], 'regr'), regr):
        if jd.record(r, 'regression input') and r['o'] not in exp:
            jd.fail.setdefault(site, ['regression input: outcome %s, expected one of %s\n%s' % (r['o'], '/'.join(exp), show_input(c)),
                                      {'kind': 'case', 'outcome': r['o'], 'channel': c['chan'], 'case': c, 'expected': list(exp),
                                       'stack_top': '', 'where': 'regression input', 'stderr': '', 'vector': None}, 0])[2] += 1
    ck.cov['regression_inputs'] = len(regr)
    big = big_script_cases([48 << 10, 60 << 10, 64 << 10, 70 << 10, 200 << 10])
    bouts = run_cases(sd, [c for _, _, c in big], 'big', env={'VERIF_C01_BATCH': '1'})
    for (n, shell, c), r in zip(big, bouts):
        total = len(base64.b64decode(c['files'][WF]))
        where = '`run:` script of %d bytes (shell %s, workflow file %d bytes%s) with shellcheck / pyflakes enabled' % (
            n, shell, total, '' if total <= BOUND else ', beyond the 64 KiB example bound of the property')
        if r.get('case') is not None:
            r['case'] = dict(r['case'], files={WF: b64('on: push\njobs:\n  j:\n    runs-on: ubuntu-latest\n    steps:\n'
                                                       '      - shell: %s\n        run: |\n          <%d bytes of script>\n'
                                                       % (shell, n))}, script_bytes=n, shell=shell)
        jd.record(r, where)
    ck.cov['large_script_sizes'] = sorted({n for n, _, _ in big})
    lap('fixed inputs')

    nrand = 20000 if tier == 'quick' else 500000
    chans = ['workflow', 'workflow', 'action', 'reusable', 'config'] if tier == 'thorough' else \
        ['workflow', 'workflow', 'workflow', 'action', 'reusable', 'config']
    fuzz(ck, jd, sd, export_path, nrand, chans)
    lap('byte-level driver')

    jd.finish()
    if jd.unmaterialised:
        ck.note('%d vectors could not be materialised (renderer limits): %s' % (nunmat, dict(jd.unmaterialised.most_common(4))))
    ck.cov['evaluations'] += jd.evaluated
    ck.cov['distinct_nontrivial'] += jd.nontrivial
    ck.cov['outcomes'] = {'%s/%s' % k: n for k, n in sorted(jd.outcomes.items())}
    ck.cov['max_ms_per_input'] = jd.maxms
    ck.cov['slowest_inputs'] = ['%d ms: %s, %s' % x for x in sorted(jd.slow, reverse=True)[:8]]
    ck.cov['exhaustive'] = False
    ck.cov['rule'] = ('TLC enumerates the C01 mutation space of Robust.tla (every node of the base documents x replacement kind x '
                      'explicit tag x value class, with the predicted outcome class); every vector is rendered, laid out as a '
                      'repository of its channel and run through actionlint.Command.Main in child processes (panic / crash / '
                      'exit status / 2 s limit, failures isolated and re-run alone 3 times); plus placeholder-scan strings, fixed '
                      'regression inputs, large scripts with stand-in tools, and %d seeded byte-level mutations validated by '
                      'RobustTrace.tla; non-trivial = vectors with a predicted diagnostic / fatal error, scan strings with a '
                      'placeholder' % nrand)
    ex = next((v for v in allvecs if v['exp'] == 'diag' and v['mut'] == 'alias'), None)
    if ex:
        ck.sample({'channel': ex['ch'], 'position': site_str(ex['site']), 'mutation': ex['mut'] + '/' + ex['label'],
                   'predicted': ex['exp'], 'source': source_of(sd, export_path, ex)[:400]})
    ex = next((v for v in allvecs if v['exp'] == 'diag' and v['mut'] == 'tagged'), None)
    if ex:
        ck.sample({'channel': ex['ch'], 'position': site_str(ex['site']), 'mutation': ex['mut'] + '/' + ex['label'],
                   'predicted': ex['exp']})
    ck.assumptions += ['whether Go code panics on a byte string is decided only by executing it: level exploration',
                       'inputs are bounded by 64 KiB except the dedicated long-repetition / large-script inputs',
                       'the per-input limit of 2 s is wall time of Command.Main inside a worker process on a shared machine; '
                       'an input is reported as a hang only if it exceeds the limit three times when run alone',
                       'shellcheck / pyflakes are disabled except for the large-script inputs, which use stand-in tools']


# -------------------------------------------------------------------------------------- replay

def replay(path):
    rp = json.load(open(path))['replay']
    if rp['kind'] == 'undiagnosed':
        sd = vplib.subdir('c01r')
        ck = vplib.Check('C01', LEVEL, 'replay')
        export, _ = generate(ck, 'Robust_total.cfg', 'export')
        export_path = os.path.join(sd, 'export.json')
        json.dump(export, open(export_path, 'w'))
        v = rp['vector']
        o = run_vectors(sd, export_path, [v], 'replay')[0]
        print(source_of(sd, export_path, v))
        print('predicted', v['exp'], 'observed', o.get('o'), o.get('err', ''))
        if o.get('err'):
            return 2
        return 1 if o.get('o') == 'clean' else 0
    case = rp['case']
    if case.get('script_bytes'):
        case = next(c for n, sh, c in big_script_cases([case['script_bytes']]) if sh == case['shell'])
    binary = vplib.build_actionlint()
    harness = vplib.build_harness()
    root = tempfile.mkdtemp(prefix='c01-replay-')
    outside = tempfile.mkdtemp(prefix='c01-replay-out-')
    try:
        for rel, b in (case.get('out') or {}).items():
            p = os.path.join(outside, rel)
            os.makedirs(os.path.dirname(p), exist_ok=True)
            open(p, 'wb').write(base64.b64decode(b))
        os.makedirs(os.path.join(root, '.git'))
        os.makedirs(os.path.join(root, '.github', 'workflows'), exist_ok=True)
        for rel, b in case['files'].items():
            p = os.path.join(root, rel)
            os.makedirs(os.path.dirname(p), exist_ok=True)
            open(p, 'wb').write(base64.b64decode(b))
        argv = [binary] + [a.replace('{ROOT}', root).replace('{OUT}', outside).replace('{SELF}', harness) for a in case['args']]
        print(' '.join(argv))
        try:
            p = subprocess.run(argv, stdout=subprocess.PIPE, stderr=subprocess.PIPE, timeout=20, stdin=subprocess.DEVNULL)
        except subprocess.TimeoutExpired:
            print('no result within 20 s: HANG')
            return 1
        err = p.stderr.decode('utf-8', 'replace')
        print('exit status', p.returncode)
        print(err[:3000])
        bad = p.returncode not in (0, 1, 3) or re.search(r'^(panic: |fatal error: |goroutine \d+ \[)', err, re.M)
        if rp.get('expected'):
            got = {0: 'clean', 1: 'diag', 3: 'fatal'}.get(p.returncode)
            bad = bad or got not in rp['expected']
        print('property', 'VIOLATED' if bad else 'holds')
        return 1 if bad else 0
    finally:
        shutil.rmtree(root, ignore_errors=True)
        shutil.rmtree(outside, ignore_errors=True)
