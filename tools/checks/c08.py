"""C08 - names are matched case-insensitively everywhere.

E: TLC checks Names.tla: on every vector of the catalogue (name kind x definition site x use site x
   flavour x spelling pattern per occurrence) the operational layer (every site stores / looks up a key,
   folding or not, as read from the code) gives the verdict of the declarative layer (names of the listed
   kinds are equal iff equal modulo letter case), the verdict of a vector equals the verdict of its
   all-lower-case base (FlipLaw), every non-lower spelling of a negative control (keyword, string literal
   contents, schema key) changes it (ControlLaw), and the catalogue is well formed (every kind of the
   property has definition and use sites, every folding site is exercised).
G: every state of the TLC state spaces is replayed: the harness renders the scenario twice (base = all
   lower case, flipped = occurrences spelled as the vector says; same text length, so same positions),
   materialises callee files / local actions / the configuration file in a temporary repository where
   needed (reusable workflows through both derivations: file and in-memory AST), lints both with the real
   Linter and projects the diagnostics to (file, line, col, kind, class, message with case folded and
   quoted names sorted).  `rel` of the vector (from the spec) says whether the two outputs must be equal
   or must differ; `base` what the base output must look like for the vector to be meaningful
   (otherwise the check is inconclusive, never a violation).  This is a relation between two real outputs.
   A second state space ("sink") flips subsets of the 84 numbered occurrences of one repository that uses
   every name kind at once (all subsets up to size 2 / 3, plain and inverted).
   Sweeps instantiate a scenario with every entry of an exported table of the real code (built-in
   context properties, built-in functions, bundled action metadata).
   Corpus: every workflow of the repository's testdata is linted as written and with the identifiers of all
   its ${{ }} placeholders (located with the real lexer; keywords and string literals untouched) re-spelled
   in the patterns of the spec; a change of an `expression` diagnostic is a violation.
"""
import collections
import json
import os
import re

import vplib
from vplib import Inconclusive

LEVEL = 'model_checking'

QUICK = [('Names_quick.cfg', 'catalogue x {lower,UPPER,Mixed} per occurrence role, user names foo / ab_c-1'),
         ('Names_sink_quick.cfg', 'sink repository: all subsets of <=2 of 84 occurrences upper-cased, plain and inverted'),
         ('Names_sink_mixed.cfg', 'sink repository: all subsets of <=2 occurrences in mixed case, plain and inverted')]
THOROUGH = [('Names_thorough.cfg', 'catalogue x {lower,UPPER,Mixed,mixed2} per occurrence role, user names foo / x / ab_c-1'),
            ('Names_sink_mixed.cfg', 'sink repository: all subsets of <=2 occurrences in mixed case, plain and inverted'),
            ('Names_sink_thorough.cfg', 'sink repository: all subsets of <=3 of 84 occurrences upper-cased, plain and inverted')]


def dkey(d):
    return (d['file'], d['line'], d['col'], d['kind'], d['class'], d['key'])


def pkey(d):
    return (d['file'], d['line'], d['col'], d['kind'], d['class'])


def spec_catalogue(vecs):
    """sid -> (flavours, roles) as enumerated by TLC (roles = pattern fields that vary)."""
    cat = {}
    for v in vecs:
        if v['sid'] in ('init', 'sink'):
            continue
        e = cat.setdefault(v['sid'], {'flavours': set(), 'roles': set(), 'kind': v['kind'], 'def': v['def'], 'use': v['use']})
        e['flavours'].add(v['flavour'])
        for role, f in (('1', 'p1'), ('2', 'p2'), ('a', 'pa')):
            if v[f] != 'lower':
                e['roles'].add(role)
    return cat


def check_catalogue(cat, hl, sink_n):
    """The harness templates and the catalogue of the spec must describe the same scenarios."""
    hs = {e['sid']: e for e in hl}
    a, b = set(cat), set(hs) - {'sink'}
    if a != b:
        raise Inconclusive('catalogue of Names.tla and templates of the harness differ: only in spec %s, only in harness %s'
                           % (sorted(a - b), sorted(b - a)))
    for sid, e in cat.items():
        h = hs[sid]
        if set(h['flavours']) != e['flavours']:
            raise Inconclusive('flavours of %s differ: spec %s, harness %s' % (sid, sorted(e['flavours']), h['flavours']))
        if set(h['roles']) != e['roles']:
            raise Inconclusive('occurrence roles of %s differ: spec %s, harness template %s' % (sid, sorted(e['roles']), h['roles']))
    if sink_n is not None and hs['sink']['nocc'] != sink_n:
        raise Inconclusive('sink template has %d occurrences, the configuration says SinkN = %d' % (hs['sink']['nocc'], sink_n))


def cfg_const(cfg, name):
    m = re.search(r'^\s*%s\s*=\s*(\d+)' % name, open(os.path.join(vplib.SPEC, 'cfg', cfg)).read(), re.M)
    return int(m.group(1)) if m else None


def flipped_roles(v):
    if v['sid'] == 'sink':
        return 'sink'
    return ','.join(r for r, f in (('def', 'p1'), ('use', 'p2'), ('aux', 'pa')) if v.get(f, 'lower') != 'lower') or 'none'


def judge(v, o):
    """-> (status, text).  status: ok | inconclusive | violation | note"""
    if o['other']:
        return 'inconclusive', 'harness could not run the vector: %r' % (o['other'][:2],)
    base, flip = o['base'], o['flip']
    bk = collections.Counter(dkey(d) for d in base)
    fk = collections.Counter(dkey(d) for d in flip)
    # Two real outputs for texts that differ only in the letter case of occurrences of the listed name kinds:
    # any difference is a violation, whatever the base looks like (the all-lower-case spelling is not
    # privileged - a base that is reported only because of its spelling shows up here as soon as another
    # spelling is accepted).
    if v['rel'] == 'same' and bk != fk:
        only_b = sorted((bk - fk).elements())
        only_f = sorted((fk - bk).elements())
        what = []
        for d in base:
            if dkey(d) in only_b:
                what.append('lost %s:%d:%d [%s] %s' % (d['file'], d['line'], d['col'], d['kind'], d['msg']))
        for d in flip:
            if dkey(d) in only_f:
                what.append('new %s:%d:%d [%s] %s' % (d['file'], d['line'], d['col'], d['kind'], d['msg']))
        return ('violation' if v['listed'] else 'note'), '; '.join(what[:4])
    # The base does not look as the spec says although this spelling agrees with it: if every spelling of the
    # group agrees, the template is broken for a reason unrelated to letter case -> inconclusive (decided per
    # group by the caller: a group with a violation is never inconclusive).
    unk = [d for d in base if d['class'] == 'other']
    if unk:
        return 'inconclusive', 'base output has a message of unknown class: %s' % unk[0]['msg']
    if v['base'] == 'clean' and base:
        return 'inconclusive', 'base rendering is expected to lint clean but reports: %s' % [d['msg'] for d in base][:3]
    if v['base'] == 'diag' and not base:
        return 'inconclusive', 'base rendering is expected to be reported but lints clean'
    if v['rel'] == 'same':
        return 'ok', ''
    # negative control: the flip must change the result
    if o['nflip'] == 0:
        return 'ok', ''
    if bk == fk:
        return 'violation', 'negative control: the case change of %r is not distinguished (same output)' % v['name']
    return 'ok', ''


def render_files(files):
    return '\n'.join('--- %s\n%s' % (k, files[k]) for k in sorted(files or {}))


def run_vectors(vecs, sd, tag, tier):
    inp = []
    for i, v in enumerate(vecs):
        x = {'id': i, 'sid': v['sid'], 'name': v.get('name', ''), 'alt': v.get('alt', ''), 'flavour': v['flavour'],
             'p1': v.get('p1', 'lower'), 'p2': v.get('p2', 'lower'), 'pa': v.get('pa', 'lower')}
        if v['sid'] == 'sink':
            x['flips'] = v['flips']
            x['inv'] = v['inv']
        if 'popular.sweep' in v['sid']:
            x['seed'] = vplib.seed()
            x['limit'] = 40 if tier == 'quick' else 0
        if v.get('texts'):
            x['texts'] = True
        inp.append(x)
    vplib.write_jsonl(os.path.join(sd, tag + '-in.jsonl'), inp)
    vplib.run_harness(['names-run', os.path.join(sd, tag + '-in.jsonl'), os.path.join(sd, tag + '-out.jsonl'),
                       os.path.join(sd, tag + '-repos')], timeout=3000,
                      env={'GOMAXPROCS': str(vplib.NCPU)})
    return vplib.read_jsonl(os.path.join(sd, tag + '-out.jsonl'))


def run_corpus(ck, sd, patterns, only=None):
    """testdata workflows with the identifiers of all ${{ }} placeholders re-spelled.  Returns the number of
    violations found (only differences in diagnostics of kind `expression` count: other rules may compare
    the raw text of a scalar, which is string content)."""
    outp = os.path.join(sd, 'corpus.jsonl')
    vplib.run_harness(['names-corpus', vplib.REPO, outp] + list(patterns), timeout=600, env={'GOMAXPROCS': str(vplib.NCPU)})
    outs = vplib.read_jsonl(outp)
    if len(outs) < 100 and only is None:
        raise Inconclusive('corpus: only %d workflow renderings found under %s/testdata' % (len(outs), vplib.REPO))
    nviol = 0
    nflip = 0
    for o in outs:
        if only is not None and (o['file'], o['pattern']) != only:
            continue
        if o['other']:
            raise Inconclusive('corpus: %s could not be linted: %r' % (o['file'], o['other'][:2]))
        if o['nflip'] > 0:
            nflip += 1
        bk = collections.Counter(dkey(d) for d in o['base'])
        fk = collections.Counter(dkey(d) for d in o['flip'])
        if bk == fk:
            continue
        diff = sorted((bk - fk).elements()) + sorted((fk - bk).elements())
        msgs = ['%s %d:%d [%s] %s' % ('lost' if dkey(d) in (bk - fk) else 'new', d['line'], d['col'], d['kind'], d['msg'])
                for d in o['base'] + o['flip'] if dkey(d) in diff]
        if any(k[3] == 'expression' for k in diff):
            nviol += 1
            if nviol > 3:      # the first files are enough to replay; the total is recorded below
                continue
            ck.violation('names:corpus:' + o['file'],
                         'spelling the identifiers of the ${{ }} placeholders of %s in pattern %s changes expression diagnostics: %s'
                         % (o['file'], o['pattern'], '; '.join(msgs[:4])),
                         {'sid': 'corpus', 'corpus_file': o['file'], 'pattern': o['pattern'],
                          'base_diags': [[d['line'], d['col'], d['kind'], d['msg']] for d in o['base']],
                          'flipped_diags': [[d['line'], d['col'], d['kind'], d['msg']] for d in o['flip']],
                          'flipped_text': o.get('flipText')})
        else:
            ck.note('corpus %s (%s): a rule that compares the raw text of scalars changes its output (string content, not a '
                    'name lookup): %s' % (o['file'], o['pattern'], '; '.join(msgs[:2])[:300]))
    if nviol > 3:
        ck.note('corpus: %d renderings change expression diagnostics (the first 3 are reported as violations)' % nviol)
    ck.cov['corpus_renderings'] = len(outs)
    ck.cov['corpus_renderings_with_respelled_identifiers'] = nflip
    ck.cov['evaluations'] += 2 * len(outs)
    ck.cov['traces_validated_against_impl'] += len(outs)
    ck.cov['distinct_nontrivial'] += nflip
    return nviol


def run(ck, tier):
    sd = vplib.subdir('c08')
    vplib.run_harness(['names-list', os.path.join(sd, 'list.json')])
    hl = json.load(open(os.path.join(sd, 'list.json')))
    cfgs = QUICK if tier == 'quick' else THOROUGH
    allv = []
    for cfg, what in cfgs:
        r = vplib.run_tlc('Names', cfg, dump='vectors', timeout=2400)
        ck.add_tlc('Names %s' % what, r)
        if r.violated:
            raise Inconclusive('specification Names.tla violates %s under %s (model level)' % (r.violated, cfg))
        vs = vplib.read_dump_json(os.path.join(r.dir, 'vectors.dump'))
        if len(vs) != r.distinct:
            raise Inconclusive('dump/states mismatch for ' + cfg)
        if 'sink' in cfg:
            n = cfg_const(cfg, 'SinkN')
            if n != next(e['nocc'] for e in hl if e['sid'] == 'sink'):
                raise Inconclusive('sink template has %d occurrences, %s says SinkN = %s'
                                   % (next(e['nocc'] for e in hl if e['sid'] == 'sink'), cfg, n))
        else:
            check_catalogue(spec_catalogue(vs), hl, None)
        allv += [v for v in vs if v['sid'] != 'init']
    # a few texts for the evidence file
    shown = set()
    for v in allv:
        if v['sid'] not in shown and v.get('p2') == 'UPPER' and v.get('p1') in ('lower', 'Mixed') and len(shown) < 4 \
                and v['sid'].split('.')[0] in ('jobid', 'json', 'input', 'ctl'):
            v['texts'] = True
            shown.add(v['sid'])
    outs = run_vectors(allv, sd, 'v', tier)
    evals = nontrivial = 0
    per_kind = collections.Counter()
    per_sid = collections.Counter()
    viol = {}           # (sid, inst) -> (nflip, vector, out, text, count)
    notes = collections.Counter()
    incon = {}
    viol_groups = set()
    note_ex = {}
    insts = {}
    for o in outs:
        v = allv[o['id']]
        evals += 1
        status, text = judge(v, o)
        group = (v['sid'], o['inst'], v.get('name'), v['flavour'])
        if status == 'inconclusive':
            if group not in incon:
                incon[group] = '%s (%s %s %s): %s\n%s' % (v['sid'], v.get('name'), v['flavour'], flipped_roles(v), text,
                                                          render_files(o.get('files')) if len(incon) < 3 else '')
            continue
        if status == 'violation':
            viol_groups.add(group)
        if o['nflip'] > 0:
            nontrivial += 1
            per_kind[v['kind']] += 1
            per_sid[v['sid']] += 1
        if status == 'note':
            notes[v['sid']] += 1
            note_ex.setdefault(v['sid'], text)
        if status == 'violation':
            # one violation per scenario (and flavour); table sweeps are not split by table entry
            k = (v['sid'], '' if 'sweep' in v['sid'] else o['inst'], v['flavour'] if v['sid'] != 'sink' else '')
            insts.setdefault(k, set()).add(o['inst'])
            cur = viol.get(k)
            if cur is None or o['nflip'] < cur[0]:
                viol[k] = (o['nflip'], v, o, text, (cur[4] if cur else 0) + 1)
            else:
                viol[k] = cur[:4] + (cur[4] + 1,)
        if v.get('texts') and o.get('files'):
            ck.sample({'sid': v['sid'], 'patterns': [v.get('p1'), v.get('p2'), v.get('pa')], 'rel': v['rel'],
                       'flipped': o['flipFiles'], 'base_diags': [d['msg'] for d in o['base']],
                       'flipped_diags': [d['msg'] for d in o['flip']]})
    # a group in which some spelling disagrees with the base is a violation, not an unusable template
    incon = {g: t for g, t in incon.items() if g not in viol_groups}
    if incon and not viol:
        raise Inconclusive('%d vector groups cannot be judged:\n%s' % (len(incon), '\n'.join(list(incon.values())[:40])))
    for t in list(incon.values())[:10]:
        ck.note('not judged (all spellings agree but the base is not as the spec expects): ' + t.split('\n')[0][:300])
    for (sid, inst, flavour), (nf, v, o, text, count) in sorted(viol.items()):
        site = 'names:' + sid + (':' + inst if inst else '')
        inst = o['inst']
        if len(insts[(sid, '' if 'sweep' in sid else inst, flavour)]) > 1:
            text += '  [%d table entries affected, e.g. %s]' % (len(insts[(sid, '', flavour)]), inst)
        rp = {k: v.get(k) for k in ('sid', 'kind', 'def', 'use', 'name', 'alt', 'flavour', 'p1', 'p2', 'pa', 'flips', 'inv',
                                    'rel', 'base', 'listed') if k in v}
        rp.update({'inst': inst, 'flipped_roles': flipped_roles(v), 'tier': tier, 'seed': vplib.seed(),
                   'base_diags': [[d['file'], d['line'], d['col'], d['kind'], d['msg']] for d in o['base']],
                   'flipped_diags': [[d['file'], d['line'], d['col'], d['kind'], d['msg']] for d in o['flip']],
                   'files': o.get('files'), 'flipped_files': o.get('flipFiles'), 'failing_vectors_of_this_site': count})
        ck.violation(site, 'case change of %s (%s -> %s, flavour %s, flipped: %s) changes the diagnostics: %s  [%d vectors of this '
                     'scenario fail]\n%s' % (v['kind'], v.get('def', '-'), v.get('use', '-'), v['flavour'], flipped_roles(v),
                                             text, count, render_files(o.get('flipFiles'))), rp)
    for t, n in sorted(notes.items()):
        ck.note('%s: a kind the code folds but the property does not name; output changes with case (%d vectors), e.g. %s'
                % (t, n, note_ex[t][:200]))
    run_corpus(ck, sd, ['UPPER', 'Mixed'] if tier == 'quick' else ['UPPER', 'Mixed', 'mixed2', 'lower'])
    ck.cov['evaluations'] += 2 * evals
    ck.cov['traces_validated_against_impl'] += evals
    ck.cov['distinct_nontrivial'] += nontrivial
    ck.cov['scenarios'] = len(per_sid)
    ck.cov['per_kind'] = dict(per_kind)
    ck.cov['rule'] = ('every TLC state = one (scenario, name, flavour, spelling per occurrence) or one subset of sink occurrences; '
                      'base and flipped renderings linted by the real Linter and compared; non-trivial = at least one '
                      'occurrence spelled differently from the base')
    ck.cov['exhaustive'] = True
    ck.assumptions += [
        'ASCII names; spelling patterns lower / UPPER / alternating (Mixed, mixed2); every vector is compared with its '
        'all-lower-case base (equality with the base is transitive, so any two spellings are compared)',
        'messages are compared after case folding with the quoted strings of a message compared as a sorted list '
        '(a list of names sorted by spelling may change its order with the case)',
        'service ids and permission scopes are folded by the code but not named by the property: differences there are notes',
        'action references (owner/repo@ref), event names, runner labels and shell names are outside the listed name kinds',
    ]


def replay(path):
    rp = json.load(open(path))['replay']
    sd = vplib.subdir('c08r')
    if rp.get('sid') == 'corpus':
        ck = vplib.Check('C08', LEVEL, 'replay')
        n = run_corpus(ck, sd, [rp['pattern']], only=(rp['corpus_file'], rp['pattern']))
        for v in ck.violations:
            print(v['what'])
        return 1 if n else 0
    v = dict(rp)
    v.setdefault('flavour', 'any')
    v['texts'] = True
    outs = run_vectors([v], sd, 'r', rp.get('tier', 'quick'))
    rc = 0
    for o in outs:
        if rp.get('inst') and o['inst'] != rp['inst']:
            continue
        status, text = judge(v, o)
        print(render_files(o.get('flipFiles')))
        print('base   :', [d['msg'] for d in o['base']])
        print('flipped:', [d['msg'] for d in o['flip']])
        print(status, text)
        if status == 'violation':
            rc = 1
    return rc
