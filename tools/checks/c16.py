"""C16 - every output format renders the diagnostics faithfully, one per line.

E: TLC checks Report.tla: Render is a homomorphic image of the diagnostic list, #lines = #diagnostics
   <=> no message contains a line break, the matcher model parses a header back <=> the message is
   Parseable (shipped pattern: no " [" after the first atom; the repaired kind group [^\\[\\]]+: every
   one-line message); the guard model of getLine/getIndicator/PrettyPrint/GetTemplateFields never
   slices out of range and satisfies the declarative snippet rule for every generated
   (source shape, line, col).
G: (a) the generated diagnostic lists (abstract messages) are printed by the real PrettyPrint /
   ErrorFormatter and parsed with the SHIPPED matcher regexp; prediction vs. real binds the model.
   (b) every generated (source, line, col) triple is replayed into Error.PrettyPrint,
   GetTemplateFields and the JSON formatter (panic recovery); predicted snippet/caret vs. real.
T: echo-site catalogue (spec/report_sites.txt) x hostile string classes: every workflow is linted in
   default, -oneline, colour, colour -oneline, -format '{{json .}}' and a {{range}} template mode; the
   []*Error of the same call and the produced lines (with the matcher's captures) are validated by
   TLC (ReportTrace): header count, header text, parse-back of the five fields, JSON round trip,
   snippet = referenced line, no line break in a message.  Snippet triples are validated the same way.
Violations are re-executed before they are reported.
"""
import json
import os
import re

import vplib
from vplib import Inconclusive

LEVEL = 'exploration'

SITES_FILE = os.path.join(vplib.SPEC, 'report_sites.txt')

# character atoms of the snippet model (Report.tla: AtomB/AtomW).  n2/w3/w4 have East-Asian-width
# classes N/W/W, so their display width does not depend on the locale.
LINE_ATOMS = {'a': ('a', 1), 'sp': (' ', 1), 'tab': ('\t', 1), 'cr': ('\r', 1), 'n2': ('ñ', 1),
              'w3': ('日', 1), 'w4': ('\U0001F600', 1), 'LONG': ('x', 70000)}
# tokens of the render model
MSG_TOK = {'t': 'ab', 'lf': '\n', 'cr': '\r', 'br': ' [', 'rb': ']', 'pp': ':1:2: ',
           'F': 'f.yml', 'P': ':3:7: ', 'KO': ' [', 'K': 'kd', 'KC': ']'}

CLASSES = [
    ('plain', 'zqj'),
    ('nl', 'zq\nj'), ('cr', 'zq\rj'), ('crlf', 'zq\r\nj'), ('tab', 'zq\tj'), ('esc', 'zq\x1b[31mj'),
    ('nul', 'zq\x00j'), ('nonascii', 'zqñj'), ('cjk', 'zq日本j'), ('emoji', 'zq\U0001F600j'),
    ('quote', 'zq"j\'k'), ('bs', 'zq\\j'), ('brk', 'zq [x]'), ('brk2', 'zq [x] j'), ('pos', 'zq:1:2: j'),
    ('ls', 'zq\u2028j'), ('nlbrk', 'zq [x]\nj [y]'),
    # text a formatting layer between message and output could interpret
    ('pct', 'zq%dj%s'), ('pct2', 'zq%!j%[1]s100%'), ('tmpl', 'zq{{j}}$1{{.}}'), ('bsn', 'zq\\nj%0A::k'),
    ('pct-d', 'zq%dj'), ('pct-s', 'zq%sj'), ('pct-v', 'zq%vj'), ('pct-pct', 'zq%%j'), ('pct-bang', 'zq%!j'),
    ('pct-idx', 'zq%[1]sj'), ('pct-end', 'zq100%'), ('pct-only', 'zq%'), ('braces', 'zq{{j}}'), ('dollar', 'zq$1j'),
    ('pct0a', 'zq%0Aj'), ('colons', 'zq::j'),
    ('uesc', 'zq\\u003cj<&>\\u0026'), ('html', 'zq</script>&amp;j'), ('uesc-gt', 'zq\\u003ej'), ('lt', 'zq<j'),
]
QUICK_CLASSES = {'plain', 'nl', 'cr', 'tab', 'esc', 'nul', 'cjk', 'quote', 'bs', 'brk2', 'pos', 'nlbrk',
                 'pct', 'pct2', 'tmpl', 'bsn', 'uesc'}
RAW_OK = {'plain', 'nonascii', 'cjk', 'emoji', 'quote', 'bs', 'brk', 'pos'}
FNAMES = ['<stdin>', 'vp-c16/w.yml', 'vp c16/ワーク flow.yaml', '.github/workflows/a-b_c.yml']
MODE_ORDER = ['oneline', 'default', 'range', 'rangecount', 'json', 'color', 'color-oneline']
SNIP_MODES = {'default', 'color'}
ESCAPE = re.compile('\x1b\\[\\d+m')       # the escape sub-pattern of the matcher


# ------------------------------------------------------------------------------- catalogue

def load_sites():
    sites = []
    cur = None
    target = None
    for line in open(SITES_FILE, encoding='utf-8').read().split('\n'):
        if line.startswith('### '):
            sid, _, where = line[4:].partition('|')
            cur = {'id': sid.strip(), 'where': where.strip(), 'wf': [], 'files': {}}
            target = cur['wf']
            sites.append(cur)
        elif line.startswith('#--- file:'):
            target = cur['files'].setdefault(line[len('#--- file:'):].strip(), [])
        elif cur is None:
            continue
        else:
            target.append(line)
    for s in sites:
        s['wf'] = '\n'.join(s['wf']).strip('\n') + '\n'
        s['files'] = {k: '\n'.join(v).strip('\n') + '\n' for k, v in s['files'].items()}
    ids = [s['id'] for s in sites]
    if len(set(ids)) != len(ids):
        raise Inconclusive('duplicate site id in the catalogue')
    return sites


def dq(s):
    out = ''
    for ch in s:
        o = ord(ch)
        if ch == '\\':
            out += '\\\\'
        elif ch == '"':
            out += '\\"'
        elif ch == '\n':
            out += '\\n'
        elif ch == '\r':
            out += '\\r'
        elif ch == '\t':
            out += '\\t'
        elif o == 0x1b:
            out += '\\e'
        elif o == 0:
            out += '\\0'
        elif o == 0x2028:
            out += '\\L'
        elif o == 0x2029:
            out += '\\P'
        elif o == 0x85:
            out += '\\N'
        elif o < 0x20:
            out += '\\x%02x' % o
        else:
            out += ch
    return out


def tag_enc(s):
    return ''.join(chr(b) if (48 <= b <= 57 or 65 <= b <= 90 or 97 <= b <= 122) else '%%%02X' % b
                   for b in s.encode('utf-8'))


def subst(text, cls, h):
    if '@R@' in text and cls not in RAW_OK:
        return None
    return (text.replace('@X@', dq(h.replace("'", "''"))).replace('@T@', tag_enc(h)).replace('@R@', h)
            .replace('@@', dq(h)))


def echo_cases(sites, classes):
    cases = []
    for si, s in enumerate(sites):
        for ci, (cls, h) in enumerate(classes):
            wf = subst(s['wf'], cls, h)
            if wf is None:
                continue
            files = {k: subst(v, cls, h) for k, v in s['files'].items()}
            if any(v is None for v in files.values()):
                continue
            proj = bool(files)
            c = {'id': len(cases), 'site': s['id'], 'cls': cls, 'h': h, 'src': wf,
                 'fname': '.github/workflows/w.yml' if proj else FNAMES[(si + ci) % len(FNAMES)]}
            if proj:
                c['files'] = files
                c['proj'] = True
            cases.append(c)
    return cases


def shipped_kind_pattern():
    """which of the modelled kind groups (Report.tla: KindPat) the shipped pattern ends with"""
    try:
        rx = json.load(open(matcher_path()))['problemMatcher'][0]['pattern'][0]['regexp']
    except (OSError, ValueError, KeyError, IndexError) as e:
        raise Inconclusive('cannot read the shipped matcher: %s' % e)
    if rx.endswith(' \\[(.+?)\\]$'):
        return 'lazy'
    if rx.endswith(' \\[([^\\[\\]]+)\\]$'):
        return 'nobr'
    return 'other'


def matcher_path():
    return os.path.join(vplib.REPO, '.github', 'actionlint-matcher.json')


def run_echo(cases, sd, name):
    fin, fout = os.path.join(sd, name + '_in.jsonl'), os.path.join(sd, name + '_out.jsonl')
    vplib.write_jsonl(fin, cases)
    tmp = os.path.join(sd, name + '_tmp')
    os.makedirs(tmp, exist_ok=True)
    vplib.run_harness(['report-echo', fin, fout, matcher_path(), tmp],
                      env={'GOMAXPROCS': str(vplib.NCPU), 'RUNEWIDTH_EASTASIAN': '0'})
    outs = vplib.read_jsonl(fout)
    if len(outs) != len(cases):
        raise Inconclusive('harness returned %d results for %d cases' % (len(outs), len(cases)))
    return outs


def diag_rec(d):
    return {'file': d['file'], 'line': d['line'], 'col': d['col'], 'msg': d['msg'], 'kind': d['kind'], 'lb': d['lb']}


def echo_records(case, out):
    """trace records (with back references) of one harness result"""
    recs = []
    for mode, md in sorted(out['modes'].items(), key=lambda kv: MODE_ORDER.index(kv[0])):
        fail = md.get('panic') and ('panic: ' + md['panic']) or md.get('err') or ''
        ds = [diag_rec(d) for d in md['diags']]
        if mode.startswith('color'):
            # coloured output is compared modulo colour sequences: the consumer removes them from the whole line
            for d in ds:
                d['msg'] = ESCAPE.sub('', d['msg'])
        if mode == 'json':
            ok, parsed = True, []
            try:
                arr = json.loads(md['out']) if md['out'].strip() else None
                if not isinstance(arr, list):
                    ok = False
                else:
                    for x in arr:
                        parsed.append({'file': x.get('filepath', ''), 'line': x['line'], 'col': x['column'],
                                       'msg': x['message'], 'kind': x['kind']})
            except (ValueError, KeyError, TypeError):
                ok, parsed = False, []
            rec = {'k': 'json', 'mode': mode, 'fail': fail, 'ok': ok, 'ds': ds, 'parsed': parsed}
        else:
            rec = {'k': 'text', 'mode': mode, 'snip': mode in SNIP_MODES, 'fail': fail, 'ds': ds,
                   'pre': 1 if mode == 'rangecount' else 0,
                   'ls': [{'p': x['p'], 'g': x['g'], 'n': x['n'], 'eq': x['eq'], 'm': x['m']} for x in md['ls']]}
        recs.append((rec, {'kind': 'echo', 'case': case['id'], 'mode': mode}))
    return recs


# ------------------------------------------------------------------------------------ trace

def parse_mism(out):
    m = re.search(r'<<\s*"MISM",\s*(\d+),\s*<<([^<>]*)>>,\s*<<(.*)', out, re.S)
    if not m:
        raise Inconclusive('trace validation produced no verdict:\n' + out[-2000:])
    body = m.group(2).strip()
    drift = [int(x) for x in body.replace('\n', ' ').split(',') if x.strip()] if body else []
    rest = m.group(3)
    rest = rest[:rest.find('\n\n')] if '\n\n' in rest else rest
    mism = [(int(a), b) for a, b in re.findall(r'<<\s*(\d+),\s*"([a-z-]+)"\s*>>', rest)]
    return int(m.group(1)), mism, drift


def validate(ck, recs, label, name):
    """recs: list of (record, backref).  Returns ({index: code}, [drift indices]) (0-based)."""
    if not recs:
        return {}, []
    text = ''.join(json.dumps(r, separators=(',', ':')) + '\n' for r, _ in recs)
    t = vplib.run_tlc('ReportTrace', 'ReportTrace.cfg', workers=1, files={'trace.ndjson': text}, timeout=3000,
                      name=name, heap='3g')
    if ck is not None:
        ck.add_tlc('ReportTrace: %d recorded executions (%s)' % (len(recs), label), t)
    n, mism, drift = parse_mism(t.out)
    if n != len(recs):
        raise Inconclusive('trace validation saw %d of %d records' % (n, len(recs)))
    if len(mism) >= 50000:
        raise Inconclusive('more than 50000 rejected records: the check or the tree is broken beyond a finding list')
    return {i - 1: code for i, code in mism}, [i - 1 for i in drift]


# ---------------------------------------------------------------------------------- snippet

def snip_obs(o, tf):
    r = {'k': o['k'], 'shown': o['shown'], 'ind': o['ind'], 'caret': o['caret'], 'ul': o['ul']}
    if tf:
        r['end'] = o['end']
    return r


def snip_record(v, o):
    return {'k': 'snip', 'src': v['src'], 'line': v['line'], 'col': v['col'], 'pp': snip_obs(o['pp'], False),
            'tf': snip_obs(o['tf'], True), 'fmt': o['fmt'] if o['fmt'] in ('ok', 'mismatch') else o['fmt'][:40]}


def run_snippets(vecs, sd, name):
    fin, fout = os.path.join(sd, name + '_in.jsonl'), os.path.join(sd, name + '_out.jsonl')
    head = {'atoms': {k: {'s': s, 'n': n} for k, (s, n) in LINE_ATOMS.items()}}
    vplib.write_jsonl(fin, [head] + [{'id': i, 'lines': v['src']['lines'], 'eol': v['src']['eol'],
                                      'final': v['src']['final'], 'line': v['line'], 'col': v['col']}
                                     for i, v in enumerate(vecs)])
    vplib.run_harness(['report-snippet', fin, fout], env={'GOMAXPROCS': str(vplib.NCPU), 'RUNEWIDTH_EASTASIAN': '0'})
    outs = vplib.read_jsonl(fout)
    if len(outs) != len(vecs):
        raise Inconclusive('harness returned %d results for %d snippet vectors' % (len(outs), len(vecs)))
    return outs


def concrete_src(src):
    out = ''
    for i, l in enumerate(src['lines']):
        out += ''.join(LINE_ATOMS[a][0] * LINE_ATOMS[a][1] for a in l)
        if i < len(src['lines']) - 1 or src['final']:
            out += '\r\n' if src['eol'] == 'crlf' else '\n'
    return out


def short(s, n=160):
    s = repr(s)
    return s if len(s) <= n else s[:n] + '...'


# ------------------------------------------------------------------------------- multi-file

CLEAN_WF = 'on: push\njobs:\n  ok:\n    runs-on: ubuntu-latest\n    steps:\n      - run: echo\n'
MULTI_NAMES = ['a.yml', 'b c.yaml', 'ワーク.yml', 'd.yml']
MULTI_CLASSES = ['plain', 'cjk', 'pct', 'quote', 'pos', 'pct2']


def multi_cases(sites, quick):
    """one invocation = 2-3 catalogue workflows (each with diagnostics) + one clean file, in varying order"""
    flat = [s for s in sites if not s['files'] and '@R@' not in s['wf'] and '@T@' not in s['wf']]
    hs = dict(CLASSES)
    cases = []
    step = 3 if quick else 1
    for i in range(0, len(flat) - 2, step):
        n = 2 + (i // step) % 2                                    # 2 or 3 files with diagnostics
        wfs = []
        for k in range(n):
            cls = MULTI_CLASSES[(i + k) % len(MULTI_CLASSES)]
            wfs.append(subst(flat[i + k]['wf'], cls, hs[cls]))
        pos = (i // step) % (n + 1)                                # where the clean file stands
        wfs.insert(pos, CLEAN_WF)
        cases.append({'id': len(cases), 'files': [{'name': MULTI_NAMES[j], 'src': w} for j, w in enumerate(wfs)],
                      'sites': [flat[i + k]['id'] for k in range(n)], 'clean_at': pos})
    return cases


def run_multi(cases, sd, name):
    fin, fout = os.path.join(sd, name + '_in.jsonl'), os.path.join(sd, name + '_out.jsonl')
    vplib.write_jsonl(fin, [{'id': c['id'], 'files': c['files']} for c in cases])
    tmp = os.path.join(sd, name + '_tmp')
    os.makedirs(tmp, exist_ok=True)
    vplib.run_harness(['report-multi', fin, fout, matcher_path(), tmp],
                      env={'GOMAXPROCS': str(vplib.NCPU), 'RUNEWIDTH_EASTASIAN': '0'})
    outs = vplib.read_jsonl(fout)
    if len(outs) != len(cases):
        raise Inconclusive('harness returned %d results for %d multi-file cases' % (len(outs), len(cases)))
    return outs


def multi_records(cases, outs):
    recs = []
    for c, o in zip(cases, outs):
        if o.get('linterr'):
            continue
        for rec, br in echo_records(c, o):
            recs.append((rec, {'kind': 'multi', 'case': c['id'], 'mode': br['mode']}))
    return recs


def multi_part(ck, sd, sites, quick):
    """LintFiles: several files in one invocation, every mode.  The []*Error of the same call is the list over all
    files in argument order; stdout must be its image: headers in that order, ONE JSON document, template run once."""
    cases = multi_cases(sites, quick)
    outs = run_multi(cases, sd, 'multi')
    skipped = [c['id'] for c, o in zip(cases, outs) if o.get('linterr')]
    if len(skipped) > len(cases) // 4:
        raise Inconclusive('multi-file runs fail: %s' % outs[skipped[0]]['linterr'])
    def file_order(c, o):
        seen = []
        for d in o['modes']['oneline']['diags']:
            if d['file'] not in seen:
                seen.append(d['file'])
        want = [n for j, n in enumerate(o['names']) if j != c['clean_at']]
        return seen, [n for n in want if n in seen]
    thin = 0
    misordered = []
    for c, o in zip(cases, outs):
        if o.get('linterr'):
            continue
        seen, want = file_order(c, o)
        if len(seen) < 2:
            # the benign string class provokes no diagnostic at this site: fewer than two contributing files
            o['linterr'] = 'fewer than two files with diagnostics'
            thin += 1
        elif seen != want:
            misordered.append(c['id'])
    skipped = [c['id'] for c, o in zip(cases, outs) if o.get('linterr')]
    ck.cov['multi_file_invocations_with_fewer_than_two_contributing_files'] = thin
    if len(skipped) > len(cases) // 3:
        raise Inconclusive('%d of %d multi-file invocations are not as designed' % (len(skipped), len(cases)))
    if misordered:
        c = cases[misordered[0]]
        o2 = run_multi([dict(c)], sd, 'multi-order')[0]
        if not o2.get('linterr'):
            seen, want = file_order(c, o2)
            if seen != want:
                ck.violation('render-multi:file-order',
                             'one invocation over the files %s returns (and prints) the diagnostics of the files in the order %s, '
                             'not in argument order' % (o2['names'], seen),
                             {'kind': 'multi-order', 'case': {'id': 0, 'files': c['files'], 'sites': c['sites'], 'clean_at': c['clean_at']}})
    recs = multi_records(cases, outs)
    bad, _ = validate(ck, recs, '%d invocations over 3-4 files (one of them clean) x 7 modes' % (len(cases) - len(skipped)), 'trace-multi')
    ck.cov['traces_validated_against_impl'] += len(recs)
    ck.cov['evaluations'] += len(recs)
    ck.cov['multi_file_invocations'] = len(cases)
    ck.cov['distinct_nontrivial'] += len(cases) - len(skipped)
    cmd_differs = [(c['id'], mode) for c, o in zip(cases, outs) for mode, md in o['modes'].items() if md.get('cmd') == 'differs']
    rer = sorted({recs[i][1]['case'] for i in bad} | {cid for cid, _ in cmd_differs})
    if rer:
        sub = [dict(cases[cid]) for cid in rer]
        outs2 = run_multi(sub, sd, 'multi-rerun')
        recs2 = multi_records(sub, outs2)
        bad2, _ = validate(ck, recs2, 're-execution of rejected multi-file invocations', 'trace-multi-rerun')
        again = {(recs2[j][1]['case'], recs2[j][1]['mode']): (code, recs2[j][0]) for j, code in bad2.items()}
        groups = {}
        unrepro = 0
        for i, code in sorted(bad.items()):
            br = recs[i][1]
            if (br['case'], br['mode']) not in again:
                unrepro += 1
                continue
            code2, rec2 = again[(br['case'], br['mode'])]
            g = groups.setdefault('render-multi:%s:%s' % (code2, br['mode']), {'n': 0, 'first': None})
            g['n'] += 1
            if g['first'] is None:
                c = cases[br['case']]
                o2 = outs2[rer.index(br['case'])]
                g['first'] = ('one invocation over the files %s (catalogue workflows %s, clean file at position %d), mode %s: %s; '
                              '%d diagnostics returned, stdout %s'
                              % ([f['name'] for f in c['files']], c['sites'], c['clean_at'] + 1, br['mode'], explain_multi(code2),
                                 len(rec2['ds']), short(o2['modes'][br['mode']]['out'], 300)),
                              {'kind': 'multi', 'code': code2, 'mode': br['mode'],
                               'case': {'id': 0, 'files': c['files'], 'sites': c['sites'], 'clean_at': c['clean_at']}})
        for site, g in sorted(groups.items()):
            ck.violation(site, g['first'][0] + ' (%d invocations)' % g['n'], g['first'][1])
        by = {o2['id']: o2 for o2 in outs2}
        for cid, mode in cmd_differs:
            a, b = outs[cid]['modes'][mode], by[cid]['modes'].get(mode, {})
            if b.get('cmd') == 'differs' and a['out'] == b['out'] and a.get('cmdout') == b.get('cmdout') and \
                    sorted(a.get('cmdout', '').split('\n')) != sorted(a['out'].split('\n')):
                ck.violation('command-main-multi:%s' % mode,
                             'stdout of Command.Main %s over several files differs from the output of Linter.LintFiles with '
                             'the same options, twice: %s vs %s' % (mode, short(a.get('cmdout', ''), 200), short(a['out'], 200)),
                             {'kind': 'multi-cmd', 'mode': mode, 'case': {'id': 0, 'files': cases[cid]['files'],
                                                                         'sites': cases[cid]['sites'], 'clean_at': cases[cid]['clean_at']}})
                break
        if unrepro:
            raise Inconclusive('%d rejected multi-file records were not rejected again when re-executed' % unrepro)
    ok0 = next((o for o in outs if not o.get('linterr')), None)
    if ok0:
        ck.sample({'multi_file_invocation': {'files': ok0['names'], 'json_stdout': ok0['modes']['json']['out'][:300]}})


def explain_multi(code):
    return {'json': "-format '{{json .}}' is not ONE JSON array that round-trips the diagnostics of all files in argument order",
            'template': 'the user template was not executed exactly once over the diagnostics of all files '
                        '(its leading "total=" line is missing, repeated or carries another count)',
            'count': 'the number of header lines differs from the number of diagnostics of the invocation',
            'header': 'the header lines are not those of the diagnostics of all files, in argument order',
            'matcher': 'the shipped matcher pattern does not parse a header line back to the diagnostic',
            'snippet': 'the snippet below a header is not the referenced line of that file',
            'linebreak': 'a message contains a line break', 'fails': 'rendering failed'}.get(code, code)



# ------------------------------------------------------------------------------------- run

def tlc_expect_ok(ck, module, cfg, label, **kw):
    r = vplib.run_tlc(module, cfg, **kw)
    ck.add_tlc(label, r)
    if r.violated:
        raise Inconclusive('specification %s/%s violates its own invariant %s (model-level only)' % (module, cfg, r.violated))
    return r


def run(ck, tier):
    sd = vplib.subdir('c16')
    quick = tier == 'quick'

    # ---- E: the render model (+ vectors) for the shipped kind group and for the repaired one
    pat = shipped_kind_pattern()
    ck.cov['shipped_matcher_kind_group'] = pat
    rr = tlc_expect_ok(ck, 'Report', 'Report_render.cfg', 'Report render: lists of <=2 messages of <=2 atoms (6 atoms): '
                       'homomorphism, one line <=> no LF, matcher faithful <=> Parseable (kind group .+?)', dump='vectors')
    rn = tlc_expect_ok(ck, 'Report', 'Report_render_nobr.cfg', 'Report render, kind group [^\\[\\]]+ (repair): matcher '
                       'faithful <=> message is one line, messages of <=4 atoms', dump='vectors')
    if pat == 'other':
        ck.note('the kind group of the shipped matcher pattern is neither .+? nor [^\\[\\]]+: the render model is not bound to it')
        rvecs = []
    else:
        src = rr if pat == 'lazy' else rn
        rvecs = vplib.read_dump_json(os.path.join(src.dir, 'vectors.dump'))
        if len(rvecs) != src.distinct:
            raise Inconclusive('render dump has %d vectors, TLC reported %d states' % (len(rvecs), src.distinct))
    if not quick:
        tlc_expect_ok(ck, 'Report', 'Report_render4.cfg', 'Report render: one message of <=4 atoms (shipped pattern)')
        r = vplib.run_tlc('Report', 'Report_render_norb.cfg')
        ck.add_tlc('Report render, kind group [^\\]]+ (half repair): expected to fail FaithfulIff', r)
        ck.cov['half_repair_norb'] = 'counterexample found' if r.violated == 'FaithfulIff' else 'NO counterexample'
        if r.violated != 'FaithfulIff':
            raise Inconclusive('control: the half-repaired matcher model should violate FaithfulIff')
        r = vplib.run_tlc('Report', 'Report_snip_noguard.cfg')
        ck.add_tlc('Report snippet with the column guard removed: expected to fail NoPanic', r)
        ck.cov['guard_control'] = 'NoPanic violated without the guard' if r.violated == 'NoPanic' else 'NOT violated'
        if r.violated != 'NoPanic':
            raise Inconclusive('control: the snippet model without the column guard should violate NoPanic')

    # ---- E: the snippet guard model (+ vectors)
    rs = tlc_expect_ok(ck, 'Report', 'Report_snip_quick.cfg' if quick else 'Report_snip_thorough.cfg',
                       'Report snippet: frames x line under test (<=%d of 8 character atoms) x eol x final newline x '
                       'line -1..4 x col -1..6: no slice out of range, declarative snippet rule, PrettyPrint vs '
                       'GetTemplateFields' % (2 if quick else 3), dump='vectors', timeout=3000, heap='4g')
    svecs = vplib.read_dump_json(os.path.join(rs.dir, 'vectors.dump'))
    if len(svecs) != rs.distinct:
        raise Inconclusive('snippet dump has %d vectors, TLC reported %d states' % (len(svecs), rs.distinct))

    # ---- G (a): abstract diagnostic lists through the real PrettyPrint + shipped matcher
    abstract_part(ck, sd, rvecs)

    # ---- G (b): snippet triples
    recs = []
    souts = run_snippets(svecs, sd, 'snip')
    differing = 0
    shown = 0
    for i, (v, o) in enumerate(zip(svecs, souts)):
        rec = snip_record(v, o)
        diff = rec['pp'] != v['pp'] or rec['tf'] != v['tf'] or rec['fmt'] != 'ok'
        if o['pp']['k'] == 'snip':
            shown += 1
        if diff:
            differing += 1
        # every differing vector is judged by TLC; of the agreeing ones a deterministic sample
        if diff or (not quick) or i % 4 == vplib.seed() % 4:
            recs.append((rec, {'kind': 'snip', 'vec': i}))
    ck.cov['evaluations'] += 3 * len(svecs)
    ck.cov['snippet_vectors'] = len(svecs)
    ck.cov['snippet_vectors_differing_from_prediction'] = differing
    ck.cov['distinct_nontrivial'] += shown
    ck.sample({'snippet_vector': {k: svecs[len(svecs) // 2][k] for k in ('src', 'line', 'col', 'pp', 'tf')},
               'real': souts[len(svecs) // 2]})

    # ---- T: echo sites x hostile classes x modes
    sites = load_sites()
    classes = [c for c in CLASSES if not quick or c[0] in QUICK_CLASSES]
    cases = echo_cases(sites, classes)
    outs = run_echo(cases, sd, 'echo')
    live = set()
    skipped = []
    raw_anomaly = []
    cmd_differs = []
    n_echo = 0
    for c, o in zip(cases, outs):
        if o.get('linterr'):
            skipped.append((c['site'], c['cls'], o['linterr']))
            continue
        if o['echoed']:
            live.add(c['site'])
            if c['cls'] != 'plain':
                n_echo += 1
        recs += echo_records(c, o)
        for mode, md in o['modes'].items():
            if md.get('cmd') == 'differs':
                cmd_differs.append((c['id'], mode))
            if mode.startswith('color') and not raw_anomaly:
                # the shipped pattern is written to cope with colour escape sequences itself: the RAW coloured
                # header line must parse back to the same five fields as the colour-free line
                for x in md['ls']:
                    if x.get('g') == 'none' and x.get('r') is not None and x['m']['ok'] and \
                            (not x['r'].get('ok') or any(x['r'].get(k) != x['m'].get(k) for k in ('file', 'line', 'col', 'kind'))):   # (msg may itself contain user-written escape sequences)
                        raw_anomaly.append({'mode': mode, 'line': x['p'], 'raw_parse': x['r'], 'parse_after_stripping': x['m'],
                                            'site': c['site'], 'src': c.get('src', '')})
                        break
    dead = [s['id'] for s in sites if s['id'] not in live]
    ck.cov['echo_sites'] = len(sites)
    ck.cov['echo_runs'] = len(cases)
    ck.cov['echo_runs_with_hostile_text_in_a_message'] = n_echo
    ck.cov['distinct_nontrivial'] += n_echo
    ck.cov['evaluations'] += len(cases) * 6
    if dead:
        ck.note('catalogue sites whose text did not reach a message in this tree: %s' % ', '.join(dead))
        ck.cov['dead_sites'] = dead
        if len(dead) > len(sites) // 4:
            raise Inconclusive('%d of %d catalogue sites do not echo their text: the catalogue does not fit this tree'
                               % (len(dead), len(sites)))
    if skipped:
        ck.note('%d runs skipped because Lint itself failed (not a rendering matter, cf. C01), e.g. %s: %s'
                % (len(skipped), skipped[0][0] + '/' + skipped[0][1], skipped[0][2][:200]))
        ck.cov['runs_skipped_lint_failure'] = len(skipped)
    if raw_anomaly:
        ck.violation('matcher:raw-coloured-header',
                     'with -color the shipped problem matcher does not parse a header line back to the fields of the '
                     'diagnostic: %s' % json.dumps(raw_anomaly[0])[:700], {'kind': 'raw-colour', 'case': raw_anomaly[0]})

    # ---- validation by TLC
    bad, drift = validate(ck, recs, '%d snippet triples, %d echo runs x 6 modes' %
                          (sum(1 for _, b in recs if b['kind'] == 'snip'), len(cases) - len(skipped)), 'trace')
    ck.cov['traces_validated_against_impl'] += len(recs)
    only_drift = [i for i in drift if i not in bad]
    if only_drift:
        rec, br = recs[only_drift[0]]
        ck.note('model drift: %d snippet triples satisfy the property but differ from the operational model, e.g. '
                'vector %s real pp=%s tf=%s' % (len(only_drift), json.dumps(svecs[br['vec']]), rec['pp'], rec['tf']))
        ck.cov['model_drift_records'] = len(only_drift)

    # ---- re-execute every rejected case before reporting it
    report_findings(ck, sd, bad, recs, svecs, cases, sites, cmd_differs, outs)

    # ---- T: several files in one invocation (LintFiles), every mode
    multi_part(ck, sd, sites, quick)
    if not quick:
        selftest(ck, recs)
    ck.sample({'echo_run': {'site': cases[1]['site'], 'class': cases[1]['cls'], 'workflow': cases[1]['src'],
                            'diagnostics': outs[1]['ref'][:2],
                            'oneline_stdout': outs[1]['modes'].get('oneline', {}).get('out', '')[:400]}})
    ck.cov['rule'] = ('evaluation = one rendering of one input by the real code: (source, line, col) triple x '
                      '{PrettyPrint, GetTemplateFields, JSON formatter}, or catalogue workflow x output mode; '
                      'non-trivial = a snippet is shown, or the hostile text reaches a diagnostic message')
    ck.cov['exhaustive'] = False
    ck.assumptions += [
        'the matcher regexp is executed with Go regexp (RE2): JavaScript "." additionally excludes CR, U+2028, U+2029; '
        'CR is counted as a line break by the check itself, the two separators are only recorded',
        'colour escape sequences are removed (the matcher\'s own escape sub-pattern) before the pattern is applied, as '
        'the GitHub runner does; the parse of raw coloured lines is recorded as a note only',
        'file names contain neither ":" nor line breaks (DESIGN 5.22)',
        'display widths are those of go-runewidth with East-Asian ambiguous width off; tab/CR have no defined width '
        'and columns inside a multi-byte character are not constrained',
        'messages of shellcheck/pyflakes diagnostics (external tool output) are not in the catalogue',
        'the echo-site catalogue was compiled by reading the format strings; a site missing from it is not explored',
    ]


# strings a formatting layer could interpret: the instances of the message atom "pc" (Report.tla)
PC_VARIANTS = ['%', '%%', '%s', '%d', '%v', '%!', '%[1]s', '100%', '{{', '}}', '{{.}}', '\\', '\\n', '$1', '%0A', '::',
               '%!d(MISSING)', '%q%c%x',
               # text an encoder / un-escaper could interpret: HTML-sensitive characters, and the JSON escapes of them
               # as literal text
               '<', '>', '&', '\\u003c', '\\u003e', '\\u0026', '\\\\', '\\"', '</script>', '&amp;', 'a\\u003cb<c']
# the documented Markdown template (docs/usage.md) as parts; the snippet is empty for constructed errors
MD_PARTS = [('lit', '### Error at line '), ('line', ''), ('lit', ', col '), ('col', ''), ('lit', ' of `'), ('file', ''),
            ('lit', '`\n\n'), ('msg', ''), ('lit', '\n\n```\n'), ('snip', ''), ('lit', '\n```\n\n')]
FIELD_EXPR = {'line': '{{$err.Line}}', 'col': '{{$err.Column}}', 'file': '{{$err.Filepath}}', 'msg': '{{$err.Message}}',
              'kind': '{{$err.Kind}}', 'snip': '{{$err.Snippet}}'}


def api_templates():
    md = '{{range $err := .}}' + ''.join(v.replace('\n', '\\n') if t == 'lit' else FIELD_EXPR[t] for t, v in MD_PARTS) + '{{end}}'
    t = {'json': '{{json .}}', 'jsonl': '{{range $err := .}}{{json $err}}{{end}}', 'md': md}
    sarif = os.path.join(vplib.REPO, 'testdata', 'format', 'sarif_template.txt')
    if os.path.exists(sarif):
        t['sarif'] = open(sarif, encoding='utf-8').read()
    return t


def parse_structured(name, out):
    """decode the output of a JSON-producing template into the five fields per diagnostic (independent decoder)"""
    def one(x):
        return {'file': x.get('filepath', ''), 'line': x['line'], 'col': x['column'], 'msg': x['message'], 'kind': x['kind']}
    try:
        if name == 'json':
            arr = json.loads(out)
            return True, [one(x) for x in arr]
        if name == 'jsonl':
            return True, [one(json.loads(l)) for l in out.split('\n') if l.strip()]
        if name == 'sarif':
            doc = json.loads(out)
            res = []
            for r in doc['runs'][0]['results']:
                loc = r['locations'][0]['physicalLocation']
                res.append({'file': loc['artifactLocation']['uri'], 'line': loc['region']['startLine'],
                            'col': loc['region']['startColumn'], 'msg': r['message']['text'], 'kind': r['ruleId']})
            return True, res
    except (ValueError, KeyError, TypeError, IndexError):
        pass
    return False, []


def abstract_part(ck, sd, rvecs):
    """G (a): diagnostic lists generated by TLC as constructed Error values through every renderer of the API."""
    if not rvecs:
        return
    templates = api_templates()

    def conc(toks, pc):
        return ''.join(pc if t == 'pc' else MSG_TOK[t] for t in toks)
    cases = []
    for i, v in enumerate(rvecs):
        has_pc = any('pc' in d['msg'] for d in v['ds'])
        # every instance of "pc" for single diagnostics, a rotating one for longer lists
        pcs = [''] if not has_pc else (PC_VARIANTS if len(v['ds']) <= 1 else
                                       [PC_VARIANTS[i % len(PC_VARIANTS)], PC_VARIANTS[(i // 7 + 3) % len(PC_VARIANTS)]])
        for pc in pcs:
            cases.append({'id': len(cases), 'vec': i, 'pc': pc,
                          'ds': [{'file': MSG_TOK['F'], 'line': 3, 'col': 7, 'msg': conc(d['msg'], pc), 'kind': MSG_TOK['K'],
                                  'lb': [], 'ub': []} for d in v['ds']]})

    def run(cs, name):
        fin, fout, ft = os.path.join(sd, name + '_in.jsonl'), os.path.join(sd, name + '_out.jsonl'), os.path.join(sd, name + '_t.json')
        vplib.write_jsonl(fin, [{'id': c['id'], 'ds': c['ds']} for c in cs])
        json.dump(templates, open(ft, 'w'))
        vplib.run_harness(['report-abstract', fin, fout, matcher_path(), ft], env={'GOMAXPROCS': str(vplib.NCPU)})
        res = vplib.read_jsonl(fout)
        if len(res) != len(cs):
            raise Inconclusive('harness returned %d results for %d constructed lists' % (len(res), len(cs)))
        return res

    def records(c, o):
        """property records of one constructed list: text renderers only for messages the pattern can carry"""
        v = rvecs[c['vec']]
        ds = [{k: d[k] for k in ('file', 'line', 'col', 'msg', 'kind', 'lb')} for d in c['ds']]
        recs = []
        carry = v['ds'] and all(v['faithful']) and not any(a in ('lf', 'cr') for d in v['ds'] for a in d['msg'])
        if carry:
            for mode, key in (('api-plain', 'lines'), ('api-range', 'range'), ('api-colour', 'color')):
                dsm = ds if mode != 'api-colour' else [dict(d, msg=ESCAPE.sub('', d['msg'])) for d in ds]
                recs.append(({'k': 'text', 'mode': mode, 'snip': False, 'pre': 0, 'fail': o.get('err', ''), 'ds': dsm,
                              'ls': [{'p': x['p'], 'g': x['g'], 'n': x['n'], 'eq': x['eq'], 'm': x['m']} for x in o[key] or []]},
                             {'kind': 'api', 'case': c['id'], 'mode': mode}))
        for name in sorted(templates):
            out = o['tmpl'].get(name, '\x00error: no output')
            fail = out[1:] if out.startswith('\x00') else ''
            if name == 'md':
                recs.append(({'k': 'tmpl', 'mode': 'api-md', 'fail': fail, 'ds': ds, 'out': out,
                              'parts': [{'t': t, 'v': val} for t, val in MD_PARTS if t != 'snip']},
                             {'kind': 'api', 'case': c['id'], 'mode': 'api-md'}))
            else:
                ok, parsed = parse_structured(name, out) if not fail else (False, [])
                recs.append(({'k': 'json', 'mode': 'api-' + name, 'fail': fail, 'ok': ok, 'ds': ds, 'parsed': parsed},
                             {'kind': 'api', 'case': c['id'], 'mode': 'api-' + name}))
        return recs

    outs = run(cases, 'abs')
    mism = []
    recs = []
    for c, o in zip(cases, outs):
        v = rvecs[c['vec']]
        if o.get('err'):
            # rendering constructed errors must not fail
            recs.append(({'k': 'json', 'mode': 'api', 'fail': o['err'], 'ok': False, 'ds': [], 'parsed': []},
                         {'kind': 'api', 'case': c['id'], 'mode': 'api'}))
            continue
        # model binding: predicted lines / captures vs. the real PrettyPrint + shipped pattern
        for which in ('lines', 'range', 'color'):
            real = o[which] or []
            want = v['lines'] or []
            ok = len(real) == len(want)
            if ok:
                for w, r in zip(want, real):
                    m = r['m']
                    exp = {'ok': w['ok'], 'file': conc(w['file'], c['pc']), 'msg': conc(w['msg'], c['pc']), 'kind': conc(w['kind'], c['pc'])}
                    got = {'ok': m['ok'], 'file': m['file'], 'msg': m['msg'], 'kind': m['kind']}
                    if r['p'] != conc(w['toks'], c['pc']) or exp != got or \
                            (w['ok'] and (m['line'], m['col']) != {'P': (3, 7), 'pp': (1, 2)}[w['toks'][w['pos'] - 1]]):
                        ok = False
            if not ok:
                mism.append({'ds': v['ds'], 'pc': c['pc'], 'path': which, 'predicted': v['lines'], 'real': real})
        recs += records(c, o)
    ck.cov['evaluations'] += (3 + len(templates)) * len(cases)
    ck.cov['abstract_lists_printed_and_parsed_back'] = len(cases)
    ck.cov['api_renderers'] = ['PrettyPrint', 'PrettyPrint+colour', 'header template'] + sorted(templates)
    ck.cov['distinct_nontrivial'] += sum(1 for c in cases if c['pc'] or not all(rvecs[c['vec']]['faithful']))
    # the property on the constructed values, judged by TLC
    bad, _ = validate(ck, recs, '%d constructed diagnostic lists x API renderers' % len(cases), 'trace-api')
    ck.cov['traces_validated_against_impl'] += len(recs)
    if bad:
        ids = sorted({recs[i][1]['case'] for i in bad})
        sub = [dict(cases[k]) for k in ids[:200]]
        outs2 = run(sub, 'abs-rerun')
        recs2 = []
        for c2, o2 in zip(sub, outs2):
            if o2.get('err'):
                recs2.append(({'k': 'json', 'mode': 'api', 'fail': o2['err'], 'ok': False, 'ds': [], 'parsed': []},
                              {'kind': 'api', 'case': c2['id'], 'mode': 'api'}))
            else:
                recs2 += records(c2, o2)
        bad2, _ = validate(ck, recs2, 're-execution of rejected constructed lists', 'trace-api-rerun')
        groups = {}
        for j, code in sorted(bad2.items()):
            rec, br = recs2[j]
            g = groups.setdefault('api:%s:%s' % (code, br['mode']), {'n': 0, 'first': None})
            g['n'] += 1
            if g['first'] is None:
                c = cases[br['case']]
                shown = rec.get('out') if rec['k'] == 'tmpl' else ([x['p'] for x in rec['ls']] if rec['k'] == 'text' else rec.get('parsed'))
                g['first'] = ('constructed errors with messages %s rendered by %s: %s; observed %s'
                              % ([short(d['msg'], 80) for d in c['ds']], br['mode'],
                                 explain(code, rec)[0] if code != 'template' else 'the template output is not the parts with the fields filled in verbatim',
                                 short(shown, 300)),
                              {'kind': 'api', 'code': code, 'mode': br['mode'], 'ds': c['ds']})
        for site, g in sorted(groups.items()):
            ck.violation(site, g['first'][0] + ' (%d rejected records)' % g['n'], g['first'][1])
        if not bad2:
            raise Inconclusive('%d rejected API records were not rejected again when re-executed' % len(bad))
    if mism:
        ck.note('model drift: %d of %d constructed diagnostic lists are printed/parsed differently from the render '
                'model (the model of PrettyPrint or of the matcher regexp does not fit this tree), e.g. %s'
                % (len(mism), len(cases), json.dumps(mism[0])[:700]))
        ck.cov['abstract_model_drift'] = len(mism)
    ck.sample({'abstract_vector': rvecs[len(rvecs) // 2]})


def anchor(msg):
    """the fixed text of a message in front of the echoed (hostile) string: identifies the format call"""
    pre = msg.split('zq', 1)[0]
    pre = re.sub(r'"(?:[^"\\]|\\.)*"', '%q', pre)      # complete quoted operands
    pre = pre.split('"', 1)[0]                           # the echoed string sits inside a quoted operand
    pre = re.split(r'(?<=type )\{', pre)[0]              # a printed object type
    pre = re.sub(r'\d+', 'N', pre)
    return pre.rstrip(' \'`:[(@=')[:100]


def explain(code, rec):
    if code == 'linebreak':
        d = next(x for x in rec['ds'] if x['lb'])
        return 'the message of a diagnostic contains a line break (%s): %s' % ('+'.join(d['lb']), short(d['msg'], 300)), d
    if code in ('header', 'count', 'matcher', 'snippet'):
        return {'header': 'a header line is not `file:line:col: message [kind]` of the diagnostic at its place',
                'count': 'the number of header lines differs from the number of diagnostics',
                'matcher': 'the shipped matcher pattern does not parse a header line back to the diagnostic',
                'snippet': 'the snippet below a header is not the referenced source line'}[code], None
    if code == 'json':
        return '-format {{json .}} does not round-trip the diagnostics', None
    if code == 'fails':
        return 'rendering failed: ' + rec['fail'][:300], None
    return code, None


def first_matcher_failure(rec):
    """for a 'matcher' verdict: the header line whose parse differs (lines and diagnostics are aligned up to there)"""
    i = 0
    p = 0
    ls, ds = rec['ls'], rec['ds']
    while i < len(ds) and p < len(ls):
        d, x = ds[i], ls[p]
        m = x['m']
        if not (m['ok'] and (m['file'], m['line'], m['col'], m['msg'], m['kind']) ==
                (d['file'], d['line'], d['col'], d['msg'], d['kind'])):
            return d, m
        if rec['snip'] and p + 3 <= len(ls) - 1 and (ls[p + 1]['g'], ls[p + 2]['g'], ls[p + 3]['g']) == ('bar', 'src', 'ind'):
            p += 4
        else:
            p += 1
        i += 1
    return None, None


def report_findings(ck, sd, bad, recs, svecs, cases, sites, cmd_differs, outs):
    where = {s['id']: s['where'] for s in sites}
    # --- which cases to re-run
    rerun_cases = sorted({recs[i][1]['case'] for i in bad if recs[i][1]['kind'] == 'echo'} | {c for c, _ in cmd_differs})
    rerun_vecs = sorted({recs[i][1]['vec'] for i in bad if recs[i][1]['kind'] == 'snip'})
    again = {}
    if rerun_cases or rerun_vecs:
        recs2 = []
        if rerun_cases:
            sub = [dict(cases[c], id=k) for k, c in enumerate(rerun_cases)]
            outs2 = run_echo(sub, sd, 'rerun')
            for k, c in enumerate(rerun_cases):
                if outs2[k].get('linterr'):
                    continue
                for rec, br in echo_records(sub[k], outs2[k]):
                    recs2.append((rec, {'kind': 'echo', 'case': c, 'mode': br['mode']}))
                for mode, md in outs2[k]['modes'].items():
                    # same difference twice, both outputs stable, and not a mere reordering of lines
                    # (the order of same-position diagnostics is C02's subject)
                    if md.get('cmd') == 'differs' and (c, mode) in cmd_differs and \
                            md['out'] == outs[c]['modes'][mode]['out'] and \
                            md.get('cmdout') == outs[c]['modes'][mode].get('cmdout') and \
                            sorted(md.get('cmdout', '').split('\n')) != sorted(md['out'].split('\n')):
                        again[('cmd', c, mode)] = md
        if rerun_vecs:
            souts2 = run_snippets([svecs[i] for i in rerun_vecs], sd, 'resnip')
            for i, o in zip(rerun_vecs, souts2):
                recs2.append((snip_record(svecs[i], o), {'kind': 'snip', 'vec': i}))
        bad2, _ = validate(ck, recs2, 're-execution of rejected cases', 'trace-rerun')
        for j, code in bad2.items():
            br = recs2[j][1]
            key = ('echo', br['case'], br['mode']) if br['kind'] == 'echo' else ('snip', br['vec'])
            again[key] = (code, recs2[j][0])
    unrepro = 0
    # --- group: one finding per (site, clause), with the modes and classes it was seen in
    groups = {}
    matcher_bracket = []
    for i, code in sorted(bad.items()):
        rec, br = recs[i]
        if br['kind'] == 'snip':
            key = ('snip', br['vec'])
            if key not in again:
                unrepro += 1
                continue
            code2, rec2 = again[key]
            v = svecs[br['vec']]
            site = 'snippet:%s' % code2
            g = groups.setdefault(site, {'n': 0, 'first': None})
            g['n'] += 1
            if g['first'] is None:
                g['first'] = ('(line=%d, col=%d) on source %s: PrettyPrint -> %s, GetTemplateFields -> %s, JSON formatter -> %s; '
                              'the snippet rule of Report.tla rejects it (%s)'
                              % (v['line'], v['col'], short(concrete_src(v['src']), 80), rec2['pp'], rec2['tf'], rec2['fmt'], code2),
                              {'kind': 'snip', 'code': code2, 'vector': {k: v[k] for k in ('src', 'line', 'col')},
                               'source': concrete_src(v['src']) if len(concrete_src(v['src'])) < 500 else '(long)'})
            continue
        c = cases[br['case']]
        key = ('echo', br['case'], br['mode'])
        if key not in again:
            unrepro += 1
            continue
        code2, rec2 = again[key]
        if code2 == 'linebreak':
            # one finding per echoing format call (identified by the fixed text in front of the echoed string)
            for d in rec2['ds']:
                if not d['lb']:
                    continue
                site = 'echo:%s:%s' % (d['kind'], anchor(d['msg']))
                g = groups.setdefault(site, {'n': 0, 'first': None, 'modes': set(), 'classes': set(), 'wfs': set(),
                                             'lbs': set()})
                g['n'] += 1
                g['lbs'].update(d['lb'])
                g['modes'].add(br['mode'])
                g['classes'].add(c['cls'])
                g['wfs'].add(c['site'])
                if g['first'] is None:
                    g['first'] = ('the message of a diagnostic contains a line break (%s): %s; workflow of catalogue entry %s [%s], '
                                  'class %s, mode %s' % ('+'.join(d['lb']), short(d['msg'], 300), c['site'],
                                                         where.get(c['site'], ''), c['cls'], br['mode']),
                                  {'kind': 'echo', 'code': code2, 'anchor': anchor(d['msg']), 'site_id': c['site'], 'cls': c['cls'],
                                   'mode': br['mode'], 'case': {k: c[k] for k in c if k != 'id'}, 'message': d['msg'],
                                   'where': where.get(c['site'], '')})
            continue
        text, d = explain(code2, rec2)
        if code2 == 'matcher':
            d, m = first_matcher_failure(rec2)
            if d is not None and m['ok'] and (m['file'], m['line'], m['col']) == (d['file'], d['line'], d['col']) and \
                    d['msg'].startswith(m['msg'] + ' [') and not d['lb']:
                matcher_bracket.append((c, br['mode'], d, m))
                continue
            if d is not None:
                text += ': %s parsed as %s' % (short(d['msg'], 200), json.dumps(m)[:300])
        site = 'render:%s:%s' % (code2, br['mode'])       # a defect of the renderer, not of an echo site
        g = groups.setdefault(site, {'n': 0, 'first': None, 'modes': set(), 'classes': set(), 'wfs': set()})
        g['n'] += 1
        g['modes'].add(br['mode'])
        g['classes'].add(c['cls'])
        g['wfs'].add(c['site'])
        if g['first'] is None:
            g['first'] = ('%s [%s], class %s, mode %s: %s' % (c['site'], where.get(c['site'], ''), c['cls'], br['mode'], text),
                          {'kind': 'echo', 'code': code2, 'site_id': c['site'], 'cls': c['cls'], 'mode': br['mode'],
                           'case': {k: c[k] for k in c if k != 'id'},
                           'message': d['msg'] if d else None, 'where': where.get(c['site'], '')})
    for site, g in sorted(groups.items()):
        what, rp = g['first']
        if 'modes' in g:
            rp['modes_seen'] = sorted(g['modes'])
            rp['classes_seen'] = sorted(g['classes'])
            rp['catalogue_entries_seen'] = sorted(g['wfs'])
            if 'lbs' in g:
                rp['linebreaks_seen'] = sorted(g['lbs'])
            what += ' (seen in %d recorded runs: modes %s; classes %s; %d catalogue workflows)' % (
                g['n'], ','.join(sorted(g['modes'])), ','.join(sorted(g['classes'])), len(g['wfs']))
        else:
            what += ' (%d triples)' % g['n']
        ck.violation(site, what, rp)
    if matcher_bracket:
        c, mode, d, m = matcher_bracket[0]
        affected = sorted({x[0]['site'] for x in matcher_bracket})
        ck.violation('matcher:message-group-stops-at-first-bracket',
                     'the shipped pattern (.github/actionlint-matcher.json, lazy message group followed by " \\[(.+?)\\]$") '
                     'parses the header of message %s back as message=%s kind=%s: every message that echoes text containing '
                     '" [" is cut there (%d header lines at %d echo sites, first: %s class %s mode %s)'
                     % (short(d['msg'], 220), short(m['msg'], 120), short(m['kind'], 220), len(matcher_bracket), len(affected),
                        c['site'], c['cls'], mode),
                     {'kind': 'echo', 'code': 'matcher', 'defect': 'matcher-message-bracket', 'site_id': c['site'], 'cls': c['cls'],
                      'mode': mode, 'case': {k: c[k] for k in c if k != 'id'}, 'message': d['msg'], 'parsed_message': m['msg'],
                      'parsed_kind': m['kind'], 'sites_affected': affected})
    for (cid, mode) in cmd_differs:
        md = again.get(('cmd', cid, mode))
        if md is None:
            continue
        c = cases[cid]
        ck.violation('command-main:%s' % mode,
                     'stdout of Command.Main %s differs from the output of Linter with the same options, twice: %s vs %s'
                     % (mode, short(md.get('cmdout', ''), 200), short(md['out'], 200)),
                     {'kind': 'cmd', 'mode': mode, 'case': {k: c[k] for k in c if k != 'id'}})
        break
    if unrepro:
        raise Inconclusive('%d rejected records were not rejected again when re-executed' % unrepro)


def selftest(ck, recs):
    """binding self-test: corrupted records must be rejected"""
    def pick(pred, corrupt):
        for rec, br in recs:
            if pred(rec):
                r = json.loads(json.dumps(rec))
                corrupt(r)
                return (r, br)
        raise Inconclusive('binding self-test: no suitable record')

    def drop_line(r):
        r['ls'] = r['ls'][:-1]

    def change_msg(r):
        r['parsed'][0]['msg'] += 'x'

    def other_line(r):
        r['pp']['shown'] += 1
    sel = [pick(lambda r: r['k'] == 'text' and r['ds'] and not r['fail'] and r['mode'] == 'oneline', drop_line),
           pick(lambda r: r['k'] == 'json' and r['ds'] and r['ok'], change_msg),
           pick(lambda r: r['k'] == 'snip' and r['pp']['k'] == 'snip' and r['pp']['ind'] and r['pp']['caret'] > 0, other_line)]
    bad, _ = validate(None, sel, 'self-test', 'trace-selftest')
    ok = sorted(bad) == list(range(len(sel))) and len(sel) == 3
    ck.cov['binding_selftest'] = 'rejected' if ok else 'NOT rejected: %r' % (bad,)
    if not ok:
        raise Inconclusive('binding self-test failed: corrupted records not rejected (%r)' % (bad,))


# ---------------------------------------------------------------------------------- replay

def replay(path):
    rp = json.load(open(path))['replay']
    sd = vplib.subdir('c16r')
    if rp['kind'] == 'snip':
        v = rp['vector']
        o = run_snippets([v], sd, 'r')[0]
        rec = snip_record(v, o)
        print('PrettyPrint -> %s\nGetTemplateFields -> %s\nJSON formatter -> %s' % (rec['pp'], rec['tf'], rec['fmt']))
        bad, _ = validate(None, [(rec, {})], 'replay', 'trace-replay')
        print('property violated (%s)' % bad[0] if bad else 'property holds')
        return 1 if bad else 0
    if rp['kind'] in ('multi', 'multi-cmd', 'multi-order'):
        case = dict(rp['case'], id=0)
        o = run_multi([case], sd, 'r')[0]
        if o.get('linterr'):
            print('lint failed: ' + o['linterr'])
            return 0
        if rp['kind'] == 'multi-order':
            seen = []
            for d in o['modes']['oneline']['diags']:
                if d['file'] not in seen:
                    seen.append(d['file'])
            want = [n for j, n in enumerate(o['names']) if j != case['clean_at'] and n in seen]
            print('files in the order of the diagnostics: %s; arguments: %s' % (seen, o['names']))
            return 1 if seen != want else 0
        if rp['kind'] == 'multi-cmd':
            print('Command.Main stdout %s' % o['modes'][rp['mode']]['cmd'])
            return 1 if o['modes'][rp['mode']]['cmd'] == 'differs' else 0
        print('%d diagnostics; stdout of mode %s:\n%s' % (len(o['modes'][rp['mode']]['diags']), rp['mode'], o['modes'][rp['mode']]['out']))
        recs = multi_records([case], [o])
        bad, _ = validate(None, recs, 'replay', 'trace-replay')
        for i, code in sorted(bad.items()):
            print('mode %-14s rejected: %s' % (recs[i][1]['mode'], explain_multi(code)))
        same = [i for i, code in bad.items() if code == rp['code'] and recs[i][1]['mode'] == rp['mode']]
        print('property violated' if same else 'property holds (for the recorded clause)')
        return 1 if same else 0
    case = dict(rp['case'], id=0)
    o = run_echo([case], sd, 'r')[0]
    if o.get('linterr'):
        print('lint failed: ' + o['linterr'])
        return 0
    if rp['kind'] == 'cmd':
        md = o['modes'][rp['mode']]
        print('Command.Main stdout %s' % md['cmd'])
        return 1 if md['cmd'] == 'differs' else 0
    recs = echo_records(case, o)
    for d in o['ref']:
        print('diagnostic: %s:%d:%d: %r [%s]' % (d['file'], d['line'], d['col'], d['msg'], d['kind']))
    print('-oneline stdout:\n' + o['modes']['oneline']['out'])
    bad, _ = validate(None, recs, 'replay', 'trace-replay')
    for i, code in sorted(bad.items()):
        print('mode %-14s rejected: %s' % (recs[i][1]['mode'], explain(code, recs[i][0])[0]))
    same = [i for i, code in bad.items() if code == rp['code']]
    print('property violated' if same else 'property holds (for the recorded clause)')
    return 1 if same else 0
