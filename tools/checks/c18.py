"""C18 - job dependency checks are exact for every needs graph.

E: TLC checks Needs.tla: the code's algorithm (dedup, DFS from every map order, collectCycle, start
   choice, printing walk with fuel) satisfies the declarative property on every graph of the
   bounded universes (3 jobs ordered lists; 4 jobs all edge sets; 3 jobs with dangling/duplicate ids).
G: the same runs dump every graph; the real RuleJobNeeds is run on each through the Visitor (several
   times: Go's map order picks the DFS entry point) and a part through YAML + Linter.Lint.
T: all recorded real outputs - plus random graphs with 5..12 jobs - are validated by TLC
   (NeedsTrace.tla) with the declarative predicates only (Cyclic, IsCyclePath, dangling).
"""
import json
import os
import random
import re

import vplib
from vplib import Inconclusive

LEVEL = 'model_checking'


def parse_mism(out):
    m = re.search(r'<<\s*"MISM",\s*(\d+),\s*<<(.*?)>>,\s*<<(.*?)>>\s*>>', out, re.S)
    if not m:
        raise Inconclusive('trace validation produced no verdict:\n' + out[-2000:])
    body = m.group(2).strip()
    return [int(x) for x in body.replace('\n', ' ').split(',') if x.strip()] if body else []


def random_graph(rng, n):
    g = []
    style = rng.random()
    for j in range(1, n + 1):
        if style < 0.4:     # sparse, mostly forward edges (few cycles)
            k = rng.choice([0, 0, 1, 1, 2])
            l = []
            for _ in range(k):
                t = rng.randint(1, n)
                if rng.random() < 0.8 and t >= j:
                    t = rng.randint(1, max(1, j - 1)) if j > 1 else t
                l.append(t)
        elif style < 0.8:   # denser
            l = [rng.randint(1, n) for _ in range(rng.choice([0, 1, 2, 3]))]
        else:               # with dangling ids and duplicates
            l = [rng.choice([0, 99] + list(range(1, n + 1))) for _ in range(rng.choice([0, 1, 2, 3, 4]))]
        g.append(l)
    return g


def run(ck, tier):
    sd = vplib.subdir('c18')
    cfgs = [('Needs_n1.cfg', '1 job: self dependency, dangling and duplicate entries'),
            ('Needs_n2.cfg', '2 jobs, lists <= 2 with dangling and duplicate ids'),
            ('Needs_dang.cfg', '2 jobs, lists <= 3 over two job ids and TWO distinct dangling ids (0 and 9), duplicates allowed'),
            ('Needs_q3.cfg', '3 jobs, every ordered needs list (4096 graphs) x 6 root orders'),
            ('Needs_vec3.cfg', '3 jobs, lists <=2 with dangling and duplicate ids (9261 graphs)'),
            ('Needs_q4.cfg', '4 jobs, every edge set (65536 graphs) x 24 root orders')]
    if tier == 'thorough':
        cfgs.append(('Needs_t4.cfg', '4 jobs, ordered lists <=2 (83521 graphs) x 24 root orders'))
    vecs = []
    for cfg, what in cfgs:
        r = vplib.run_tlc('Needs', cfg, dump='vectors', timeout=2400)
        ck.add_tlc('Needs %s' % what, r)
        if r.violated:
            raise Inconclusive('specification Needs.tla violates %s under %s (model level)' % (r.violated, cfg))
        vs = vplib.read_dump_json(os.path.join(r.dir, 'vectors.dump'))
        if len(vs) != r.distinct:
            raise Inconclusive('dump/states mismatch for ' + cfg)
        vecs += vs
    rng = random.Random(vplib.seed())
    nrand = 20000 if tier == 'quick' else 200000
    for _ in range(nrand):
        vecs.append({'needs': random_graph(rng, rng.choice([5, 5, 5, 6, 7, 8, 10, 12])), 'random': True})
    # large graphs: rings and chains far longer than any fixed recursion bound, a tail into a ring, two disjoint rings
    def ring(n, off=0):
        return [[(j % n) + 1 + off] for j in range(1, n + 1)]
    big = []
    for n_ in (300, 700):
        big.append(ring(n_))
        big.append([[]] + [[j] for j in range(1, n_)])                       # chain, no cycle
        big.append([[j + 2] for j in range(0, 50)] + ring(n_ - 50, 50))     # tail of 50 into a ring
    big.append(ring(150) + ring(150, 150))
    big_keys = {json.dumps(g) for g in big}
    vecs += [{'needs': g, 'random': True} for g in big]
    seen = set()
    inp = []
    for v in vecs:
        k = json.dumps(v['needs'])
        if k in seen:
            continue
        seen.add(k)
        inp.append({'id': len(inp), 'needs': v['needs']})
    vplib.write_jsonl(os.path.join(sd, 'in.jsonl'), inp)
    reps = 8 if tier == 'quick' else 24
    p = vplib.run_harness(['needs-run', os.path.join(sd, 'in.jsonl'), os.path.join(sd, 'trace.ndjson'), str(reps), '7'],
                          check=False, timeout=3000)
    if p.returncode == 3:
        m = re.search(r'HANG id=(\d+)', p.stderr.decode())
        g = inp[int(m.group(1))]['needs'] if m else None
        ck.violation('hang', 'RuleJobNeeds does not terminate within 20 s on graph %s' % g, {'kind': 'hang', 'needs': g})
        return
    if p.returncode != 0:
        raise Inconclusive('harness needs-run failed: ' + p.stderr.decode()[-2000:])
    text = open(os.path.join(sd, 'trace.ndjson')).read()
    lines = text.splitlines()
    recs = [json.loads(x) for x in lines]
    for rec in recs:
        bad = [o for o in rec['other']]
        if bad:
            raise Inconclusive('observable not understood: %r on graph %s' % (bad[:2], rec['needs']))
    # graphs far beyond the model bound (hundreds of jobs) are judged here by the same declarative property (TLC's
    # set-based reachability is cubic in the number of jobs): exactly one cycle diagnostic iff the graph is cyclic,
    # and the printed path is a simple cycle of the graph
    def cyclic(g):
        state = [0] * (len(g) + 1)
        for s0 in range(1, len(g) + 1):
            if state[s0]:
                continue
            stack = [(s0, iter(g[s0 - 1]))]
            state[s0] = 1
            while stack:
                v, it = stack[-1]
                nxt = next(it, None)
                if nxt is None:
                    state[v] = 2
                    stack.pop()
                elif 1 <= nxt <= len(g):
                    if state[nxt] == 1:
                        return True
                    if state[nxt] == 0:
                        state[nxt] = 1
                        stack.append((nxt, iter(g[nxt - 1])))
        return False
    small_lines = []
    small_recs = []
    for ln, rec in zip(lines, recs):
        if json.dumps(rec['needs']) not in big_keys:
            small_lines.append(ln)
            small_recs.append(rec)
            continue
        g = rec['needs']
        ok = rec['status'] == 'ok' and not rec['dangling'] and len(rec['cycles']) == (1 if cyclic(g) else 0)
        for c_ in rec['cycles']:
            p_ = c_['path']
            ok = ok and len(p_) >= 2 and p_[0] == p_[-1] and len(set(p_[:-1])) == len(p_) - 1 and \
                all(1 <= a <= len(g) and b in g[a - 1] for a, b in zip(p_, p_[1:]))
        if not ok:
            ck.violation('needs-graph:%s:large' % rec['via'],
                         'graph of %d jobs (via %s): status=%s dangling=%s cycles=%s is not what the declarative graph property demands '
                         '(cyclic=%s)' % (len(g), rec['via'], rec['status'], rec['dangling'][:3], [c_['path'][:6] for c_ in rec['cycles']], cyclic(g)),
                         {'kind': 'graph', 'needs': g, 'via': rec['via'], 'observed': rec})
    ck.cov['large_graphs_judged_in_driver'] = len(recs) - len(small_recs)
    recs, text = small_recs, '\n'.join(small_lines) + '\n'
    t = vplib.run_tlc('NeedsTrace', 'NeedsTrace.cfg', workers=1, files={'trace.ndjson': text}, timeout=3000, heap='4g')
    ck.add_tlc('NeedsTrace: %d recorded executions of the real rule (declarative judgement)' % len(recs), t)
    mism = parse_mism(t.out)
    for idx in mism:
        rec = recs[idx - 1]
        ck.violation('needs-graph:%s' % rec['via'],
                     'graph %s (via %s): status=%s dangling=%s cycles=%s is not what the declarative graph property '
                     'demands' % (rec['needs'], rec['via'], rec['status'], rec['dangling'], rec['cycles']),
                     {'kind': 'graph', 'needs': rec['needs'], 'via': rec['via'], 'observed': rec})
    cyc = sum(1 for r in recs if r['cycles'])
    ck.cov['evaluations'] += len(inp) * reps
    ck.cov['traces_validated_against_impl'] += len(recs)
    ck.cov['distinct_nontrivial'] += sum(1 for r in recs if r['cycles'] or r['dangling'])
    ck.cov['graphs'] = len(inp)
    ck.cov['records_with_cycle'] = cyc
    ck.cov['records_via_lint'] = sum(1 for r in recs if r['via'] == 'lint')
    ck.cov['graphs_with_two_outcomes'] = len(recs) - len({(r['id'], r['via']) for r in recs})
    ck.cov['rule'] = ('all graphs of the TLC state spaces (3 jobs ordered/dangling/duplicate lists, 4 jobs all edge sets) '
                      'plus seeded random graphs with 5..12 jobs, each run %d times on the real rule; non-trivial = a '
                      'cycle or a dangling reference is reported' % reps)
    ck.cov['exhaustive'] = True
    for r in recs[:3] + [r for r in recs if r['cycles']][:2]:
        ck.sample(r)
    ck.assumptions += ['job ids are valid identifiers; position of job k is line-ordered by k',
                       'seven graphs of 300-700 jobs (rings, chains, a tail into a ring, two disjoint rings) are judged by the driver with the same '
                       'declarative property instead of TLC',
                       'Go map iteration order cannot be forced: each graph is run several times to vary the DFS entry '
                       'point (sound, not complete); the model covers every order']
    if tier == 'thorough':
        rec = dict(recs[next(i for i, r in enumerate(recs) if r['cycles'] and len(r['needs']) >= 2)])
        rec['cycles'] = [{'at': rec['cycles'][0]['at'], 'path': rec['cycles'][0]['path'][:-1] + [rec['cycles'][0]['path'][0] % len(rec['needs']) + 1]}]
        t2 = vplib.run_tlc('NeedsTrace', 'NeedsTrace.cfg', workers=1, files={'trace.ndjson': json.dumps(rec) + '\n'},
                           name='selftest', timeout=600)
        ok = parse_mism(t2.out) == [1]
        ck.cov['binding_selftest'] = 'rejected' if ok else 'NOT rejected'
        if not ok:
            raise Inconclusive('binding self-test failed: corrupted record %s judged %r; TLC said: %s' % (json.dumps(rec), parse_mism(t2.out), t2.out[-600:]))


def replay(path):
    rp = json.load(open(path))['replay']
    sd = vplib.subdir('c18r')
    vplib.write_jsonl(os.path.join(sd, 'in.jsonl'), [{'id': 0, 'needs': rp['needs']}])
    p = vplib.run_harness(['needs-run', os.path.join(sd, 'in.jsonl'), os.path.join(sd, 'trace.ndjson'), '64', '1'],
                          check=False, timeout=120)
    if p.returncode == 3:
        print('hang reproduced')
        return 1
    text = open(os.path.join(sd, 'trace.ndjson')).read()
    print(text)
    t = vplib.run_tlc('NeedsTrace', 'NeedsTrace.cfg', workers=1, files={'trace.ndjson': text}, timeout=600)
    mism = parse_mism(t.out)
    print('property violated by records', mism if mism else 'none')
    return 1 if mism else 0
