"""C14 - calls are checked exactly against the callee's declared interface.

E: TLC checks Calls.tla: the operational layer (metadata derivations + checkAction /
   checkWorkflowCallUsesLocal / outputs typing / typed `with:` check as written in the code) reports
   exactly what the declarative Expected(iface, call) demands on the bounded universe, and the
   derivations of "required" agree within a callee kind on all required x default declarations
   (Calls_derive.cfg; a disagreement is a model-level signal that is confirmed on the real code by G).
G: every (declaration, call) of the TLC state spaces is dumped with the expected diagnostics; the
   harness materialises the callee (local action, reusable workflow in a temporary repository, synthetic
   entry of the bundled table decoded like the generator does), lints the caller with the real Linter
   and the (class, name) sets are compared.  Reusable workflows go through every real path by which the
   interface is obtained: caller alone (file), caller + callee with the callee registered first
   (in-memory AST), caller + callee with the caller first (file, multi-file run); a sample also runs
   without a forced schedule.
T: the bundled data set is enumerated completely (every entry of PopularActions and
   OutdatedPopularActionSpecs x generated call sites); TLC (CallsTrace) validates every record.
"""
import collections
import json
import os
import random
import re

import vplib
from vplib import Inconclusive

LEVEL = 'model_checking'

QUICK = [('Calls_req_quick.cfg', 'all kinds, <=2 inputs x 12 required/default declarations x supplied/omitted/case-flipped/extra'),
         ('Calls_types_quick.cfg', 'reusable workflow, <=2 typed inputs x 11 value kinds'),
         ('Calls_secrets.cfg', 'reusable workflow, <=2 secrets x required x supplied/omitted/extra/inherit'),
         ('Calls_outputs.cfg', 'all kinds, <=2 outputs x references declared/undeclared/case-flipped, skip_inputs/skip_outputs'),
         ('Calls_names.cfg', 'actions declaring inputs named args / entrypoint'),
         ('Calls_wfreq.cfg', 'reusable workflow, one input and a secret x every spelling of required: (true True TRUE false '
                             'False yes on y quoted-true 1) x default absent/value x supplied/omitted/inherit'),
         ('Calls_values.cfg', 'reusable workflow, one input of type string/number/boolean/untyped x every literal value (scalar style '
                              'plain/single/double x text class) and placeholder kind'),
         ('Calls_uses.cfg', 'local action in a sub-directory and at the repository root x every spelling of `uses:` that denotes '
                            'it x inputs and steps.*.outputs'),
         ('Calls_mix.cfg', 'reusable workflow, input x <=2 secrets x output together: with / secrets / inherit / needs.*.outputs')]
THOROUGH = [('Calls_req3.cfg', 'all kinds, <=3 inputs x 12 declarations x supplied(case-flipped)/omitted'),
            ('Calls_req_spell.cfg', 'all kinds, <=2 inputs, every declared spelling x every call spelling'),
            ('Calls_types.cfg', 'reusable workflow, <=2 typed inputs (required/default variants) x 11 value kinds'),
            ('Calls_wfreq2.cfg', 'reusable workflow, <=2 inputs and a secret x every spelling of required: x default absent/value'),
            ('Calls_values2.cfg', 'reusable workflow, <=2 inputs x 4 declared types x 43 value kinds (styles x classes, placeholders)')]


def dkey(ds):
    return sorted((x['class'], x['name']) for x in ds)


def decl_shape(v, names):
    """required/default shape of the declared inputs / secrets whose spelling or id occurs in `names`."""
    out = set()
    for i in v['d']['inputs']:
        if i['n']['sp'] in names or i['n']['id'] in names:
            out.add('input:required=%s,default=%s' % (i['req'], i['def']))
    for s in v['d']['secrets']:
        if s['n']['sp'] in names or s['n']['id'] in names:
            out.add('secret:required=%s' % s['req'])
    return sorted(out)


def parse_mism(out):
    m = re.search(r'<<\s*"MISM",\s*(\d+),\s*<<(.*?)>>,\s*<<(.*?)>>\s*>>', out, re.S)
    if not m:
        raise Inconclusive('trace validation produced no verdict:\n' + out[-2000:])

    def ints(body):
        body = body.strip()
        return [int(x) for x in body.replace('\n', ' ').split(',') if x.strip()] if body else []
    return ints(m.group(2)), ints(m.group(3))


def run_vectors(sd, vecs, name):
    inp = os.path.join(sd, name + '-in.jsonl')
    outp = os.path.join(sd, name + '-out.jsonl')
    vplib.write_jsonl(inp, vecs)
    work = os.path.join(sd, name + '-repos')
    os.makedirs(work, exist_ok=True)
    vplib.run_harness(['calls-run', inp, outp, work], timeout=3000)
    return vplib.read_jsonl(outp)


def derive_part(ck):
    r = vplib.run_tlc('Calls', 'Calls_derive.cfg', timeout=600)
    ck.add_tlc('Calls: derivations of "required" (bundled table, action.yml, workflow file, workflow AST) on all 12 '
               'required x default declarations; secrets', r)
    m = re.search(r'<<"DEVIATING", "(.*)">>', r.out)
    if not m:
        raise Inconclusive('Calls_derive produced no report:\n' + r.out[-1500:])
    rows = json.loads(json.loads('"' + m.group(1) + '"'))
    if r.violated and r.violated != 'DerivationsAgree':
        raise Inconclusive('specification Calls.tla violates %s (model level)' % r.violated)
    if bool(rows) != bool(r.violated):
        raise Inconclusive('Calls_derive: report and verdict disagree')
    return rows


def run(ck, tier):
    sd = vplib.subdir('c14')
    rng = random.Random(vplib.seed())
    deviating = derive_part(ck)
    if deviating:
        ck.note('model level: the transcribed derivations of "required" disagree on %s; confirmed or refuted on the real '
                'code below' % json.dumps(deviating))

    # ---- E + vector dumps
    vecs = []
    seen = set()
    for cfg, what in QUICK + (THOROUGH if tier == 'thorough' else []):
        r = vplib.run_tlc('Calls', cfg, dump='vectors', timeout=3000)
        ck.add_tlc('Calls %s' % what, r)
        if r.violated:
            raise Inconclusive('specification Calls.tla violates %s under %s (model level)' % (r.violated, cfg))
        vs = vplib.read_dump_json(os.path.join(r.dir, 'vectors.dump'))
        if len(vs) != r.distinct:
            raise Inconclusive('dump/states mismatch for ' + cfg)
        for v in vs:
            k = json.dumps([v['d'], v['call']], sort_keys=True)
            if k in seen:
                continue
            seen.add(k)
            v['id'] = len(vecs)
            vecs.append(v)

    # ---- G: every vector through every real path
    inp = []
    for v in vecs:
        x = {'id': v['id'], 'd': v['d'], 'call': v['call']}
        nmiss = sum(1 for e in v['exp'] if e['class'].startswith('missing-required'))
        if nmiss >= 2 and rng.random() < (0.5 if tier == 'thorough' else 0.15):
            x['rep'] = 3          # several diagnostics at one position: is the reported order stable?
        inp.append(x)
    outs = run_vectors(sd, inp, 'g')
    by_id = collections.defaultdict(list)
    for o in outs:
        by_id[o['id']].append(o)
    groups = {}          # (site, shapes) -> [count, first violation]
    evals = nontrivial = 0
    drift = 0
    order_unstable = []
    classes_seen = collections.Counter()
    for v in vecs:
        os_ = by_id.get(v['id'], [])
        if not os_:
            raise Inconclusive('harness returned nothing for vector %d' % v['id'])
        exp = dkey(v['exp'])
        unspec = set(dkey(v.get('unspec', [])))     # verdicts the property leaves open (borderline literals)
        if exp:
            nontrivial += 1
        for c, _ in exp:
            classes_seen[c] += 1
        bad_paths = {}
        msgs = collections.defaultdict(set)
        for o in os_:
            if o['other']:
                raise Inconclusive('observable not understood on path %s: %r\n--- callee\n%s--- caller\n%s'
                                   % (o['path'], o['other'][:2], o['callee'], o['caller']))
            evals += 1
            got = dkey(o['diags'])
            msgs[o['path']].add(json.dumps(o['msgs']))
            if sorted(set(got) - unspec) != exp:
                bad_paths.setdefault(o['path'], (got, o))
            else:
                opx = dkey(v['op'][o['path']])
                if got != opx:
                    drift += 1
        for p, ms in msgs.items():
            if len(ms) > 1:
                order_unstable.append((v['id'], p, sorted(ms)[:2]))
        if bad_paths:
            diff = set()
            for p, (got, o) in bad_paths.items():
                diff |= (set(got) - unspec) ^ set(exp)
            kinds = sorted({c for c, _ in diff})
            paths = sorted(bad_paths)
            site = '%s:%s:%s' % (v['d']['kind'], '+'.join(paths), '+'.join(kinds))
            shapes = decl_shape(v, {n for _, n in diff})
            p0 = paths[0]
            got0, o0 = bad_paths[p0]
            all_paths = sorted({o['path'] for o in os_})
            agree = [p for p in all_paths if p not in bad_paths]
            what = ('%s callee, path %s: the real linter reports %s, the property demands %s%s\n--- callee\n%s--- caller\n%s'
                    % (v['d']['kind'], p0, got0, exp,
                       ('; on path(s) %s the same caller gets the demanded diagnostics (the caller\'s result depends on '
                        'how the callee\'s interface was obtained)' % ','.join(agree)) if agree and len(all_paths) > 1 else '',
                       o0['callee'], o0['caller']))
            key = (site, tuple(shapes))
            if key not in groups:
                groups[key] = [0, {'site': site, 'what': what,
                                   'replay': {'kind': 'vector', 'd': v['d'], 'call': v['call'], 'expected': v['exp'], 'unspecified': v.get('unspec', []),
                                              'paths': paths, 'path': p0, 'observed': [list(x) for x in got0],
                                              'differing_classes': kinds, 'differing_decls': shapes}}]
            groups[key][0] += 1
    # one violation per (site, shape of the declarations involved); at most 6 per site, smallest inputs first
    per_site = collections.defaultdict(list)
    for (site, shapes), (n, viol) in groups.items():
        per_site[site].append((len(json.dumps(viol['replay']['d'])) + len(json.dumps(viol['replay']['call'])), shapes, n, viol))
    for site in sorted(per_site):
        lst = sorted(per_site[site], key=lambda x: (x[0], x[1]))
        total = sum(x[2] for x in lst)
        for _, shapes, n, viol in lst[:6]:
            viol['replay']['vectors_affected'] = n
            ck.violation(site, '[%d vectors with these declaration shapes, %d at this site in %d shape groups] %s'
                         % (n, total, len(lst), viol['what']), viol['replay'])
    if deviating and not groups:
        raise Inconclusive('Calls.tla says the derivations of "required" disagree on %s but the real code agrees with the '
                           'property on every vector: the transcription in the specification is out of date' % json.dumps(deviating))
    if drift:
        ck.note('model drift: %d real results satisfy the property but differ from the operational layer of Calls.tla '
                '(a repaired KnownDeviation, or a different classification of a borderline literal ~ / TRUE / 0x1F / empty)' % drift)
        ck.cov['model_drift_results'] = drift
    if order_unstable:
        ck.note('C02-relevant: the ORDER of the caller\'s diagnostics differs between repeated runs of the same path for %d '
                'vectors, e.g. vector %d path %s: %s' % (len(order_unstable), order_unstable[0][0], order_unstable[0][1],
                                                         order_unstable[0][2]))
        ck.cov['order_unstable_vectors'] = len(order_unstable)
    ck.cov['evaluations'] += evals
    ck.cov['traces_validated_against_impl'] += evals
    ck.cov['distinct_nontrivial'] += nontrivial
    ck.cov['vectors'] = len(vecs)
    ck.cov['expected_classes'] = dict(classes_seen)
    for v in vecs:
        if len(v['exp']) >= 3 and len(ck.cov['samples']) < 2:
            o = by_id[v['id']][0]
            ck.sample({'callee': o['callee'], 'caller': o['caller'], 'expected': v['exp'], 'observed': o['diags']})

    # ---- unforced schedule: caller + callee in one LintFiles run, repeated
    wf = [v for v in vecs if v['d']['kind'] == 'workflow' and (v['d']['inputs'] or v['d']['secrets'])]
    rng.shuffle(wf)
    nfree = 300 if tier == 'quick' else 2500
    free_in = [{'id': v['id'], 'd': v['d'], 'call': v['call'], 'paths': ['file'], 'free': 6} for v in wf[:nfree]]
    fouts = run_vectors(sd, free_in, 'free') if free_in else []
    fby = collections.defaultdict(list)
    for o in fouts:
        if o['other']:
            raise Inconclusive('observable not understood on path %s: %r' % (o['path'], o['other'][:2]))
        fby[o['id']].append(o)
    unstable = 0
    fgroups = {}
    for vid, os_ in fby.items():
        v = vecs[vid]
        exp = dkey(v['exp'])
        unspec = set(dkey(v.get('unspec', [])))
        results = {json.dumps(dkey(o['diags'])) for o in os_}
        if len(results) > 1:
            unstable += 1
        for o in os_:
            evals += 1
            got = dkey(o['diags'])
            if sorted(set(got) - unspec) != exp:
                diff = (set(got) - unspec) ^ set(exp)
                kinds = sorted({c for c, _ in diff})
                site = 'workflow:free:%s' % '+'.join(kinds)
                shapes = decl_shape(v, {n for _, n in diff})
                fgroups.setdefault((site, tuple(shapes)), {
                    'site': site,
                    'what': 'reusable workflow, caller and callee linted in one run (no forced schedule): the real linter '
                            'reports %s, the property demands %s%s\n--- callee\n%s--- caller\n%s'
                            % (got, exp, '; repeated runs give different results' if len(results) > 1 else '',
                               o['callee'], o['caller']),
                    'replay': {'kind': 'vector', 'd': v['d'], 'call': v['call'], 'expected': v['exp'], 'paths': ['free'],
                               'path': 'free', 'observed': [list(x) for x in got], 'differing_classes': kinds,
                               'differing_decls': shapes}})
                break
    for k, viol in sorted(fgroups.items()):
        ck.violation(viol['site'], viol['what'], viol['replay'])
    if unstable:
        ck.note('C02/C10-relevant: %d caller workflows get different diagnostics in repeated unforced LintFiles(callee, caller) '
                'runs (schedule-dependent interface derivation)' % unstable)
    ck.cov['unforced_multi_file_runs'] = sum(len(x) for x in fby.values())
    ck.cov['evaluations'] += sum(len(x) for x in fby.values())

    # ---- T: the bundled data set, enumerated completely
    trace = os.path.join(sd, 'bundled.ndjson')
    vplib.run_harness(['calls-bundled', trace], timeout=1200)
    text = open(trace).read()
    recs = [json.loads(x) for x in text.splitlines() if x.strip()]
    specs = {r['spec'] for r in recs}
    npop = len({r['spec'] for r in recs if r['iface']['kind'] == 'popular'})
    nout = len(specs) - npop
    if npop < 100 or nout < 100:
        raise Inconclusive('bundled enumeration is incomplete: %d popular, %d outdated specs' % (npop, nout))
    for r in recs:
        if r['other']:
            raise Inconclusive('observable not understood for %s (%s): %r\n%s' % (r['spec'], r['gen'], r['other'][:2], r['caller']))
    t = vplib.run_tlc('CallsTrace', 'CallsTrace.cfg', workers=1, files={'trace.ndjson': text}, timeout=3000)
    ck.add_tlc('CallsTrace: %d records = %d entries of PopularActions + %d of OutdatedPopularActionSpecs x generated call sites'
               % (len(recs), npop, nout), t)
    mism, drift_t = parse_mism(t.out)
    for idx in mism:
        r = recs[idx - 1]
        ck.violation('bundled:%s:%s' % (r['spec'], r['gen']),
                     'bundled action %s, call site "%s": the real linter reports %s, which is not what the property demands for '
                     'the interface in the table\n%s' % (r['spec'], r['gen'], dkey(r['obs']), r['caller']),
                     {'kind': 'trace', 'spec': r['spec'], 'gen': r['gen'], 'record': r})
    only_drift = [i for i in drift_t if i not in set(mism)]
    if only_drift:
        ck.note('model drift: %d bundled records satisfy the property but differ from the operational model, e.g. %s'
                % (len(only_drift), json.dumps(recs[only_drift[0] - 1])[:600]))
        ck.cov['model_drift_records'] = len(only_drift)
    ck.cov['bundled_specs'] = {'popular': npop, 'outdated': nout, 'records': len(recs),
                               'records_with_diagnostics': sum(1 for r in recs if r['iface']['kind'] == 'popular' and r['obs'])}
    ck.cov['traces_validated_against_impl'] += len(recs)
    ck.cov['evaluations'] += len(recs)
    ck.cov['distinct_nontrivial'] += sum(1 for r in recs if r['iface']['kind'] == 'popular' and r['obs'])
    ck.sample({'trace_record': {k: recs[len(recs) // 2][k] for k in ('spec', 'gen', 'call', 'obs')}})

    if tier == 'thorough':
        # binding self-test: a corrupted record must be rejected
        lines = text.splitlines()
        k = next(i for i, r in enumerate(recs) if r['iface']['kind'] == 'popular' and r['obs'])
        rec = json.loads(lines[k])
        rec['obs'] = rec['obs'][1:]
        lines[k] = json.dumps(rec)
        t2 = vplib.run_tlc('CallsTrace', 'CallsTrace.cfg', workers=1, files={'trace.ndjson': '\n'.join(lines[:k + 5]) + '\n'},
                           name='selftest', timeout=600)
        m2, _ = parse_mism(t2.out)
        ck.cov['binding_selftest'] = 'rejected' if m2 == [k + 1] else 'NOT rejected: %r' % (m2,)
        if m2 != [k + 1]:
            raise Inconclusive('binding self-test failed: corrupted record not rejected')

    ck.cov['rule'] = ('every (declaration, call site) state of the Calls.tla configurations linted through every real path '
                      '(local action / synthetic bundled entry / reusable workflow via file, AST and multi-file run); '
                      'non-trivial = at least one diagnostic expected; plus every entry of the bundled tables x generated call '
                      'sites validated by TLC')
    ck.cov['exhaustive'] = True
    ck.assumptions += ['names stand for their classes: in1..in3, s1, s2, o1, o2, one undeclared name each; spellings lower / '
                       'UPPER / Mixed; args and entrypoint as the names with special treatment in the step syntax',
                       '"without default" is read per callee kind: default: null is no default for actions (action.yml, bundled '
                       'table) and a default for reusable workflows (Calls.tla HasDefault)',
                       'values of typed inputs: literals in the three scalar styles (plain, single-, double-quoted) x text classes '
                       'true, false, null, ~, 42, 1.5, 0x1F, abc, empty, TRUE; one whole-scalar placeholder of type string, number, '
                       'bool, null, object, any; an embedded placeholder.  The text decides the type, the style does not (as the '
                       'checker documents); for the borderline texts ~, TRUE, 0x1F and the empty scalar the type-mismatch verdict is '
                       'unspecified: removed before judging, a difference from the operational layer is model drift only',
                       'local action spellings: ./dir, ./dir/, ./dir/., ./parent/../dir for a sub-directory, ./ and ./. for the '
                       'repository root; all spellings of one directory must give the same verdicts',
                       'undeclared with.args / with.entrypoint are outside the universe (accepted implicitly for Docker actions)',
                       'required given by an expression is outside the property (not a well-formed declaration)',
                       'message classes are recognised by rule + anchor phrases; an unknown message makes the check inconclusive']


def replay(path):
    rp = json.load(open(path))['replay']
    sd = vplib.subdir('c14r')
    if rp['kind'] == 'trace':
        trace = os.path.join(sd, 'bundled.ndjson')
        vplib.run_harness(['calls-bundled', trace])
        recs = [r for r in vplib.read_jsonl(trace) if r['spec'] == rp['spec'] and r['gen'] == rp['gen']]
        if not recs:
            print('entry no longer in the table')
            return 0
        print(recs[0]['caller'])
        print('observed', dkey(recs[0]['obs']), recs[0]['other'])
        t = vplib.run_tlc('CallsTrace', 'CallsTrace.cfg', workers=1, files={'trace.ndjson': json.dumps(recs[0]) + '\n'}, timeout=600)
        mism, _ = parse_mism(t.out)
        print('property violated' if mism else 'property holds')
        return 1 if mism else 0
    v = {'id': 0, 'd': rp['d'], 'call': rp['call']}
    if rp['paths'] == ['free']:
        v.update({'paths': ['file'], 'free': 12})
    outs = run_vectors(sd, [v], 'r')
    exp = dkey(rp['expected'])
    unspec = set(dkey(rp.get('unspecified', [])))
    rc = 0
    for o in outs:
        if o['path'] not in rp['paths']:
            continue
        got = dkey(o['diags'])
        print('path %s: observed %s %s' % (o['path'], got, o['other']))
        if sorted(set(got) - unspec) != exp:
            rc = 1
    print(outs[0]['callee'])
    print(outs[0]['caller'])
    print('expected', exp)
    return rc
