"""C10 - multi-file runs: per-file results are isolated and race-free.

E: TLC checks Linter.tla for every argument order (all permutations of all subsets of 5 files in two
   sibling repositories + one file outside) and every interleaving of project resolution, callee
   registration and cache read / miss / write of the file workers: every file is attributed to the
   repository that contains it and sees, for every local spec, the interface it sees when linted
   alone.  Two vacuity guards: with string-prefix containment Attribution is violated, with
   disagreeing interface derivations Isolation is violated (TLC must find both counterexamples).
G: the same argument sequences (TLC's initial states) are materialised: real repositories
   "repo" and "repo-b" (own configs), caller/callee pair, shared local action, a file outside;
   the real LintFiles is run for each sequence with GOMAXPROCS in {1, 2, 16} and compared, file by
   file, with LintFile on a fresh Linter (relation between two real outputs).
S: `tlc -simulate` behaviours of LinterSim.tla (Linter + history variable; the per-file programs of cache
   operations are read off a recorded free run) are forced onto the real goroutines of LintFiles: the hook
   points file-go / rw-reg-read / rw-reg-write / rw-read / ac-read / rw-write / ac-write (build tag verif)
   block until the controller reaches that step; each forced run is compared file by file with LintFile
   alone, the observed hit / miss outcomes with the behaviour (drift only); a second layout shares a BROKEN
   local action and an unreadable reusable workflow among three files: reported exactly once per run.
T: all outcomes are validated by TLC (EmissionTrace.tla, records of kind "pair" and "outcome");
   a -race build of the harness runs a stress set hitting the shared tables; the exported built-in
   tables are fingerprinted before and after every run.
"""
import json
import os
import re
import sys

import vplib
from vplib import Inconclusive

sys.path.insert(0, os.path.dirname(os.path.dirname(os.path.abspath(__file__))))
import tlaval  # noqa: E402
from checks import c02  # noqa: E402

LEVEL = 'model_checking'

CFG_A = 'self-hosted-runner:\n  labels: [lab-a]\nconfig-variables: [zvar, avar, mvar]\n'
CFG_B = 'self-hosted-runner:\n  labels: [lab-b]\nconfig-variables: [bvar]\n'
ACTION = ('name: act\ndescription: d\ninputs:\n  must:\n    description: d\n    required: true\n  opt:\n    description: d\n'
          'outputs:\n  res:\n    description: d\nruns:\n  using: composite\n  steps:\n    - run: echo\n      shell: bash\n')
CALLEE = ('on:\n  workflow_call:\n    inputs:\n      need:\n        type: string\n        required: true\n      num:\n        type: number\n'
          '      nd:\n        type: string\n        required: true\n        default: null\n'
          "      ed:\n        type: string\n        required: true\n        default: ''\n      bd:\n        type: string\n        required: true\n        default:\n"
          "      xr:\n        type: string\n        required: ${{ github.event_name == 'push' }}\n"
          '      rc:\n        type: string\n        required: True\n      ry:\n        type: string\n        required: yes\n'
          '    secrets:\n      tok:\n        required: true\n    outputs:\n      out1:\n        value: ${{ jobs.x.outputs.o }}\n      out2:\n      out3: {}\n'
          'jobs:\n  x:\n    runs-on: lab-a\n    outputs:\n      o: v\n    steps:\n      - run: echo ${{ vars.NOPE1 }}\n')


def caller(tag, label, var):
    return ('on:\n  push:\n  issues:\n    types: [nonexistent%s]\npermissions:\n  bogus%s: read\njobs:\n'
            '  call:\n    uses: ./.github/workflows/callee.yml\n    with:\n      num: notanumber\n      extra%s: 1\n'
            '  build:\n    needs: [call]\n    runs-on: %s\n    steps:\n      - uses: ./.github/actions/act\n        with:\n          wrong%s: 1\n'
            '      - uses: Actions/Checkout@v4\n        with:\n          nosuchinput: 1\n      - uses: actions/checkout@v4\n        with:\n          nosuchinput: 1\n'
            '      - run: echo ${{ vars.%s }} ${{ undefined%s }}\n      - run: echo ${{ needs.call.outputs.out1 }} ${{ needs.call.outputs.out2 }} ${{ needs.call.outputs.out3 }} ${{ needs.call.outputs.out4 }}\n'
            % (tag, tag, tag, label, tag, var, tag))


FILES = {
    # a2 lives in a nested directory that has .github/workflows but no .git: it belongs to `repo`
    'a': 'repo/.github/workflows/a.yml', 'a2': 'repo/examples/demo/.github/workflows/a2.yml', 'callee': 'repo/.github/workflows/callee.yml',
    'b': 'repo-b/.github/workflows/b.yml', 'out': 'out.yml'}


def layout():
    b = ('on: push\njobs:\n  build:\n    runs-on: lab-b\n    steps:\n      - run: echo ${{ vars.BVAR }} ${{ vars.NOPEB }}\n')
    out = 'on: push\njobs:\n  build:\n    runs-on: ubuntu-latest\n    steps:\n      - run: echo ${{ undefinedout }}\n'
    files = {FILES['a']: caller('a', 'lab-a', 'AVAR'), FILES['a2']: caller('b', 'lab-a', 'ZVAR'), FILES['callee']: CALLEE,
             FILES['b']: b, FILES['out']: out,
             'repo/.github/actionlint.yaml': CFG_A, 'repo-b/.github/actionlint.yaml': CFG_B,
             'repo/.github/actions/act/action.yml': ACTION}
    return [{'path': p, 'content': c} for p, c in sorted(files.items())], ['repo/.git', 'repo-b/.git', 'repo-b/.github/workflows']


def extra_layouts():
    """Small targeted layouts (name, files, dirs, argument sequences) run through the same multi-vs-alone comparison."""
    out = []
    W = '.github/workflows/'
    # 1. a broken glob among the configured runner labels: every file reports it, however many files share the config
    lab = lambda n, ro: ('on: push\njobs:\n  j:\n    runs-on: %s\n    steps:\n      - run: echo ${{ undefined%s }}\n' % (ro, n))
    f = {'repo/.github/actionlint.yaml': 'self-hosted-runner:\n  labels: [lab-a, "gpu-[", "x-*", "y[a"]\nconfig-variables: [v1]\n',
         'repo/' + W + 'x1.yml': lab('x1', 'custom-one'), 'repo/' + W + 'x2.yml': lab('x2', '[self-hosted, custom-two]'),
         'repo/' + W + 'x3.yml': lab('x3', 'x-large'), 'repo/' + W + 'x4.yml': lab('x4', 'lab-a')}
    x = ['repo/' + W + 'x%d.yml' % i for i in (1, 2, 3, 4)]
    out.append(('config-broken-label-glob', f, ['repo/.git'], [x, x[::-1], [x[1], x[0]], [x[3], x[2], x[0]]]))
    # 2. sibling repositories whose paths differ only in letter case
    f = {'work/Deploy/.github/actionlint.yaml': 'self-hosted-runner:\n  labels: [lab-up]\nconfig-variables: [upvar]\n',
         'work/deploy/.github/actionlint.yaml': 'self-hosted-runner:\n  labels: [lab-low]\nconfig-variables: [lowvar]\n',
         'work/Deploy/' + W + 'u.yml': 'on: push\njobs:\n  j:\n    runs-on: lab-up\n    steps:\n      - run: echo ${{ vars.UPVAR }}\n      - run: echo ${{ vars.LOWVAR }}\n      - uses: ./.github/actions/act\n',
         'work/deploy/' + W + 'l.yml': 'on: push\njobs:\n  j:\n    runs-on: lab-low\n    steps:\n      - run: echo ${{ vars.UPVAR }}\n      - run: echo ${{ vars.LOWVAR }}\n      - uses: ./.github/actions/act\n',
         'work/Deploy/.github/actions/act/action.yml': ACTION,
         'work/deploy/.github/actions/act/action.yml': ACTION.replace('must:', 'other:')}
    u, l = 'work/Deploy/' + W + 'u.yml', 'work/deploy/' + W + 'l.yml'
    out.append(('case-sibling-repos', f, ['work/Deploy/.git', 'work/deploy/.git'], [[u, l], [l, u]],
                {u: (['"lab-up" is unknown', 'variable "upvar"'], ['variable "lowvar"']),
                 l: (['"lab-low" is unknown', 'variable "lowvar"'], ['variable "upvar"'])}))
    # 3. an invalid local call (with @ref) next to a correct call of the same workflow
    big = ''.join('      - run: echo ${{ undefinedg%d }}\n' % i for i in range(40))
    good = ('on: push\njobs:\n  call:\n    uses: ./.github/workflows/callee.yml\n    with:\n      num: notanumber\n      extrag: 1\n'
            '  use:\n    needs: call\n    runs-on: ubuntu-latest\n    steps:\n      - run: echo ${{ needs.call.outputs.out1 }} ${{ needs.call.outputs.nope }}\n' + big)
    bad = 'on: push\njobs:\n  call:\n    uses: ./.github/workflows/callee.yml@main\n    with:\n      need: x\n'
    f = {'repo/' + W + 'good.yml': good, 'repo/' + W + 'bad.yml': bad, 'repo/' + W + 'callee.yml': CALLEE,
         'repo/.github/actionlint.yaml': CFG_A}
    g, b, c = 'repo/' + W + 'good.yml', 'repo/' + W + 'bad.yml', 'repo/' + W + 'callee.yml'
    out.append(('ref-call-next-to-good-call', f, ['repo/.git'], [[b, g], [g, b], [b, g, c], [c, b, g], [b, c, g], [g, c, b]]))
    # 5. a repository nested in a sub-directory of another one (own .git, own config): attributed to the inner one
    f = {'repo/.github/actionlint.yaml': 'self-hosted-runner:\n  labels: [lab-outer]\nconfig-variables: [outervar]\n',
         'repo/vendor/inner/.github/actionlint.yaml': 'self-hosted-runner:\n  labels: [lab-inner]\nconfig-variables: [innervar]\n',
         'repo/' + W + 'o.yml': 'on: push\njobs:\n  j:\n    runs-on: lab-outer\n    steps:\n      - run: echo ${{ vars.OUTERVAR }}\n      - run: echo ${{ vars.INNERVAR }}\n      - uses: ./.github/actions/act\n',
         'repo/vendor/inner/' + W + 'i.yml': 'on: push\njobs:\n  j:\n    runs-on: lab-inner\n    steps:\n      - run: echo ${{ vars.OUTERVAR }}\n      - run: echo ${{ vars.INNERVAR }}\n      - uses: ./.github/actions/act\n',
         'repo/.github/actions/act/action.yml': ACTION,
         'repo/vendor/inner/.github/actions/act/action.yml': ACTION.replace('must:', 'other:')}
    o_, i_ = 'repo/' + W + 'o.yml', 'repo/vendor/inner/' + W + 'i.yml'
    out.append(('nested-repository', f, ['repo/.git', 'repo/vendor/inner/.git'], [[o_, i_], [i_, o_]],
                {o_: (['"lab-outer" is unknown', 'variable "outervar"'], ['variable "innervar"']),
                 i_: (['"lab-inner" is unknown', 'variable "innervar"'], ['variable "outervar"'])}))
    # 6. checkouts whose .git is a regular FILE (linked worktree, submodule): standalone, and nested in another repository
    f = {'wt/.git': 'gitdir: /somewhere/.git/worktrees/wt\n',
         'wt/.github/actionlint.yaml': 'self-hosted-runner:\n  labels: [lab-wt]\nconfig-variables: [wtvar]\n',
         'wt/' + W + 'w.yml': 'on: push\njobs:\n  j:\n    runs-on: lab-wt\n    steps:\n      - run: echo ${{ vars.WTVAR }}\n      - run: echo ${{ vars.OUTERVAR }}\n      - uses: ./.github/actions/act\n',
         'wt/.github/actions/act/action.yml': ACTION,
         'repo/.github/actionlint.yaml': 'self-hosted-runner:\n  labels: [lab-outer]\nconfig-variables: [outervar]\n',
         'repo/' + W + 'o.yml': 'on: push\njobs:\n  j:\n    runs-on: lab-outer\n    steps:\n      - run: echo ${{ vars.WTVAR }}\n      - run: echo ${{ vars.OUTERVAR }}\n      - run: echo ${{ vars.SUBVAR }}\n',
         'repo/mods/sub/.git': 'gitdir: ../../.git/modules/sub\n',
         'repo/mods/sub/.github/actionlint.yaml': 'self-hosted-runner:\n  labels: [lab-sub]\nconfig-variables: [subvar]\n',
         'repo/mods/sub/' + W + 's.yml': 'on: push\njobs:\n  j:\n    runs-on: lab-sub\n    steps:\n      - run: echo ${{ vars.SUBVAR }}\n      - run: echo ${{ vars.OUTERVAR }}\n      - uses: ./.github/actions/act\n',
         'repo/mods/sub/.github/actions/act/action.yml': ACTION.replace('must:', 'other:')}
    w_, o2, s_ = 'wt/' + W + 'w.yml', 'repo/' + W + 'o.yml', 'repo/mods/sub/' + W + 's.yml'
    out.append(('git-file-checkouts', f, ['repo/.git'], [[w_, o2], [o2, s_], [s_, o2, w_], [o2, w_, s_]],
                {w_: (['"lab-wt" is unknown', 'variable "wtvar"'], ['variable "outervar"']),
                 s_: (['"lab-sub" is unknown', 'variable "subvar"'], ['variable "outervar"']),
                 o2: (['"lab-outer" is unknown', 'variable "outervar"'], ['variable "wtvar"', 'variable "subvar"'])}))
    # 4. files outside any repository (no project: null caches), one of them with an invalid local call
    f = {'loose/o1.yml': bad, 'loose/o2.yml': good, 'loose/o3.yml': lab('o3', 'ubuntu-latest')}
    o = ['loose/o1.yml', 'loose/o2.yml', 'loose/o3.yml']
    out.append(('no-project', f, [], [o, o[::-1], [o[0], o[2]]]))
    return out


def sim_module(files, repo_of, prog):
    """text of LinterSimMC.tla for the recorded programs"""
    def tla_seq(ops):
        return '<<' + ', '.join('<<"%s", "%s">>' % (o, s_) for o, s_ in ops) + '>>'
    ids = sorted(files)
    repos = sorted(set(repo_of.values()) - {'none'})
    pref = [(a, b) for a in repos for b in repos if a != b and b.startswith(a)]
    return ('----------------------------- MODULE LinterSimMC -----------------------------\n'
            '(* generated by tools/checks/c10.py from a recorded free run of the real code *)\nEXTENDS Linter\n'
            'FilesS == {%s}\n' % ', '.join('"%s"' % f for f in ids) +
            'RepoOfS == [f \\in FilesS |-> CASE %s]\n' % ' [] '.join('f = "%s" -> "%s"' % (f, repo_of[f]) for f in ids) +
            'ProgS == [f \\in FilesS |-> CASE %s]\n' % ' [] '.join('f = "%s" -> %s' % (f, tla_seq(prog[f])) for f in ids) +
            'NamePrefixS == {%s}\n' % ', '.join('<<"%s", "%s">>' % ab for ab in pref) +
            'InsideS == {}\n' +
            '=============================================================================\n')


def read_sim_behaviours(d):
    out = []
    for fn in sorted(os.listdir(d)):
        if not fn.startswith('beh_') or fn.endswith('.flt'):
            continue
        txt = ''.join(l for l in open(os.path.join(d, fn)) if not l.startswith('\\*') and not l.startswith('----') and not l.startswith('===='))
        tmp = os.path.join(d, fn + '.flt')
        open(tmp, 'w').write(txt)
        states = list(tlaval.read_dump(tmp))
        if len(states) >= 2:
            out.append((list(states[0]['args']), [list(st['last']) for st in states[1:]]))
    return out


GATE_KINDS = {'file-go': 'start', 'rw-reg-read': 'regread', 'rw-reg-write': 'regwrite', 'rw-read': 'read', 'ac-read': 'read',
              'rw-write': 'write', 'ac-write': 'write', 'file-done': 'finish'}


def gate_part(ck, sd, tier, name, files, dirs, all_args, repo_of_path, nbeh, once_re=None):
    """binding S: TLC behaviours of LinterSim forced onto the real goroutines of LintFiles"""
    rec = {'id': 1, 'name': 'record', 'files': files, 'dirs': dirs, 'args': all_args, 'cwd': '', 'schedule': [], 'single': False}
    vplib.write_jsonl(os.path.join(sd, 'rec-%s.jsonl' % name), [rec])
    vplib.run_harness(['sched-run', os.path.join(sd, 'rec-%s.jsonl' % name), os.path.join(sd, 'rec-%s-out.jsonl' % name)], timeout=300)
    ro = vplib.read_jsonl(os.path.join(sd, 'rec-%s-out.jsonl' % name))[0]
    if ro.get('panic') or not ro['events']:
        raise Inconclusive('gate %s: recorded run failed or the hook points are missing in this build: %s' % (name, ro.get('panic')))
    fid = {a: 'f%d' % i for i, a in enumerate(all_args, 1)}
    path_of = {v: k for k, v in fid.items()}
    sid = {}
    prog = {f: [] for f in fid.values()}
    for e in ro['events']:
        if e['kind'] in ('rw-reg-read', 'rw-read', 'ac-read'):
            # local actions and reusable workflows live in different caches: the kind is part of the key
            key = e['kind'][:2] + ':' + e['spec']
            s_ = sid.setdefault(key, 's%d' % (len(sid) + 1))
            prog[fid[e['file']]].append(('reg' if e['kind'] == 'rw-reg-read' else 'use', s_))
    repo_of = {fid[a]: repo_of_path(a) for a in all_args}
    mod = sim_module(list(fid.values()), repo_of, prog)
    r = vplib.run_tlc('LinterSim', 'LinterSim.cfg', workers=1, simulate='file=beh,num=%d' % nbeh, depth=200,
                      extra=['-seed', str(vplib.seed())], files={'LinterSimMC.tla': mod}, timeout=1200, name='sim-' + name)
    if r.violated:
        raise Inconclusive('LinterSim violates %s on the recorded programs (model level)' % r.violated)
    behs = [b for b in read_sim_behaviours(r.dir) if len(b[0]) >= 2]      # one argument: LintFile, no goroutines
    if not behs:
        raise Inconclusive('TLC wrote no behaviours')
    cases = []
    for k, (args, lasts) in enumerate(behs, 1):
        sched = [{'f': path_of[l[1]], 'a': l[0]} for l in lasts if l[0] in ('start', 'regread', 'regwrite', 'read', 'write', 'finish')]
        cases.append({'id': k, 'name': 'gate:%s:%d' % (name, k), 'files': files, 'dirs': dirs, 'args': [path_of[a] for a in args], 'cwd': '',
                      'schedule': sched, 'single': True, 'expect': [l for l in lasts if l[0] in ('regread', 'read')]})
    vplib.write_jsonl(os.path.join(sd, 'gate-%s.jsonl' % name), cases)
    vplib.run_harness(['sched-run', os.path.join(sd, 'gate-%s.jsonl' % name), os.path.join(sd, 'gate-%s-out.jsonl' % name)], timeout=3000)
    res = vplib.read_jsonl(os.path.join(sd, 'gate-%s-out.jsonl' % name))
    followed = stuck = drift = 0
    stuck_eg = drift_eg = None
    reported = set()
    for c, o in zip(cases, res):
        if o.get('panic'):
            if o['panic'].startswith('HANG'):
                ck.violation('gate:hang', 'LintFiles did not return after the forced schedule of %s' % c['name'], {'kind': 'gate', 'case': c})
                continue
            raise Inconclusive('gated case %s failed: %s' % (c['name'], o['panic']))
        if o['fatal']:
            raise Inconclusive('fatal error in a gated run: ' + o['fatal'])
        if o['stuck']:
            stuck += 1
            stuck_eg = stuck_eg or (c['name'], o['stuck'])
        else:
            followed += 1
            # conformance of the observed outcomes with the behaviour (model drift only)
            obs = []
            ev = o['events']
            for i, e in enumerate(ev):
                if e['kind'] in ('rw-hit', 'ac-hit'):
                    obs.append(['read', fid[e['file']], 'hit'])
                elif e['kind'] in ('rw-miss', 'ac-miss'):
                    obs.append(['read', fid[e['file']], 'miss'])
                elif e['kind'] == 'rw-reg-hit':
                    obs.append(['regread', fid[e['file']], 'present'])
                elif e['kind'] == 'rw-reg-write':
                    obs.append(['regread', fid[e['file']], 'absent'])
            if obs != c['expect']:
                drift += 1
                drift_eg = drift_eg or (c['name'], next(((x, y) for x, y in zip(c['expect'], obs) if x != y), (len(c['expect']), len(obs))))
        # the property: every file gets what it gets alone, whatever the interleaving; the defects of a referenced local
        # action / reusable workflow (once_re) are reported once per run
        if once_re:
            own = {}
            for d in o['diags']:
                if re.search(once_re, d['msg']):
                    own.setdefault(d['msg'], []).append(d['file'])
            for msg, fl in own.items():
                if len(fl) != 1 and ('once', name) not in reported:
                    reported.add(('once', name))
                    ck.violation('once-per-run:gate:%s' % name,
                                 'under the forced interleaving %s the defect of a shared local action / reusable workflow is reported %d '
                                 'times in one run (files %s): %s' % (c['name'], len(fl), fl, msg[:160]),
                                 {'kind': 'gate', 'case': c, 'message': msg, 'files': fl, 'events': o['events']})
            users = [a for a in c['args'] if any(re.search(once_re, d['msg']) for d in o['single'][a])]
            if users and not own and ('never', name) not in reported:
                reported.add(('never', name))
                ck.violation('once-per-run:gate:%s' % name, 'under the forced interleaving %s the defect of the shared local action / reusable '
                             'workflow is not reported at all although %s use it' % (c['name'], users), {'kind': 'gate', 'case': c, 'events': o['events']})
        for a in c['args']:
            multi = [(d['line'], d['col'], d['msg']) for d in o['diags'] if (a.endswith(d['file']) or d['file'].endswith(a)) and not (once_re and re.search(once_re, d['msg']))]
            single = [(d['line'], d['col'], d['msg']) for d in o['single'][a] if not (once_re and re.search(once_re, d['msg']))]
            if multi != single and a not in reported:
                reported.add(a)
                only_m = [x for x in multi if x not in single]
                only_s = [x for x in single if x not in multi]
                ck.violation('isolation:gate:%s:%s' % (name, os.path.basename(a)),
                             'under the forced interleaving %s the file %s gets different diagnostics than linted alone: only in the '
                             'multi-file run %s; only alone %s' % (c['name'], a, only_m[:3], only_s[:3]),
                             {'kind': 'gate', 'file': a, 'case': c, 'only_multi': only_m, 'only_single': only_s, 'events': o['events']})
        ck.cov['evaluations'] += 1
    ck.add_tlc('LinterSim (%s): %d behaviours (simulate) of the recorded programs forced onto the goroutines of LintFiles' % (name, len(cases)), r)
    ck.cov['gated_behaviours'] = ck.cov.get('gated_behaviours', 0) + len(cases)
    ck.cov['gated_behaviours_followed_to_the_end'] = ck.cov.get('gated_behaviours_followed_to_the_end', 0) + followed
    ck.cov['traces_validated_against_impl'] += followed
    if stuck:
        ck.note('scheduler gate %s: %d of %d behaviours could not be followed to the end (not a violation), e.g. %s: %s'
                % (name, stuck, len(cases), stuck_eg[0], stuck_eg[1]))
    if drift:
        ck.note('scheduler gate %s: model drift in %d of %d followed behaviours (observed hit/miss differs from the behaviour), e.g. %s: %s'
                % (name, drift, followed, drift_eg[0], drift_eg[1]))
    if followed == 0:
        raise Inconclusive('no TLC behaviour could be forced onto the real code: the gate does not bind')
    ck.sample({'gated_schedule': cases[0]['schedule'][:16], 'programs': {path_of[f]: p_ for f, p_ in prog.items()}})


def run(ck, tier):
    sd = vplib.subdir('c10')
    r = vplib.run_tlc('LinterMC', 'Linter_ok.cfg', timeout=1800)
    ck.add_tlc('Linter: all argument orders x interleavings of resolve/register/read/miss-write; Attribution, Isolation', r)
    if r.violated:
        raise Inconclusive('Linter.tla violates %s (model level)' % r.violated)
    rn = vplib.run_tlc('LinterMC', 'Linter_nested.cfg', timeout=1800, name='nested')
    ck.add_tlc('Linter, nested layout (a repository inside a sub-directory of another): Attribution, Isolation', rn)
    if rn.violated:
        raise Inconclusive('Linter.tla violates %s on the nested layout (model level)' % rn.violated)
    for cfg, inv in (('Linter_prefix.cfg', 'Attribution'), ('Linter_disagree.cfg', 'Isolation'), ('Linter_nested_knownfirst.cfg', 'Attribution')):
        g = vplib.run_tlc('LinterMC', cfg, timeout=600)
        ck.add_tlc('Linter vacuity guard %s: must violate %s' % (cfg, inv), g)
        if g.violated != inv:
            raise Inconclusive('vacuity guard %s no longer violates %s' % (cfg, inv))
    ra = vplib.run_tlc('LinterMC', 'Linter_args.cfg', dump='args', timeout=600, name='args')
    orders = []
    for st in tlaval.read_dump(os.path.join(ra.dir, 'args.dump')):
        orders.append(st['args'])
    if not orders:
        raise Inconclusive('no argument sequences dumped')
    orders.sort(key=lambda a: (len(a), a))
    if tier == 'quick':
        # all sequences of length <= 3, every 3rd longer one
        orders = [o for i, o in enumerate(orders) if len(o) <= 3 or i % 3 == 0]
    files, dirs = layout()
    cases = []
    for i, o in enumerate(orders, 1):
        cases.append({'id': i, 'name': 'args:' + ','.join(o), 'files': files, 'dirs': dirs, 'args': [FILES[x] for x in o],
                      'reps': 3 if tier == 'quick' else 9, 'gomaxprocs': [1, 2, 16], 'cwd': '', 'single': True})
    # histories: one Linter instance used for several LintFiles calls (every 7th sequence)
    for o in orders[::7]:
        cases.append({'id': len(cases) + 1, 'name': 'reused-linter:args:' + ','.join(o), 'files': files, 'dirs': dirs,
                      'args': [FILES[x] for x in o], 'reps': 3, 'gomaxprocs': [2, 16], 'cwd': '', 'single': True, 'reuse': True})
    n_main = len(cases)
    attr_expect = {}
    for lay in extra_layouts():
        name, fs, ds, seqs = lay[:4]
        fl = [{'path': p_, 'content': c_} for p_, c_ in sorted(fs.items())]
        for k, s_ in enumerate(seqs):
            cases.append({'id': len(cases) + 1, 'name': 'layout:%s:%d' % (name, k), 'files': fl, 'dirs': ds, 'args': s_,
                          'reps': 8 if tier == 'quick' else 40, 'gomaxprocs': [1, 2, 16, 4], 'cwd': '', 'single': True})
            if len(lay) > 4:
                attr_expect[cases[-1]['id']] = lay[4]
    vplib.write_jsonl(os.path.join(sd, 'cases.jsonl'), cases)
    vplib.run_harness(['det-run', os.path.join(sd, 'cases.jsonl'), os.path.join(sd, 'out.jsonl')], timeout=3000)
    res = vplib.read_jsonl(os.path.join(sd, 'out.jsonl'))
    lines, meta = [], []
    msgids = {}
    attr_reported = set()
    base_checked = False
    for c, o in zip(cases, res):
        if o.get('panic'):
            raise Inconclusive('case %s failed: %s' % (c['name'], o['panic']))
        if o.get('tables'):
            ck.violation('tables-modified', 'a built-in table changed during the run of %s' % c['name'], {'kind': 'tables', 'case': c})
        # attribution (Linter.tla: Attribution): a file is checked with the configuration of the repository that contains it -
        # its own labels / variables are known, those of the neighbouring repositories are not (declared by the layout)
        for a, (absent, present) in attr_expect.get(c['id'], {}).items():
            if a not in (o.get('single') or {}):
                continue
            msgs = [d['msg'] for d in o['single'][a]]
            wrong = [x for x in absent if any(x in m for m in msgs)] + ['missing: ' + x for x in present if not any(x in m for m in msgs)]
            if wrong and ('attr', a) not in attr_reported:
                attr_reported.add(('attr', a))
                ck.violation('attribution:' + os.path.basename(a), 'the file %s is not checked with the configuration of the repository that contains it: %s'
                             % (a, wrong), {'kind': 'attribution', 'file': a, 'case': c, 'diagnostics': msgs})
        if not base_checked:
            for a, ds in o['single'].items():
                if not ds:
                    raise Inconclusive('layout file %s yields no diagnostics when linted alone (vacuous)' % a)
            base_checked = True
        for k, oc in enumerate(o['outcomes']):
            if oc['fatal']:
                raise Inconclusive('fatal error in a multi-file run: ' + oc['fatal'])
            lines.append(json.dumps({'case': c['id'], 'kind': 'outcome', 'diags': c02.encode_diags(oc['diags'], c['args'], msgids),
                                     'fatal': 0, 'text': 0, 'other': []}))
            meta.append(('outcome', c, o, k, None))
            for ai, a in enumerate(c['args'], 1):
                multi = [d for d in oc['diags'] if a.endswith(d['file']) or d['file'].endswith(a)]
                single = o['single'][a]
                enc_m = c02.encode_diags(multi, c['args'], msgids)
                enc_s = [[ai] + x[1:] for x in c02.encode_diags(single, [a], msgids)]
                lines.append(json.dumps({'case': c['id'] * 100 + ai, 'kind': 'pair', 'diags': enc_m, 'other': enc_s, 'fatal': 0, 'text': 0}))
                meta.append(('pair', c, o, k, a))
        ck.cov['evaluations'] += o['runs']
    t = vplib.run_tlc('EmissionTrace', 'EmissionTrace.cfg', workers=1, files={'trace.ndjson': '\n'.join(lines) + '\n'}, timeout=2400, heap='4g')
    ck.add_tlc('EmissionTrace: %d records (multi-file outcome vs single-file result per file; determinism per argument sequence)' % len(lines), t)
    mism, drift = c02.parse_mism(t.out)
    reported = set()
    for idx in mism:
        kind, c, o, k, a = meta[idx - 1]
        key = (kind, a if kind == 'pair' else c['name'])
        if key in reported:
            continue
        reported.add(key)
        oc = o['outcomes'][k]
        if kind == 'pair':
            multi = [(d['line'], d['col'], d['msg']) for d in oc['diags'] if a.endswith(d['file']) or d['file'].endswith(a)]
            single = [(d['line'], d['col'], d['msg']) for d in o['single'][a]]
            only_m = [x for x in multi if x not in single]
            only_s = [x for x in single if x not in multi]
            ck.violation('isolation:' + os.path.basename(a),
                         'linted with %s the file %s gets different diagnostics than linted alone: only in the multi-file run %s; only alone %s'
                         % (c['name'], a, only_m[:3], only_s[:3]),
                         {'kind': 'isolation', 'file': a, 'case': c, 'only_multi': only_m, 'only_single': only_s})
        else:
            ck.violation('nondeterministic:' + c['name'], 'the same multi-file run gave two different results', {'kind': 'determinism', 'case': c})
    ck.cov['traces_validated_against_impl'] += len(lines)
    # ---- binding S: interleavings of the shared caches forced through the hook gate
    files, dirs = layout()
    gate_part(ck, sd, tier, 'main', files, dirs, [FILES[x] for x in ('a', 'a2', 'callee', 'b', 'out')],
              lambda a: 'repo-b' if a.startswith('repo-b/') else 'repo' if a.startswith('repo/') else 'none', 60 if tier == 'quick' else 600)
    # a BROKEN local action and an unreadable reusable workflow shared by three files: reported once per run
    W = 'repo/.github/workflows/'
    shared = {W + '%s.yml' % n: ('on: push\njobs:\n  c:\n    uses: ./.github/workflows/broken.yml\n  j:\n    runs-on: ubuntu-latest\n    steps:\n'
                                 '      - uses: ./.github/actions/broken\n      - run: echo ${{ undefined%s }}\n' % n) for n in 'xyz'}
    shared['repo/.github/actions/broken/action.yml'] = 'name: [\n'
    shared[W + 'broken.yml'] = 'on:\n  workflow_call:\n    inputs: [\njobs: {}\n'
    gate_part(ck, sd, tier, 'shared-broken', [{'path': p_, 'content': c_} for p_, c_ in sorted(shared.items())], ['repo/.git'],
              [W + 'x.yml', W + 'y.yml', W + 'z.yml'], lambda a: 'repo', 40 if tier == 'quick' else 300,
              once_re=r'^could not parse action metadata|^error while parsing reusable workflow|^could not read reusable workflow')
    ck.cov['argument_sequences'] = len(cases)
    ck.cov['distinct_nontrivial'] += len(cases)
    # ---- race build, stress on the shared tables
    stress_files, dirs = layout()
    extra = []
    n = 24 if tier == 'quick' else 64
    for i in range(n):
        extra.append({'path': 'repo/.github/workflows/s%02d.yml' % i, 'content': caller('s%02d' % i, 'lab-a', 'NOPE%d' % i)})
    case = {'id': 1, 'name': 'stress', 'files': stress_files + extra, 'dirs': dirs,
            'args': [FILES['callee']] + [e['path'] for e in extra[:len(extra) // 2]] + [FILES['b']] + [e['path'] for e in extra[len(extra) // 2:]] + [FILES['a']],
            'reps': 6 if tier == 'quick' else 30,
            'gomaxprocs': [16, 4], 'cwd': '', 'single': False}
    vplib.write_jsonl(os.path.join(sd, 'stress.jsonl'), [case])
    p = vplib.run_harness(['det-run', os.path.join(sd, 'stress.jsonl'), os.path.join(sd, 'stress-out.jsonl')], race=True, check=False,
                          timeout=3000, env={'GORACE': 'halt_on_error=0 exitcode=0'})
    err = p.stderr.decode('utf-8', 'replace')
    races = err.count('WARNING: DATA RACE')
    if p.returncode != 0 and not races:
        raise Inconclusive('race-build stress run failed rc=%s: %s' % (p.returncode, err[-1500:]))
    if races:
        m = re.search(r'WARNING: DATA RACE.*?(?=\n==================|\Z)', err, re.S)
        rep = m.group(0)[:3000] if m else ''
        fn = re.findall(r'actionlint\.([A-Za-z0-9_.()*]+)\(\)', rep)
        ck.violation('data-race', 'the race detector reports %d data race(s) while linting %d files at once; first: %s'
                     % (races, len(case['args']), ' / '.join(fn[:4])), {'kind': 'race', 'report': rep, 'functions': fn[:8]})
    else:
        so = vplib.read_jsonl(os.path.join(sd, 'stress-out.jsonl'))[0]
        if so.get('tables'):
            ck.violation('tables-modified', 'a built-in table changed during the stress run', {'kind': 'tables', 'case': 'stress'})
        if len(so['outcomes']) > 1:
            ck.violation('nondeterministic:stress', 'the stress run gave %d different results' % len(so['outcomes']), {'kind': 'determinism', 'case': 'stress'})
    ck.cov['race_stress_files'] = len(case['args'])
    ck.cov['race_reports'] = races
    ck.cov['evaluations'] += case['reps']
    ck.cov['rule'] = ('every argument sequence (permutations of subsets of 5 files in 2 sibling repositories + 1 outside) run with '
                      'GOMAXPROCS 1,2,16 and compared per file with the single-file result; plus a -race stress run over %d files' % len(case['args']))
    ck.sample({'argument_sequence': cases[len(cases) // 2]['args'], 'files_in_layout': [f['path'] for f in files]})
    ck.assumptions += ['the race detector only sees executed interleavings', 'referenced local actions / reusable workflows are well-formed',
                       'nested repositories are out of scope']


def replay(path):
    rp = json.load(open(path))['replay']
    sd = vplib.subdir('c10r')
    if rp['kind'] != 'isolation':
        print('re-run the check for this kind of violation')
        return 1
    c = dict(rp['case'], reps=12)
    vplib.write_jsonl(os.path.join(sd, 'cases.jsonl'), [c])
    vplib.run_harness(['det-run', os.path.join(sd, 'cases.jsonl'), os.path.join(sd, 'out.jsonl')], timeout=600)
    o = vplib.read_jsonl(os.path.join(sd, 'out.jsonl'))[0]
    a = rp['file']
    bad = 0
    for oc in o['outcomes']:
        multi = [(d['line'], d['col'], d['msg']) for d in oc['diags'] if a.endswith(d['file']) or d['file'].endswith(a)]
        single = [(d['line'], d['col'], d['msg']) for d in o['single'][a]]
        if multi != single:
            bad += 1
            print('multi :', multi)
            print('single:', single)
    return 1 if bad else 0
