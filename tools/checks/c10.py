"""C10 - multi-file runs: per-file results are isolated and race-free.

E: TLC checks Linter.tla for every argument order (all permutations of all subsets of 5 files in two
   sibling repositories + one file outside) and every interleaving of project resolution, callee
   registration and cache read / miss / write of the file workers: every file is attributed to the
   repository that contains it and sees, for every local spec, the interface it sees when linted
   alone.  Two vacuity guards: with string-prefix containment Attribution is violated, with
   disagreeing interface derivations Isolation is violated (TLC must find both counterexamples).
G: the same argument sequences (TLC's initial states) are materialised: real repositories
   "repo" and "repo-b" (own configs), caller/callee pair, shared local action, a file outside;
   the real LintFiles is run for each sequence with GOMAXPROCS in {1, 2, 16} and compared, file by
   file, with LintFile on a fresh Linter (relation between two real outputs).
T: all outcomes are validated by TLC (EmissionTrace.tla, records of kind "pair" and "outcome");
   a -race build of the harness runs a stress set hitting the shared tables; the exported built-in
   tables are fingerprinted before and after every run.
"""
import json
import os
import re
import sys

import vplib
from vplib import Inconclusive

sys.path.insert(0, os.path.dirname(os.path.dirname(os.path.abspath(__file__))))
import tlaval  # noqa: E402
from checks import c02  # noqa: E402

LEVEL = 'model_checking'

CFG_A = 'self-hosted-runner:\n  labels: [lab-a]\nconfig-variables: [zvar, avar, mvar]\n'
CFG_B = 'self-hosted-runner:\n  labels: [lab-b]\nconfig-variables: [bvar]\n'
ACTION = ('name: act\ndescription: d\ninputs:\n  must:\n    description: d\n    required: true\n  opt:\n    description: d\n'
          'outputs:\n  res:\n    description: d\nruns:\n  using: composite\n  steps:\n    - run: echo\n      shell: bash\n')
CALLEE = ('on:\n  workflow_call:\n    inputs:\n      need:\n        type: string\n        required: true\n      num:\n        type: number\n'
          '      nd:\n        type: string\n        required: true\n        default: null\n'
          "      ed:\n        type: string\n        required: true\n        default: ''\n      bd:\n        type: string\n        required: true\n        default:\n"
          "      xr:\n        type: string\n        required: ${{ github.event_name == 'push' }}\n"
          '    secrets:\n      tok:\n        required: true\n    outputs:\n      out1:\n        value: ${{ jobs.x.outputs.o }}\n'
          'jobs:\n  x:\n    runs-on: lab-a\n    outputs:\n      o: v\n    steps:\n      - run: echo ${{ vars.NOPE1 }}\n')


def caller(tag, label, var):
    return ('on:\n  push:\n  issues:\n    types: [nonexistent%s]\npermissions:\n  bogus%s: read\njobs:\n'
            '  call:\n    uses: ./.github/workflows/callee.yml\n    with:\n      num: notanumber\n      extra%s: 1\n'
            '  build:\n    runs-on: %s\n    steps:\n      - uses: ./.github/actions/act\n        with:\n          wrong%s: 1\n'
            '      - run: echo ${{ vars.%s }} ${{ undefined%s }}\n      - run: echo ${{ needs.call.outputs.out1 }}\n'
            % (tag, tag, tag, label, tag, var, tag))


FILES = {
    # a2 lives in a nested directory that has .github/workflows but no .git: it belongs to `repo`
    'a': 'repo/.github/workflows/a.yml', 'a2': 'repo/examples/demo/.github/workflows/a2.yml', 'callee': 'repo/.github/workflows/callee.yml',
    'b': 'repo-b/.github/workflows/b.yml', 'out': 'out.yml'}


def layout():
    b = ('on: push\njobs:\n  build:\n    runs-on: lab-b\n    steps:\n      - run: echo ${{ vars.BVAR }} ${{ vars.NOPEB }}\n')
    out = 'on: push\njobs:\n  build:\n    runs-on: ubuntu-latest\n    steps:\n      - run: echo ${{ undefinedout }}\n'
    files = {FILES['a']: caller('a', 'lab-a', 'AVAR'), FILES['a2']: caller('b', 'lab-a', 'ZVAR'), FILES['callee']: CALLEE,
             FILES['b']: b, FILES['out']: out,
             'repo/.github/actionlint.yaml': CFG_A, 'repo-b/.github/actionlint.yaml': CFG_B,
             'repo/.github/actions/act/action.yml': ACTION}
    return [{'path': p, 'content': c} for p, c in sorted(files.items())], ['repo/.git', 'repo-b/.git', 'repo-b/.github/workflows']


def extra_layouts():
    """Small targeted layouts (name, files, dirs, argument sequences) run through the same multi-vs-alone comparison."""
    out = []
    W = '.github/workflows/'
    # 1. a broken glob among the configured runner labels: every file reports it, however many files share the config
    lab = lambda n, ro: ('on: push\njobs:\n  j:\n    runs-on: %s\n    steps:\n      - run: echo ${{ undefined%s }}\n' % (ro, n))
    f = {'repo/.github/actionlint.yaml': 'self-hosted-runner:\n  labels: [lab-a, "gpu-[", "x-*", "y[a"]\nconfig-variables: [v1]\n',
         'repo/' + W + 'x1.yml': lab('x1', 'custom-one'), 'repo/' + W + 'x2.yml': lab('x2', '[self-hosted, custom-two]'),
         'repo/' + W + 'x3.yml': lab('x3', 'x-large'), 'repo/' + W + 'x4.yml': lab('x4', 'lab-a')}
    x = ['repo/' + W + 'x%d.yml' % i for i in (1, 2, 3, 4)]
    out.append(('config-broken-label-glob', f, ['repo/.git'], [x, x[::-1], [x[1], x[0]], [x[3], x[2], x[0]]]))
    # 2. sibling repositories whose paths differ only in letter case
    f = {'work/Deploy/.github/actionlint.yaml': 'self-hosted-runner:\n  labels: [lab-up]\nconfig-variables: [upvar]\n',
         'work/deploy/.github/actionlint.yaml': 'self-hosted-runner:\n  labels: [lab-low]\nconfig-variables: [lowvar]\n',
         'work/Deploy/' + W + 'u.yml': 'on: push\njobs:\n  j:\n    runs-on: lab-up\n    steps:\n      - run: echo ${{ vars.UPVAR }} ${{ vars.LOWVAR }}\n      - uses: ./.github/actions/act\n',
         'work/deploy/' + W + 'l.yml': 'on: push\njobs:\n  j:\n    runs-on: lab-low\n    steps:\n      - run: echo ${{ vars.UPVAR }} ${{ vars.LOWVAR }}\n      - uses: ./.github/actions/act\n',
         'work/Deploy/.github/actions/act/action.yml': ACTION,
         'work/deploy/.github/actions/act/action.yml': ACTION.replace('must:', 'other:')}
    u, l = 'work/Deploy/' + W + 'u.yml', 'work/deploy/' + W + 'l.yml'
    out.append(('case-sibling-repos', f, ['work/Deploy/.git', 'work/deploy/.git'], [[u, l], [l, u]]))
    # 3. an invalid local call (with @ref) next to a correct call of the same workflow
    big = ''.join('      - run: echo ${{ undefinedg%d }}\n' % i for i in range(40))
    good = ('on: push\njobs:\n  call:\n    uses: ./.github/workflows/callee.yml\n    with:\n      num: notanumber\n      extrag: 1\n'
            '  use:\n    needs: call\n    runs-on: ubuntu-latest\n    steps:\n      - run: echo ${{ needs.call.outputs.out1 }} ${{ needs.call.outputs.nope }}\n' + big)
    bad = 'on: push\njobs:\n  call:\n    uses: ./.github/workflows/callee.yml@main\n    with:\n      need: x\n'
    f = {'repo/' + W + 'good.yml': good, 'repo/' + W + 'bad.yml': bad, 'repo/' + W + 'callee.yml': CALLEE,
         'repo/.github/actionlint.yaml': CFG_A}
    g, b, c = 'repo/' + W + 'good.yml', 'repo/' + W + 'bad.yml', 'repo/' + W + 'callee.yml'
    out.append(('ref-call-next-to-good-call', f, ['repo/.git'], [[b, g], [g, b], [b, g, c], [c, b, g], [b, c, g], [g, c, b]]))
    # 4. files outside any repository (no project: null caches), one of them with an invalid local call
    f = {'loose/o1.yml': bad, 'loose/o2.yml': good, 'loose/o3.yml': lab('o3', 'ubuntu-latest')}
    o = ['loose/o1.yml', 'loose/o2.yml', 'loose/o3.yml']
    out.append(('no-project', f, [], [o, o[::-1], [o[0], o[2]]]))
    return out


def run(ck, tier):
    sd = vplib.subdir('c10')
    r = vplib.run_tlc('LinterMC', 'Linter_ok.cfg', timeout=1800)
    ck.add_tlc('Linter: all argument orders x interleavings of resolve/register/read/miss-write; Attribution, Isolation', r)
    if r.violated:
        raise Inconclusive('Linter.tla violates %s (model level)' % r.violated)
    for cfg, inv in (('Linter_prefix.cfg', 'Attribution'), ('Linter_disagree.cfg', 'Isolation')):
        g = vplib.run_tlc('LinterMC', cfg, timeout=600)
        ck.add_tlc('Linter vacuity guard %s: must violate %s' % (cfg, inv), g)
        if g.violated != inv:
            raise Inconclusive('vacuity guard %s no longer violates %s' % (cfg, inv))
    ra = vplib.run_tlc('LinterMC', 'Linter_args.cfg', dump='args', timeout=600, name='args')
    orders = []
    for st in tlaval.read_dump(os.path.join(ra.dir, 'args.dump')):
        orders.append(st['args'])
    if not orders:
        raise Inconclusive('no argument sequences dumped')
    orders.sort(key=lambda a: (len(a), a))
    if tier == 'quick':
        # all sequences of length <= 3, every 3rd longer one
        orders = [o for i, o in enumerate(orders) if len(o) <= 3 or i % 3 == 0]
    files, dirs = layout()
    cases = []
    for i, o in enumerate(orders, 1):
        cases.append({'id': i, 'name': 'args:' + ','.join(o), 'files': files, 'dirs': dirs, 'args': [FILES[x] for x in o],
                      'reps': 3 if tier == 'quick' else 9, 'gomaxprocs': [1, 2, 16], 'cwd': '', 'single': True})
    # histories: one Linter instance used for several LintFiles calls (every 7th sequence)
    for o in orders[::7]:
        cases.append({'id': len(cases) + 1, 'name': 'reused-linter:args:' + ','.join(o), 'files': files, 'dirs': dirs,
                      'args': [FILES[x] for x in o], 'reps': 3, 'gomaxprocs': [2, 16], 'cwd': '', 'single': True, 'reuse': True})
    n_main = len(cases)
    for name, fs, ds, seqs in extra_layouts():
        fl = [{'path': p_, 'content': c_} for p_, c_ in sorted(fs.items())]
        for k, s_ in enumerate(seqs):
            cases.append({'id': len(cases) + 1, 'name': 'layout:%s:%d' % (name, k), 'files': fl, 'dirs': ds, 'args': s_,
                          'reps': 8 if tier == 'quick' else 40, 'gomaxprocs': [1, 2, 16, 4], 'cwd': '', 'single': True})
    vplib.write_jsonl(os.path.join(sd, 'cases.jsonl'), cases)
    vplib.run_harness(['det-run', os.path.join(sd, 'cases.jsonl'), os.path.join(sd, 'out.jsonl')], timeout=3000)
    res = vplib.read_jsonl(os.path.join(sd, 'out.jsonl'))
    lines, meta = [], []
    msgids = {}
    base_checked = False
    for c, o in zip(cases, res):
        if o.get('panic'):
            raise Inconclusive('case %s failed: %s' % (c['name'], o['panic']))
        if o.get('tables'):
            ck.violation('tables-modified', 'a built-in table changed during the run of %s' % c['name'], {'kind': 'tables', 'case': c})
        if not base_checked:
            for a, ds in o['single'].items():
                if not ds:
                    raise Inconclusive('layout file %s yields no diagnostics when linted alone (vacuous)' % a)
            base_checked = True
        for k, oc in enumerate(o['outcomes']):
            if oc['fatal']:
                raise Inconclusive('fatal error in a multi-file run: ' + oc['fatal'])
            lines.append(json.dumps({'case': c['id'], 'kind': 'outcome', 'diags': c02.encode_diags(oc['diags'], c['args'], msgids),
                                     'fatal': 0, 'text': 0, 'other': []}))
            meta.append(('outcome', c, o, k, None))
            for ai, a in enumerate(c['args'], 1):
                multi = [d for d in oc['diags'] if a.endswith(d['file']) or d['file'].endswith(a)]
                single = o['single'][a]
                enc_m = c02.encode_diags(multi, c['args'], msgids)
                enc_s = [[ai] + x[1:] for x in c02.encode_diags(single, [a], msgids)]
                lines.append(json.dumps({'case': c['id'] * 100 + ai, 'kind': 'pair', 'diags': enc_m, 'other': enc_s, 'fatal': 0, 'text': 0}))
                meta.append(('pair', c, o, k, a))
        ck.cov['evaluations'] += o['runs']
    t = vplib.run_tlc('EmissionTrace', 'EmissionTrace.cfg', workers=1, files={'trace.ndjson': '\n'.join(lines) + '\n'}, timeout=2400, heap='4g')
    ck.add_tlc('EmissionTrace: %d records (multi-file outcome vs single-file result per file; determinism per argument sequence)' % len(lines), t)
    mism, drift = c02.parse_mism(t.out)
    reported = set()
    for idx in mism:
        kind, c, o, k, a = meta[idx - 1]
        key = (kind, a if kind == 'pair' else c['name'])
        if key in reported:
            continue
        reported.add(key)
        oc = o['outcomes'][k]
        if kind == 'pair':
            multi = [(d['line'], d['col'], d['msg']) for d in oc['diags'] if a.endswith(d['file']) or d['file'].endswith(a)]
            single = [(d['line'], d['col'], d['msg']) for d in o['single'][a]]
            only_m = [x for x in multi if x not in single]
            only_s = [x for x in single if x not in multi]
            ck.violation('isolation:' + os.path.basename(a),
                         'linted with %s the file %s gets different diagnostics than linted alone: only in the multi-file run %s; only alone %s'
                         % (c['name'], a, only_m[:3], only_s[:3]),
                         {'kind': 'isolation', 'file': a, 'case': c, 'only_multi': only_m, 'only_single': only_s})
        else:
            ck.violation('nondeterministic:' + c['name'], 'the same multi-file run gave two different results', {'kind': 'determinism', 'case': c})
    ck.cov['traces_validated_against_impl'] += len(lines)
    ck.cov['argument_sequences'] = len(cases)
    ck.cov['distinct_nontrivial'] += len(cases)
    # ---- race build, stress on the shared tables
    stress_files, dirs = layout()
    extra = []
    n = 24 if tier == 'quick' else 64
    for i in range(n):
        extra.append({'path': 'repo/.github/workflows/s%02d.yml' % i, 'content': caller('s%02d' % i, 'lab-a', 'NOPE%d' % i)})
    case = {'id': 1, 'name': 'stress', 'files': stress_files + extra, 'dirs': dirs,
            'args': [FILES['callee']] + [e['path'] for e in extra[:len(extra) // 2]] + [FILES['b']] + [e['path'] for e in extra[len(extra) // 2:]] + [FILES['a']],
            'reps': 6 if tier == 'quick' else 30,
            'gomaxprocs': [16, 4], 'cwd': '', 'single': False}
    vplib.write_jsonl(os.path.join(sd, 'stress.jsonl'), [case])
    p = vplib.run_harness(['det-run', os.path.join(sd, 'stress.jsonl'), os.path.join(sd, 'stress-out.jsonl')], race=True, check=False,
                          timeout=3000, env={'GORACE': 'halt_on_error=0 exitcode=0'})
    err = p.stderr.decode('utf-8', 'replace')
    races = err.count('WARNING: DATA RACE')
    if p.returncode != 0 and not races:
        raise Inconclusive('race-build stress run failed rc=%s: %s' % (p.returncode, err[-1500:]))
    if races:
        m = re.search(r'WARNING: DATA RACE.*?(?=\n==================|\Z)', err, re.S)
        rep = m.group(0)[:3000] if m else ''
        fn = re.findall(r'actionlint\.([A-Za-z0-9_.()*]+)\(\)', rep)
        ck.violation('data-race', 'the race detector reports %d data race(s) while linting %d files at once; first: %s'
                     % (races, len(case['args']), ' / '.join(fn[:4])), {'kind': 'race', 'report': rep, 'functions': fn[:8]})
    else:
        so = vplib.read_jsonl(os.path.join(sd, 'stress-out.jsonl'))[0]
        if so.get('tables'):
            ck.violation('tables-modified', 'a built-in table changed during the stress run', {'kind': 'tables', 'case': 'stress'})
        if len(so['outcomes']) > 1:
            ck.violation('nondeterministic:stress', 'the stress run gave %d different results' % len(so['outcomes']), {'kind': 'determinism', 'case': 'stress'})
    ck.cov['race_stress_files'] = len(case['args'])
    ck.cov['race_reports'] = races
    ck.cov['evaluations'] += case['reps']
    ck.cov['rule'] = ('every argument sequence (permutations of subsets of 5 files in 2 sibling repositories + 1 outside) run with '
                      'GOMAXPROCS 1,2,16 and compared per file with the single-file result; plus a -race stress run over %d files' % len(case['args']))
    ck.sample({'argument_sequence': cases[len(cases) // 2]['args'], 'files_in_layout': [f['path'] for f in files]})
    ck.assumptions += ['the race detector only sees executed interleavings', 'referenced local actions / reusable workflows are well-formed',
                       'nested repositories are out of scope']


def replay(path):
    rp = json.load(open(path))['replay']
    sd = vplib.subdir('c10r')
    if rp['kind'] != 'isolation':
        print('re-run the check for this kind of violation')
        return 1
    c = dict(rp['case'], reps=12)
    vplib.write_jsonl(os.path.join(sd, 'cases.jsonl'), [c])
    vplib.run_harness(['det-run', os.path.join(sd, 'cases.jsonl'), os.path.join(sd, 'out.jsonl')], timeout=600)
    o = vplib.read_jsonl(os.path.join(sd, 'out.jsonl'))[0]
    a = rp['file']
    bad = 0
    for oc in o['outcomes']:
        multi = [(d['line'], d['col'], d['msg']) for d in oc['diags'] if a.endswith(d['file']) or d['file'].endswith(a)]
        single = [(d['line'], d['col'], d['msg']) for d in o['single'][a]]
        if multi != single:
            bad += 1
            print('multi :', multi)
            print('single:', single)
    return 1 if bad else 0
