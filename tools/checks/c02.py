"""C02 - output is a deterministic function of the inputs.

E: TLC checks Emission.tla: over all small files and every iteration order of every map-sourced
   emission site (job visiting order included) the sorted output is unique IFF no map-sourced site
   emits two diagnostics at one position or chooses among candidates (the characterisation that
   tells which sites must be canonicalised), and the stable sort keeps rule order for ties.
G: for every concrete site of the catalogue (A.7 of DESIGN.md) the witness shape is materialised as
   a repository and linted K times by the real code in one process (fresh Linter each time, Go
   re-randomises every map range) with GOMAXPROCS in {1, 2, 4, 16}; multi-file witnesses are
   linted as one invocation.  Two different outcomes for one input are a violation - a relation
   between two real outputs, no oracle involved.
T: every observed outcome is recorded and validated by TLC (EmissionTrace.tla): equal to the first
   outcome of its case (history variable), sorted by (file, line, col) with ties in rule order.
"""
import json
import os
import re

import vplib
from vplib import Inconclusive

LEVEL = 'model_checking'

RULE_ORDER = ['syntax-check', 'matrix', 'credentials', 'shell-name', 'runner-label', 'events', 'job-needs', 'action',
              'env-var', 'id', 'glob', 'permissions', 'workflow-call', 'expression', 'deprecated-commands', 'if-cond',
              'shellcheck', 'pyflakes']

HEAD = 'on: push\n'
JOB = '  %s:\n    runs-on: ubuntu-latest\n    steps:\n'
WF = 'repo/.github/workflows/'


def wf(body):
    return HEAD + 'jobs:\n' + body


def job(name, steps, extra=''):
    return '  %s:\n    runs-on: ubuntu-latest\n%s    steps:\n%s' % (name, extra, ''.join('      - ' + s + '\n' for s in steps))


REQ_ACTION = ('name: req\ndescription: d\ninputs:\n' + ''.join('  in%s:\n    description: d\n    required: true\n' % c for c in 'edcba') +
              'runs:\n  using: node20\n  main: index.js\n')
CALLEE = ('on:\n  workflow_call:\n    inputs:\n' + ''.join('      in%s:\n        type: string\n        required: true\n' % c for c in 'dcba') +
          '    secrets:\n' + ''.join('      sec%s:\n        required: true\n' % c for c in 'cba') +
          'jobs:\n  x:\n    runs-on: ubuntu-latest\n    steps:\n      - run: echo\n')
BROKEN_ACTION = 'name: [\n'
BROKEN_CALLEE = 'on:\n  workflow_call:\n    inputs: [\njobs: {}\n'


def witnesses():
    """(name, files, args, multi_procs, note)"""
    w = []

    def add(name, files, args=None, procs=None, dirs=None, fmt='', chdirs=None):
        files = dict(files)
        if args is None:
            args = [WF + 'w.yml']
        w.append({'name': name, 'files': [{'path': p, 'content': c} for p, c in sorted(files.items())], 'args': args,
                  'gomaxprocs': procs or [1, 2, 4, 16], 'dirs': dirs or ['repo/.git'], 'format': fmt, 'chdirs': chdirs or []})

    add('format-placeholders', {WF + 'w.yml': wf(job('a', ["run: echo ${{ format('{0}{1}{2}{3}{4}{5}', 1) }}"]))})
    add('format-unused-args', {WF + 'w.yml': wf(job('a', ["run: echo ${{ format('x', 1, 2, 3, 4) }}"]))})
    add('action-local-required-inputs', {WF + 'w.yml': wf(job('a', ['uses: ./.github/actions/req'])),
                                          'repo/.github/actions/req/action.yml': REQ_ACTION})
    add('action-local-undefined-inputs', {WF + 'w.yml': wf(job('a', ['uses: ./.github/actions/req\n        with:\n          zz: 1\n          yy: 2\n          xx: 3\n'
                                                                      '          ine: 1\n          ind: 1\n          inc: 1\n          inb: 1\n          ina: 1'])),
                                           'repo/.github/actions/req/action.yml': REQ_ACTION})
    add('action-popular-required-inputs', {WF + 'w.yml': wf(job('a', ['uses: actions/cache@v4']))})
    add('call-required-inputs-secrets', {WF + 'w.yml': HEAD + 'jobs:\n  c:\n    uses: ./.github/workflows/callee.yml\n',
                                         WF + 'callee.yml': CALLEE})
    add('call-undefined-inputs', {WF + 'w.yml': HEAD + 'jobs:\n  c:\n    uses: ./.github/workflows/callee.yml\n    with:\n      zz: 1\n      yy: 2\n'
                                  '      ina: a\n      inb: a\n      inc: a\n      ind: a\n    secrets:\n      qq: a\n      pp: b\n      seca: a\n      secb: a\n      secc: a\n',
                                  WF + 'callee.yml': CALLEE})
    add('runner-label-conflict-partner', {WF + 'w.yml': HEAD + 'jobs:\n  a:\n    runs-on: [linux, ubuntu-22.04, windows-latest]\n    steps:\n      - run: echo\n'})
    add('runner-label-conflict-partner-2', {WF + 'w.yml': HEAD + 'jobs:\n  a:\n    runs-on: [macos, macos-14, macos-13, ubuntu-latest]\n    steps:\n      - run: echo\n'})
    add('runner-label-conflict-multiline', {WF + 'w.yml': HEAD + 'jobs:\n  a:\n    runs-on: [self-hosted, linux,\n      ubuntu-22.04, windows-latest]\n    steps:\n      - run: echo\n'})
    add('runner-label-conflict-multiline-2', {WF + 'w.yml': HEAD + 'jobs:\n  a:\n    runs-on:\n      - macos\n      -   macos-14\n      -       macos-13\n      - ubuntu-latest\n    steps:\n      - run: echo\n'})
    add('needs-two-cycles', {WF + 'w.yml': wf(job('a', ['run: echo'], '    needs: [b]\n') + job('b', ['run: echo'], '    needs: [a]\n') +
                                               job('c', ['run: echo'], '    needs: [d]\n') + job('d', ['run: echo'], '    needs: [c]\n') +
                                               job('e', ['run: echo'], '    needs: [f]\n') + job('f', ['run: echo'], '    needs: [e]\n'))})
    add('needs-overlapping-cycles', {WF + 'w.yml': wf(job('a', ['run: echo'], '    needs: [b, c]\n') + job('b', ['run: echo'], '    needs: [a]\n') +
                                                       job('c', ['run: echo'], '    needs: [a, b]\n'))})
    add('broken-local-action-two-jobs', {WF + 'w.yml': wf(''.join(job(n, ['uses: ./.github/actions/broken']) for n in 'abcd')),
                                         'repo/.github/actions/broken/action.yml': BROKEN_ACTION})
    add('missing-local-action-two-jobs', {WF + 'w.yml': wf(''.join(job(n, ['uses: ./.github/actions/nothere']) for n in 'abcd'))})
    add('broken-callee-two-jobs', {WF + 'w.yml': HEAD + 'jobs:\n' + ''.join('  %s:\n    uses: ./.github/workflows/callee.yml\n' % n for n in 'abcd'),
                                   WF + 'callee.yml': BROKEN_CALLEE})
    add('undefined-names-lists', {WF + 'w.yml': wf(job('a', ['run: echo ${{ foo.bar }} ${{ unknownfn() }} ${{ github.nope }}'],
                                                       '    permissions:\n      foo: read\n'))})
    add('matrix-exclude-unknown-keys', {WF + 'w.yml': HEAD + 'jobs:\n  a:\n    runs-on: ubuntu-latest\n    strategy:\n      matrix:\n        x: [1]\n        y: [2]\n        z: [3]\n'
                                        '        exclude:\n          - {p: 1, q: 2, r: 3}\n    steps:\n      - run: echo\n'})
    add('json-literal-keys-differ-in-case', {WF + 'w.yml': wf(job('a', ["run: echo ${{ fromJSON('{\"A\":{\"x\":1},\"a\":1,\"B\":[1],\"b\":{\"y\":2}}').a.x }} ${{ fromJSON('{\"K\":1,\"k\":{\"z\":1}}').k.z }}"]))})
    add('dispatch-inputs', {WF + 'w.yml': 'on:\n  workflow_dispatch:\n    inputs:\n' + ''.join('      i%s:\n        type: choice\n        default: zz\n        options: [a]\n' % c for c in 'dcba') +
                            'jobs:\n  a:\n    runs-on: ubuntu-latest\n    steps:\n      - run: echo ${{ inputs.nope }}\n'})
    # typing sites that could fold over a map: object filters over objects whose properties have different types
    filt_steps = ('      - run: echo ${{ matrix.*.x.y }} ${{ matrix.*.x.y.z }} ${{ matrix.*.x[0] }} ${{ matrix.*.x.* }}\n'
                  "      - run: echo ${{ join(matrix.*.x.y, ',') }} ${{ join(matrix.*.x) }} ${{ contains(matrix.*.x.y, 1) }} ${{ matrix.*.x == 1 }}\n")
    for nm, rows in (('scalars', ['1', 'true', 'foo']), ('scalars-2', ['foo', '1.5', 'false', '0x10']), ('with-null', ['1', 'null', 'foo']),
                     ('mixed', ['1', 'true', 'foo', '{y: 1}', '[1]', 'null']), ('objects', ['{y: 1}', '{y: true}', '{y: s}', '{z: 1}'])):
        add('object-filter-props-' + nm,
            {WF + 'w.yml': HEAD + 'jobs:\n  a:\n    runs-on: ubuntu-latest\n    strategy:\n      matrix:\n' +
             ''.join('        %s: [{x: %s}]\n' % (k, v) for k, v in zip('abcdefgh', rows)) + '    steps:\n' + filt_steps +
             "      - run: echo ${{ fromJSON('{" + ','.join('"%s":{"x":%s}' % (k, {'foo': '"s"', '{y: 1}': '{"y":1}', '[1]': '[1]', '{y: true}': '{"y":true}',
                                                                                       '{y: s}': '{"y":"s"}', '{z: 1}': '{"z":1}', '0x10': '16'}.get(v, v))
                                                     for k, v in zip('abcdefgh', rows)) + "}').*.x.y }}\n"})
    add('object-filter-contexts', {WF + 'w.yml': HEAD + 'jobs:\n  p:\n    runs-on: ubuntu-latest\n    outputs:\n      o1: a\n      o2: b\n    steps:\n      - run: echo\n'
                                   '  q:\n    runs-on: ubuntu-latest\n    outputs:\n      o1: a\n      o3: b\n    steps:\n      - run: echo\n'
                                   '  a:\n    needs: [p, q]\n    runs-on: ubuntu-latest\n    steps:\n      - id: s1\n        run: echo\n      - id: s2\n        uses: actions/cache@v4\n        with:\n          path: p\n          key: k\n'
                                   '      - run: echo ${{ needs.*.outputs.o1.zz }} ${{ needs.*.outputs.o2 }} ${{ needs.*.result.zz }} ${{ github.event.*.x.y }} ${{ steps.*.outputs.q.r }} ${{ steps.*.outputs.cache-hit.x }} ${{ steps.*.conclusion.x }}\n'})
    # several jobs on ONE line (flow style): the tie between jobs must still be broken deterministically
    add('flow-style-jobs-one-line', {WF + 'w.yml': HEAD + 'jobs: {d: {uses: ./.github/workflows/nothere.yml}, c: {uses: ./.github/workflows/nothere.yml}, '
                                     'b: {uses: ./.github/workflows/nothere.yml}, a: {uses: ./.github/workflows/nothere.yml}}\n'})
    add('flow-style-jobs-one-line-action', {WF + 'w.yml': HEAD + 'jobs: {' + ', '.join('%s: {runs-on: ubuntu-latest, steps: [{uses: ./.github/actions/broken}]}' % n for n in 'dcba') + '}\n',
                                            'repo/.github/actions/broken/action.yml': BROKEN_ACTION})
    # configuration errors are results too
    add('config-several-invalid-globs', {WF + 'w.yml': wf(job('a', ['run: echo ${{ foo }}'])),
                                         'repo/.github/actionlint.yaml': 'paths:\n' + ''.join('  "%s[": {}\n' % c for c in 'edcba')})
    add('config-several-invalid-ignore', {WF + 'w.yml': wf(job('a', ['run: echo ${{ foo }}'])),
                                          'repo/.github/actionlint.yaml': 'paths:\n' + ''.join('  "%s/**": {ignore: ["(%s"]}\n' % (c, c) for c in 'edcba')})
    # the working directory of the PROCESS is not an input (LinterOptions.WorkingDir is): per-path configuration, relative
    # display paths, local actions and reusable workflows while the process sits in other directories
    pcfg = ('paths:\n  ".github/workflows/**/*.yml":\n    ignore: ["undefined variable \\"foo"]\n  "w.yml":\n    ignore: ["bar"]\n'
            'self-hosted-runner:\n  labels: [lab-x]\n')
    pw = wf(job('a', ['run: echo ${{ foo }} ${{ bar }}', 'uses: ./.github/actions/req'])).replace('ubuntu-latest', 'lab-x')
    add('process-cwd-independence', {WF + 'w.yml': pw, 'repo/.github/actionlint.yaml': pcfg, 'repo/.github/actions/req/action.yml': REQ_ACTION,
                                    'repo/.github/actions/req/index.js': '// main\n', 'elsewhere/x/keep': ''}, chdirs=['repo', '', 'elsewhere/x', 'repo/.github/workflows', 'repo/.github'])
    add('process-cwd-independence-two-files', {WF + 'w.yml': pw, WF + 'v.yml': pw.replace('foo', 'foo2'), 'repo/.github/actionlint.yaml': pcfg,
                                              'repo/.github/actions/req/action.yml': REQ_ACTION, 'repo/.github/actions/req/index.js': '// main\n',
                                              'elsewhere/x/keep': ''},
        [WF + 'w.yml', WF + 'v.yml'], chdirs=['repo', '', 'elsewhere/x', 'repo/.github/workflows'])
    # shared configuration lists rendered in messages (config-variables, runner labels written unsorted) in a multi-file run
    ucfg = 'config-variables: [zeta, alpha, MID, beta, Omega]\nself-hosted-runner:\n  labels: [zz-runner, aa-runner, mm-*]\n'
    uw = {WF + '%s.yml' % n: wf(job('j', ['run: echo ${{ vars.NOPE_%s }}' % n.upper(), 'run: echo ${{ vars.OTHER }}']).replace('ubuntu-latest', 'unknown-%s' % n))
          for n in 'abcd'}
    uw['repo/.github/actionlint.yaml'] = ucfg
    add('multi-file-shared-config-lists', uw, [WF + 'a.yml', WF + 'b.yml', WF + 'c.yml', WF + 'd.yml'])
    # multi-file witnesses
    three = {WF + '%s.yml' % n: wf(job('j', ['uses: ./.github/actions/broken', 'run: echo ${{ foo }}'])) for n in 'abc'}
    three['repo/.github/actions/broken/action.yml'] = BROKEN_ACTION
    add('multi-file-shared-broken-action', three, [WF + 'a.yml', WF + 'b.yml', WF + 'c.yml'])
    one = {WF + 'a.yml': wf(job('j', ['uses: ./.github/actions/broken', 'run: echo ${{ foo }}'])),
           WF + 'b.yml': wf(job('j', ['run: echo ${{ bar }}'])), WF + 'c.yml': wf(job('j', ['uses: ./.github/actions/noindex'])),
           'repo/.github/actions/broken/action.yml': BROKEN_ACTION,
           'repo/.github/actions/noindex/action.yml': REQ_ACTION.replace('required: true', 'required: false')}
    add('multi-file-one-user-of-broken-action', one, [WF + 'a.yml', WF + 'b.yml', WF + 'c.yml'])
    ok3 = {WF + '%s.yml' % n: wf(job('j', ['run: echo ${{ foo%s }}' % n, 'uses: ./.github/actions/req'])) for n in 'abc'}
    ok3['repo/.github/actions/req/action.yml'] = REQ_ACTION
    ok3['repo/.github/actions/req/index.js'] = '// main\n'          # a well-formed shared action (control)
    add('multi-file-order', ok3, [WF + 'c.yml', WF + 'a.yml', WF + 'b.yml'])
    # the rendered output of a custom template (applied once to the whole result) for every degree of parallelism
    add('multi-file-order-format-json', ok3, [WF + 'c.yml', WF + 'a.yml', WF + 'b.yml'], fmt='{{json .}}')
    add('multi-file-order-format-range', ok3, [WF + 'c.yml', WF + 'a.yml', WF + 'b.yml'],
        fmt='<{{range $i, $e := .}}{{$i}}={{$e.Filepath}}:{{$e.Line}}:{{$e.Column}}:{{$e.Kind}}|{{end}}>')
    callee2 = ('on:\n  workflow_call:\n    inputs:\n      x:\n        type: string\n        required: true\n        default: null\n'
               'jobs:\n  x:\n    runs-on: ubuntu-latest\n    steps:\n      - run: echo\n')
    callee3 = ('on:\n  workflow_call:\n    inputs:\n' + ''.join('      %s:\n        type: string\n        required: true\n%s' % (n, d) for n, d in
               [('nodef', ''), ('nulldef', '        default: null\n'), ('emptydef', "        default: ''\n"), ('baredef', '        default:\n'),
                ('tildedef', '        default: ~\n'), ('valdef', '        default: v\n'), ('exprreq', ''),
                ('reqcap', ''), ('requp', ''), ('reqyes', ''), ('reqon', ''), ('reqquoted', '')]).replace("      exprreq:\n        type: string\n        required: true\n", "      exprreq:\n        type: string\n        required: ${{ github.event_name == 'push' }}\n")
               # spellings of the boolean: True / TRUE are booleans, yes / on / 'true' are strings - both derivations must agree
               .replace("      reqcap:\n        type: string\n        required: true\n", "      reqcap:\n        type: string\n        required: True\n")
               .replace("      requp:\n        type: string\n        required: true\n", "      requp:\n        type: string\n        required: TRUE\n")
               .replace("      reqyes:\n        type: string\n        required: true\n", "      reqyes:\n        type: string\n        required: yes\n")
               .replace("      reqon:\n        type: string\n        required: true\n", "      reqon:\n        type: string\n        required: on\n")
               .replace("      reqquoted:\n        type: string\n        required: true\n", "      reqquoted:\n        type: string\n        required: 'true'\n") +
               '    secrets:\n      s1:\n        required: true\n      s2:\n        required: ${{ github.event_name == \'push\' }}\n      s3:\n      s4:\n        required: True\n      s5:\n        required: yes\n'
               '    outputs:\n      o1:\n        value: v\n      o2:\n      o3: {}\n      o4: ~\n'
               'jobs:\n  x:\n    runs-on: ubuntu-latest\n    steps:\n      - run: echo\n')
    use_out = ('  u:\n    needs: c\n    runs-on: ubuntu-latest\n    steps:\n      - run: echo ${{ needs.c.outputs.o1 }} ${{ needs.c.outputs.o2 }} '
               '${{ needs.c.outputs.o3 }} ${{ needs.c.outputs.o4 }} ${{ needs.c.outputs.o5 }}\n')
    add('multi-file-callee-declaration-variants', {WF + 'w.yml': HEAD + 'jobs:\n  c:\n    uses: ./.github/workflows/callee.yml\n' + use_out, WF + 'callee.yml': callee3},
        [WF + 'w.yml', WF + 'callee.yml'])
    add('multi-file-callee-declaration-variants-callee-first', {WF + 'w.yml': HEAD + 'jobs:\n  c:\n    uses: ./.github/workflows/callee.yml\n' + use_out, WF + 'callee.yml': callee3},
        [WF + 'callee.yml', WF + 'w.yml'])
    add('multi-file-callee-in-run', {WF + 'w.yml': HEAD + 'jobs:\n  c:\n    uses: ./.github/workflows/callee.yml\n', WF + 'callee.yml': callee2},
        [WF + 'w.yml', WF + 'callee.yml'])
    return w


def parse_mism(out):
    m = re.search(r'<<\s*"MISM",\s*(\d+),\s*<<(.*?)>>,\s*<<(.*?)>>\s*>>', out, re.S)
    if not m:
        raise Inconclusive('trace validation produced no verdict:\n' + out[-2000:])

    def ints(body):
        body = body.strip()
        return [int(x) for x in body.replace('\n', ' ').split(',') if x.strip()] if body else []
    return ints(m.group(2)), ints(m.group(3))


def encode_diags(diags, args, msgids):
    out = []
    for d in diags:
        base = d['file']
        fi = next((i for i, a in enumerate(args, 1) if a.endswith(base) or base.endswith(a) or os.path.basename(a) == os.path.basename(base)), 0)
        if d['kind'] not in RULE_ORDER:
            raise Inconclusive('unknown rule kind %r' % d['kind'])
        out.append([fi, d['line'], d['col'], RULE_ORDER.index(d['kind']) + 1, msgids.setdefault(d['msg'], len(msgids) + 1)])
    return out


def clock_probe(sd, tier, box):
    try:
        out = os.path.join(sd, 'clock.json')
        vplib.run_harness(['clock-probe', out] + (['short'] if tier == 'quick' else []), timeout=600)
        box['res'] = json.load(open(out))
    except Exception as e:            # reported by the caller as inconclusive
        box['err'] = repr(e)


def run(ck, tier):
    sd = vplib.subdir('c02')
    vplib.build_harness()
    import threading
    box = {}
    th = threading.Thread(target=clock_probe, args=(sd, tier, box))
    th.start()
    r = vplib.run_tlc('Emission', 'Emission_quick.cfg' if tier == 'quick' else 'Emission_thorough.cfg', timeout=3000)
    ck.add_tlc('Emission: every order of every map-sourced site; characterisation of deterministic output', r)
    if r.violated:
        raise Inconclusive('Emission.tla violates %s (model level)' % r.violated)
    rp = vplib.run_tlc('PosOrder', 'PosOrder.cfg', dump='vectors', timeout=600)
    ck.add_tlc('PosOrder: lexicographic order of positions is a strict total order (grid 4x4)', rp)
    if rp.violated:
        raise Inconclusive('PosOrder.tla violates %s' % rp.violated)
    pv = vplib.read_dump_json(os.path.join(rp.dir, 'vectors.dump'))
    vplib.write_jsonl(os.path.join(sd, 'pos.jsonl'), [{'a': v['a'], 'b': v['b']} for v in pv])
    vplib.run_harness(['pos-order', os.path.join(sd, 'pos.jsonl'), os.path.join(sd, 'pos-out.jsonl')])
    for v, o in zip(pv, vplib.read_jsonl(os.path.join(sd, 'pos-out.jsonl'))):
        if v['before'] != o['before']:
            ck.violation('pos-order', 'Pos%s.IsBefore(Pos%s) = %s, lexicographic (line, col) order says %s: position order is not a '
                         'strict total order, every smallest-position choice becomes iteration-order dependent'
                         % (tuple(v['a']), tuple(v['b']), o['before'], v['before']), {'kind': 'pos-order', 'a': v['a'], 'b': v['b']})
            break
    ck.cov['evaluations'] += len(pv)
    ws = witnesses()
    reps = 64 if tier == 'quick' else 400
    cases = []
    for i, w in enumerate(ws, 1):
        cases.append(dict(w, id=i, reps=reps, cwd='repo', single=False))
    # histories: the SAME Linter instance used for several runs must answer the same every time
    n0 = len(cases)
    for w in ws:
        if w['name'] == 'multi-file-shared-broken-action':
            continue      # inherently schedule dependent (the listed known finding); not a history witness
        if w['name'].startswith('multi-file') or 'broken' in w['name'] or 'required' in w['name']:
            cases.append(dict(w, id=len(cases) + 1, name='reused-linter:' + w['name'], reps=6 if tier == 'quick' else 24, cwd='repo',
                              single=False, reuse=True))
    vplib.write_jsonl(os.path.join(sd, 'cases.jsonl'), cases)
    vplib.run_harness(['det-run', os.path.join(sd, 'cases.jsonl'), os.path.join(sd, 'out.jsonl')], timeout=3000)
    res = vplib.read_jsonl(os.path.join(sd, 'out.jsonl'))
    lines = []
    meta = []
    msgids = {}
    tied_total = 0
    for c, o in zip(cases, res):
        if o.get('panic'):
            raise Inconclusive('determinism case %s failed: %s' % (c['name'], o['panic']))
        first = o['outcomes'][0]
        pos = {}
        for d in first['diags']:
            pos.setdefault((d['file'], d['line'], d['col']), set()).add(d['msg'])
        tied = sum(1 for v in pos.values() if len(v) > 1)
        tied_total += 1 if tied else 0
        if not first['diags'] and not first['fatal']:
            ck.note('witness %s produces no diagnostic (vacuous)' % c['name'])
        for k, oc in enumerate(o['outcomes']):
            textid = msgids.setdefault('TEXT:' + oc['text'], len(msgids) + 1) if oc['text'] else 0
            lines.append(json.dumps({'case': c['id'], 'kind': 'outcome', 'diags': encode_diags(oc['diags'], c['args'], msgids),
                                     'fatal': msgids.setdefault('FATAL:' + oc['fatal'], len(msgids) + 1) if oc['fatal'] else 0,
                                     'text': textid if k == 0 or oc['text'] else json.loads(lines[-1])['text'] if False else textid,
                                     'other': []}))
            meta.append((c, o, k))
        ck.cov['evaluations'] += o['runs']
    # text ids: outcomes recorded from oneline runs have no text; make them comparable by giving them the case's first text
    fixed = []
    first_text = {}
    for ln in lines:
        rec = json.loads(ln)
        if rec['text'] == 0:
            rec['text'] = first_text.get(rec['case'], 0)
        else:
            first_text.setdefault(rec['case'], rec['text'])
        fixed.append(json.dumps(rec))
    lines = fixed
    t = vplib.run_tlc('EmissionTrace', 'EmissionTrace.cfg', workers=1, files={'trace.ndjson': '\n'.join(lines) + '\n'}, timeout=1200)
    ck.add_tlc('EmissionTrace: %d distinct outcomes of %d witness inputs x %d runs' % (len(lines), len(cases), reps), t)
    mism, drift = parse_mism(t.out)
    reported = set()
    for idx in mism:
        c, o, k = meta[idx - 1]
        if c['name'] in reported:
            continue      # one violation per witness input (its first differing outcome)
        reported.add(c['name'])
        a, b = o['outcomes'][0], o['outcomes'][k]
        da = [(d['file'], d['line'], d['col'], d['msg']) for d in a['diags']]
        db = [(d['file'], d['line'], d['col'], d['msg']) for d in b['diags']]
        diff = next(((x, y) for x, y in zip(da, db) if x != y), (da[len(db):len(db) + 1], db[len(da):len(da) + 1]))
        from collections import Counter
        ca, cb = Counter(da), Counter(db)
        differing = sorted({re.sub(r'"/[^"]*vp-det-[0-9]+', '"<root>', x[3]) for x in list((ca - cb).elements()) + list((cb - ca).elements())})
        if not differing:
            differing = ['<same diagnostics, different order>']
        ck.violation('nondeterministic:' + c['name'],
                     'the same input gave two different results in %d runs (%d vs %d times): first difference %r vs %r%s'
                     % (o['runs'], a['count'], b['count'], diff[0], diff[1],
                        '; fatal: %r vs %r' % (a['fatal'], b['fatal']) if a['fatal'] != b['fatal'] else ''),
                     {'kind': 'determinism', 'witness': c['name'], 'differing_messages': differing, 'case': c,
                      'outcome_a': a, 'outcome_b': b})
    only_drift = [i for i in drift if i not in set(mism)]
    if only_drift:
        c, o, k = meta[only_drift[0] - 1]
        ck.note('model drift: %d outcomes are not sorted by (file, line, col, rule order), e.g. witness %s' % (len(only_drift), c['name']))
    ck.cov['traces_validated_against_impl'] += len(lines)
    ck.cov['distinct_nontrivial'] += tied_total
    ck.cov['witnesses'] = len(cases)
    ck.cov['witnesses_with_tied_positions'] = tied_total
    ck.cov['rule'] = ('one witness input per map-sourced emission site of the catalogue (plus controls), each linted %d times in '
                      'one process with GOMAXPROCS cycling over 1,2,4,16; non-trivial = the witness really produces two '
                      'different diagnostics at one position' % reps)
    # ---- forced schedules (hook gate of C10): the same multi-file input under two serial orders of the file goroutines
    for w in ws:
        if w['name'] not in ('multi-file-shared-broken-action', 'multi-file-one-user-of-broken-action', 'multi-file-order'):
            continue
        rec = {'id': 1, 'name': 'record', 'files': w['files'], 'dirs': w['dirs'], 'args': w['args'], 'cwd': 'repo', 'schedule': [], 'single': False}
        vplib.write_jsonl(os.path.join(sd, 'grec.jsonl'), [rec])
        vplib.run_harness(['sched-run', os.path.join(sd, 'grec.jsonl'), os.path.join(sd, 'grec-out.jsonl')], timeout=300)
        ro = vplib.read_jsonl(os.path.join(sd, 'grec-out.jsonl'))[0]
        if ro.get('panic') or not ro['events']:
            raise Inconclusive('forced-schedule part: recorded run failed or hook points missing: %s' % ro.get('panic'))
        prog = {a: [] for a in w['args']}
        for e in ro['events']:
            if e['kind'] in ('rw-reg-read', 'rw-read', 'ac-read'):
                prog[e['file']].append(('reg' if e['kind'] == 'rw-reg-read' else 'use', e['kind'][:2] + ':' + e['spec']))
        gcases = []
        import itertools
        for order in itertools.permutations(w['args']):
            cache, sched = set(), []
            for f in order:                                   # serial: one file goroutine after the other
                sched.append({'f': f, 'a': 'start'})
                for op, sp in prog[f]:
                    if op == 'reg':
                        sched.append({'f': f, 'a': 'regread'})
                        if sp not in cache:
                            sched.append({'f': f, 'a': 'regwrite'})
                    else:
                        sched.append({'f': f, 'a': 'read'})
                        if sp not in cache:
                            sched.append({'f': f, 'a': 'write'})
                    cache.add(sp)
                sched.append({'f': f, 'a': 'finish'})
            gcases.append({'id': len(gcases) + 1, 'name': 'serial:' + ','.join(os.path.basename(x) for x in order), 'files': w['files'],
                           'dirs': w['dirs'], 'args': w['args'], 'cwd': 'repo', 'schedule': sched, 'single': False})
        vplib.write_jsonl(os.path.join(sd, 'gcases.jsonl'), gcases)
        vplib.run_harness(['sched-run', os.path.join(sd, 'gcases.jsonl'), os.path.join(sd, 'gcases-out.jsonl')], timeout=600)
        gres = vplib.read_jsonl(os.path.join(sd, 'gcases-out.jsonl'))
        outs = {}
        for gc, go_ in zip(gcases, gres):
            if go_.get('panic'):
                raise Inconclusive('forced-schedule case %s failed: %s' % (gc['name'], go_['panic']))
            if go_['stuck']:
                ck.note('forced schedule %s of %s could not be followed: %s' % (gc['name'], w['name'], go_['stuck']))
                continue
            outs[gc['name']] = [(d['file'], d['line'], d['col'], d['msg']) for d in go_['diags']] + [('fatal', 0, 0, go_['fatal'])]
            ck.cov['evaluations'] += 1
        ck.cov['forced_serial_schedules'] = ck.cov.get('forced_serial_schedules', 0) + len(outs)
        names = sorted(outs)
        for n_ in names[1:]:
            if outs[n_] != outs[names[0]]:
                from collections import Counter
                ca, cb = Counter(outs[names[0]]), Counter(outs[n_])
                differing = sorted({re.sub(r'"/[^"]*vp-det-[0-9]+', '"<root>', x[3]) for x in list((ca - cb).elements()) + list((cb - ca).elements())})
                ck.violation('nondeterministic:' + w['name'],
                             'the same files in the same argument order give different results when the file goroutines are forced to run '
                             'in the order %s instead of %s: differing %s' % (n_, names[0], differing[:3]),
                             {'kind': 'forced-order', 'witness': w['name'], 'differing_messages': differing or ['<same diagnostics, different order>'],
                              'case_a': names[0], 'case_b': n_, 'outcome_a': outs[names[0]], 'outcome_b': outs[n_]})
                break
    # ---- wall clock: a fixed workflow with cron triggers around the next minute boundary, linted before / between / after
    th.join()
    if 'res' not in box:
        raise Inconclusive('clock probe failed: %s' % box.get('err'))
    pr = box['res']['probes']
    for p_ in pr[1:]:
        if p_['diags'] != pr[0]['diags'] or p_['fatal'] != pr[0]['fatal']:
            a = [(d['line'], d['col'], d['msg']) for d in pr[0]['diags']]
            b = [(d['line'], d['col'], d['msg']) for d in p_['diags']]
            ck.violation('nondeterministic:wall-clock',
                         'the same workflow linted at %s and at %s gave different results: only first %s, only second %s'
                         % (pr[0]['at'], p_['at'], [x for x in a if x not in b][:3], [x for x in b if x not in a][:3]),
                         {'kind': 'clock', 'workflow': box['res']['workflow'], 'probes': pr})
            break
    if not pr[0]['diags']:
        ck.note('clock probe workflow produced no diagnostic (vacuous)')
    ck.cov['evaluations'] += len(pr)
    ck.cov['clock_probes'] = len(pr)
    ck.sample({'witness': cases[0]['name'], 'workflow': cases[0]['files'][0]['content'], 'outcomes': len(res[0]['outcomes'])})
    ck.assumptions += ['Go map iteration order and goroutine schedules cannot be forced: detection is by repetition '
                       '(probabilistic), soundness is not affected (two real outputs that differ)',
                       'sites not in the catalogue are not exercised',
                       'the wall clock cannot be set: the clock probe lints one workflow whose cron triggers surround the next '
                       'minute boundary at 2 (quick) or 3 instants around it; other kinds of clock dependence are not exercised']


def replay(path):
    rp = json.load(open(path))['replay']
    sd = vplib.subdir('c02r')
    if rp.get('kind') == 'clock':
        box = {}
        clock_probe(sd, 'thorough', box)
        pr = box['res']['probes']
        for p_ in pr:
            print(p_['at'], [(d['line'], d['msg'][:70]) for d in p_['diags']])
        return 1 if any(p_['diags'] != pr[0]['diags'] for p_ in pr) else 0
    if rp.get('kind') != 'determinism':
        print('re-run the check for this kind of violation')
        return 1
    c = dict(rp['case'], reps=400)
    vplib.write_jsonl(os.path.join(sd, 'cases.jsonl'), [c])
    vplib.run_harness(['det-run', os.path.join(sd, 'cases.jsonl'), os.path.join(sd, 'out.jsonl')], timeout=600)
    o = vplib.read_jsonl(os.path.join(sd, 'out.jsonl'))[0]
    print('%d runs, %d distinct outcomes' % (o['runs'], len(o['outcomes'])))
    for oc in o['outcomes']:
        print(oc['count'], [(d['line'], d['col'], d['msg'][:60]) for d in oc['diags']][:6], oc['fatal'][:100])
    return 1 if len(o['outcomes']) > 1 else 0
