"""EXT01 - value domains of the linter rules (extension; not one of the 20 listed properties).

Rules: events (webhook names / activity types / filters / workflows, workflow_dispatch inputs, workflow_call input
defaults), permissions, shell-name, runner-label, id, env-var, credentials, deprecated-commands, if-cond.

E: TLC checks RuleDomains.tla: for every vector of the bounded value universe (grown by Next) the operational
   transcription of the rule with no deviation enabled gives exactly the diagnostics the declarative layer
   (docs/checks.md) demands (Agree, IdPartnerExact, LabelPartnerSound); the code as read (all named deviations
   enabled) differs only where a single named deviation explains it (Confined); table sanity (TablesOK).
G: the complete state space is dumped; every vector is rendered into a workflow that is clean except for the value(s)
   under test, linted with the real Linter.Lint, and the diagnostics of the rule under test (class by anchor phrase,
   where = token at the reported position, multiplicity) must equal the prediction `exp` of the declarative layer.
   The universe is finite and enumerated completely (exhaustive: true); no trace specification is needed.

A disagreement between the real code and the documentation is reported with a precise site (`<rule>[:part]:Dev_...`
when the real output equals what the spec predicts for the code as read under a named deviation).  Since no listed
property covers these rules, entries of OBSERVATIONS turn such a site into a note (exit 0); the table is EMPTY unless
the project owner decides otherwise, i.e. every disagreement is a VIOLATION (exit 1).
"""
import collections
import json
import os

import vplib
from vplib import Inconclusive

LEVEL = 'model_checking'

# site -> free text.  A disagreement whose site is listed here is printed as a note instead of a violation.
OBSERVATIONS = {
    'credentials:Dev_CredTrailingBraces': 'a value like "${{ secrets.PW }}}}" (text after the closing }}) passes isExprAssigned: hard-coded '
                                          'trailing text is not reported; repair needs lexing in ast.go isExprAssigned, recorded as observation',
    'if-cond:Dev_IfTrailingBraces': '`if: "${{ true }}}}"` is not reported as always-true (same suffix test as above); observation',
}

CFG = {'quick': 'RuleDomains_quick.cfg', 'thorough': 'RuleDomains_thorough.cfg'}


def group_of(v):
    return v['rule'] + (':' + v['part'] if v.get('part') else '')


def bag(diags, counted):
    """multiset of (class, where): `counted` records carry their multiplicity in n (specification side)"""
    b = collections.Counter()
    for d in diags:
        b[(d['c'], d['w'])] += d.get('n', 1) if counted else 1
    return b


def partners(diags):
    return sorted((d['c'], d['w'], d.get('p', '')) for d in diags if d.get('p'))


def show_bag(b):
    return sorted('%s@%s%s' % (c, w, '' if n == 1 else ' x%d' % n) for (c, w), n in b.items())


def generate(ck, tier):
    r = vplib.run_tlc('RuleDomains', CFG[tier], dump='vectors', timeout=2400)
    ck.add_tlc('RuleDomains %s: Agree / IdPartnerExact / LabelPartnerSound / Confined / TablesOK on the complete value '
               'universe of 9 rules' % tier, r)
    if r.violated:
        raise Inconclusive('specification RuleDomains.tla violates its invariant %s (model level)' % r.violated)
    ts = vplib.read_dump_json(os.path.join(r.dir, 'vectors.dump'))
    if len(ts) != r.distinct:
        raise Inconclusive('dump has %d states, TLC reported %d' % (len(ts), r.distinct))
    header = [t for t in ts if t.get('rule') == 'header']
    if len(header) != 1:
        raise Inconclusive('no header state in the dump')
    vecs = [t for t in ts if 'v' in t]
    vecs.sort(key=lambda t: json.dumps(t['v'], sort_keys=True))
    return header[0], vecs


def run_vectors(sd, vecs, tag):
    fin, fout = os.path.join(sd, tag + '-in.jsonl'), os.path.join(sd, tag + '-out.jsonl')
    vplib.write_jsonl(fin, [{'id': i, 'v': t['v']} for i, t in enumerate(vecs)])
    vplib.run_harness(['rd-run', fin, fout], timeout=1800)
    outs = vplib.read_jsonl(fout)
    if len(outs) != len(vecs) or any(o['id'] != i for i, o in enumerate(outs)):
        raise Inconclusive('harness returned %d results for %d vectors' % (len(outs), len(vecs)))
    return outs


def mismatches(vecs, outs):
    bad = []
    for t, o in zip(vecs, outs):
        if o['other']:
            raise Inconclusive('vector %s: the observable cannot be read: %s\n%s'
                               % (json.dumps(t['v']), o['other'][:3], o.get('src', '')))
        if bag(t['exp'], True) != bag(o['diags'], False):
            bad.append((t, o))
    return bad


def site_of(t, o):
    """<rule>[:part]:Dev_x if the real output is what the spec predicts for the code as read under deviation x,
    else <rule>[:part]:missing=<classes>;extra=<classes>"""
    g = group_of(t['v'])
    obs = bag(o['diags'], False)
    if t['devs'] and obs == bag(t['asread'], True):
        return g + ':' + '+'.join(sorted(t['devs']))
    exp = bag(t['exp'], True)
    missing = sorted({c for (c, w), n in (exp - obs).items()})
    extra = sorted({c for (c, w), n in (obs - exp).items()})
    return '%s:missing=%s;extra=%s' % (g, ','.join(missing) or '-', ','.join(extra) or '-')


def describe(t, o):
    return ('%s\nvector %s\ndocumentation (declarative layer) demands %s, the real linter reports %s'
            % (o.get('src', ''), json.dumps(t['v']), show_bag(bag(t['exp'], True)) or 'nothing',
               show_bag(bag(o['diags'], False)) or 'nothing'))


def run(ck, tier):
    sd = vplib.subdir('ext01')
    header, vecs = generate(ck, tier)
    outs = run_vectors(sd, vecs, 'vec')
    bad = mismatches(vecs, outs)
    if bad:
        # re-execute the disagreeing vectors on the real code alone before they count
        again = run_vectors(sd, [t for t, _ in bad], 'again')
        still = mismatches([t for t, _ in bad], again)
        if len(still) != len(bad):
            raise Inconclusive('%d of %d disagreeing vectors did not reproduce on re-execution' % (len(bad) - len(still), len(bad)))

    groups = collections.OrderedDict()
    for t, o in bad:
        groups.setdefault(site_of(t, o), []).append((t, o))
    for site, items in groups.items():
        items.sort(key=lambda x: (len(json.dumps(x[0]['v'])), json.dumps(x[0]['v'], sort_keys=True)))   # minimal input first
        t, o = items[0]
        what = ('%d vector(s) of the value universe disagree with the documentation; first:\n%s' % (len(items), describe(t, o)))
        if site in OBSERVATIONS:
            ck.note('OBSERVATION %s (%d vectors): %s -- e.g. %s: documented %s, real %s'
                    % (site, len(items), OBSERVATIONS[site], json.dumps(t['v']),
                       show_bag(bag(t['exp'], True)) or 'nothing', show_bag(bag(o['diags'], False)) or 'nothing'))
            continue
        ck.violation(site, what, {'kind': 'vectors', 'rule': t['v']['rule'], 'part': t['v'].get('part', ''),
                                  'devs': sorted(t['devs']), 'count': len(items),
                                  'vectors': [{'v': a['v'], 'exp': a['exp']} for a, _ in items[:8]],
                                  'observed': [b['diags'] for _, b in items[:8]], 'src': o.get('src', '')})

    # ---- model drift: which partner a message names (first duplicate / a contradicting label) - never a violation
    drift = 0
    for t, o in zip(vecs, outs):
        want = partners(t['exp']) or partners(t['asread'])
        if want and bag(t['exp'], True) == bag(o['diags'], False) and want != partners(o['diags']):
            drift += 1
            if drift <= 3:
                ck.note('model drift: partner named by the message differs from the operational model for %s: model %s, real %s'
                        % (json.dumps(t['v']), want, partners(o['diags'])))
    if drift > 3:
        ck.note('model drift: %d vectors in total name another partner than the operational model' % drift)

    # ---- vacuity guard: every diagnostic class the specification can predict for a group was observed on the real code,
    #      and every group has vectors with and without diagnostics
    if not ck.violations:
        want = collections.defaultdict(set)
        seen = collections.defaultdict(set)
        verdicts = collections.defaultdict(set)
        for t, o in zip(vecs, outs):
            g = group_of(t['v'])
            want[g] |= {d['c'] for d in t['exp']}
            seen[g] |= {d['c'] for d in o['diags']}
            verdicts[g].add(bool(o['diags']))
        for g in want:
            if want[g] - seen[g]:
                raise Inconclusive('group %s: classes %s predicted but never observed' % (g, sorted(want[g] - seen[g])))
            if verdicts[g] != {True, False}:
                raise Inconclusive('group %s: only verdict %s observed' % (g, sorted(verdicts[g])))
        missing_rules = set(header['rules']) - {t['v']['rule'] for t in vecs}
        if missing_rules:
            raise Inconclusive('no vectors for rules %s' % sorted(missing_rules))

    if tier == 'thorough' and vecs:
        # binding self-test: a forged prediction must be rejected by the comparison
        i = next((k for k, t in enumerate(vecs) if t['exp']), 0)
        forged = dict(vecs[i], exp=[])
        rej = mismatches([forged], [outs[i]])
        ck.cov['binding_selftest'] = 'rejected' if len(rej) == 1 else 'NOT rejected'
        if ck.cov['binding_selftest'] != 'rejected':
            raise Inconclusive('binding self-test failed: a forged prediction was not rejected')

    per = collections.Counter(group_of(t['v']) for t in vecs)
    ck.cov['evaluations'] += len(vecs)
    ck.cov['traces_validated_against_impl'] += len(vecs)
    ck.cov['distinct_nontrivial'] += sum(1 for t in vecs if t['exp'])
    ck.cov['vectors_per_group'] = dict(sorted(per.items()))
    ck.cov['vectors_under_a_named_deviation'] = dict(collections.Counter(d for t in vecs for d in t['devs']))
    ck.cov['foreign_rule_kinds_seen'] = sorted({k for o in outs for k in o['foreign']})
    ck.cov['observations_table'] = sorted(OBSERVATIONS)
    ck.cov['rule'] = ('every state of RuleDomains.tla (value universes of events / permissions / shell-name / runner-label / id / '
                      'env-var / credentials / deprecated-commands / if-cond) rendered into an otherwise clean workflow and linted '
                      'with the real Linter.Lint; the multiset of (class, token) of the rule under test must equal the declarative '
                      'prediction; non-trivial = at least one diagnostic expected')
    ck.cov['exhaustive'] = True
    for g in ('events:webhook', 'runner-label', 'deprecated-commands', 'if-cond'):
        for t, o in zip(vecs, outs):
            if group_of(t['v']) == g and len(t['exp']) >= (2 if g in ('events:webhook', 'runner-label') else 1):
                ck.sample({'vector': t['v'], 'predicted': show_bag(bag(t['exp'], True)), 'real': show_bag(bag(o['diags'], False)),
                           'workflow': o.get('src', '')})
                break
    ck.assumptions += [
        'declarative layer = docs/checks.md (and GitHub syntax quoted there); tables without an offline independent copy '
        '(activity types per event = all_webhooks.go as designated by the documentation, runner image table, permission scopes) '
        'are transcribed from the pinned version: a later change of the code tables is reported',
        'boolean defaults: "true or false" is read as the YAML core-schema spellings (true/True/TRUE, false/False/FALSE); '
        'number defaults: decimal floating-point notation over the alphabet 1 . - e a',
        'shell and runner-label names ignore letter case, permission scopes and event names do not (documentation silent; '
        'the messages list the lower-case names)',
        'a workflow-level `defaults.run.shell` has no platform (it applies to jobs of any platform)',
        'which of several contradicted labels / earlier step IDs a message names is model drift, not part of the verdict',
        'deprecated-commands: a use is ::cmd name=<identifier>::<non-empty value> (::add-path::<value>), command names in lower '
        'case, fragments separated by blanks or line breaks',
        'values written with ${{ }} are not judged (the rules skip them); `on.schedule` (cron) and the glob filters are not part '
        'of this extension (C17 covers the glob syntax)',
    ]


def replay(path):
    rp = json.load(open(path))['replay']
    sd = vplib.subdir('ext01r')
    vecs = rp['vectors']
    outs = run_vectors(sd, vecs, 'replay')
    fails = 0
    for t, o in zip(vecs, outs):
        exp, obs = bag(t['exp'], True), bag(o['diags'], False)
        print(o.get('src', ''))
        print('%s: documented %s, real %s, other=%s' % (json.dumps(t['v']), show_bag(exp) or 'nothing', show_bag(obs) or 'nothing',
                                                         o['other']))
        if not o['other'] and exp != obs:
            fails += 1
    return 1 if fails else 0
