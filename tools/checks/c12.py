"""C12 - context and special-function availability follows GitHub's table exactly.

E: TLC checks Availability.tla: the table transcribed from the documentation page is a total function on
   its 34 keys, KeyOf (longest table key that is a prefix pattern of the YAML path) is defined and unique
   for every catalogued position, every key governs a position, the call-site keys read from
   rule_expression.go select the row the documentation demands, OpReported = ~Allowed.
G: the state space is dumped: every (position, name, embedding, base-workflow variant) with the predicted
   verdict `allowed`, every (key in / absent from the table, name) and every table row.  The harness
   renders a workflow that is clean except for the placeholder at that position, runs the real
   Linter.Lint and classifies "... is not allowed here" (plus `undefined variable "jobs"`, DESIGN 5.22);
   the API vectors go to WorkflowKeyAvailability and ExprSemanticsChecker directly.  The space is finite
   and enumerated completely, so no trace specification is needed (exhaustive: true).
   The transcription in the spec is compared with the documentation copy in the repository (guard against
   a stale spec, never a violation).
"""
import collections
import json
import os
import re

import vplib
from vplib import Inconclusive

LEVEL = 'model_checking'

OK_MD = 'scripts/generate-availability/testdata/ok.md'


def low(xs):
    return sorted(x.lower() for x in xs)


def doc_table():
    """Rows of the 'Context availability' table of the offline documentation page: key -> (contexts, functions)."""
    path = os.path.join(vplib.REPO, OK_MD)
    if not os.path.exists(path):
        path = os.path.join('/repo', OK_MD)
    if not os.path.exists(path):
        return None
    rows = {}
    on = False
    for line in open(path, encoding='utf-8'):
        if line.startswith('| Workflow key | Context | Special functions |'):
            on = True
            continue
        if not on:
            continue
        if not line.startswith('|'):
            if rows:
                break
            continue
        cells = [c.strip() for c in line.strip().strip('|').split('|')]
        if len(cells) != 3 or set(cells[0]) <= set('- '):
            continue
        key = cells[0].strip('`')
        ctx = [x.strip() for x in cells[1].strip('`').split(',') if x.strip()]
        fns = [] if cells[2] == 'None' else [x.strip() for x in cells[2].strip('`').split(',') if x.strip()]
        rows[key] = (ctx, fns)
    return rows


def generate(ck, tier):
    cfg = 'Availability_quick.cfg' if tier == 'quick' else 'Availability_thorough.cfg'
    r = vplib.run_tlc('Availability', cfg, dump='vectors', timeout=2400)
    ck.add_tlc('Availability %s: table/KeyOf/call-site invariants + complete (position, name, embedding, variant) and '
               '(key, name) enumeration' % tier, r)
    if r.violated:
        raise Inconclusive('specification Availability.tla violates its invariant %s (model level)' % r.violated)
    vs = vplib.read_dump_json(os.path.join(r.dir, 'vectors.dump'))
    if len(vs) != r.distinct:
        raise Inconclusive('dump has %d states, TLC reported %d' % (len(vs), r.distinct))
    by = collections.defaultdict(list)
    for v in vs:
        by[v['kind']].append(v)
    if len(by['header']) != 1:
        raise Inconclusive('no header state in the dump')
    order = lambda v: (v.get('pos', ''), v.get('key', ''), v.get('name', ''), v.get('emb', ''), v.get('variant', 0))
    return by['header'][0], sorted(by['vec'], key=order), sorted(by['row'], key=order), sorted(by['api'], key=order)


def reported(v, o):
    """The observable of the property: was the use of the name reported at the placeholder?"""
    return bool(o['reported'] or (v['name'] == 'jobs' and o['undefined']))


def run_lint(sd, vecs, tag):
    fin, fout = os.path.join(sd, tag + '-in.jsonl'), os.path.join(sd, tag + '-out.jsonl')
    vplib.write_jsonl(fin, [dict(v, id=i) for i, v in enumerate(vecs)])
    vplib.run_harness(['avail-run', fin, fout], timeout=1800, env={'AVAIL_SCRATCH': sd})
    outs = vplib.read_jsonl(fout)
    if len(outs) != len(vecs):
        raise Inconclusive('harness returned %d results for %d vectors' % (len(outs), len(vecs)))
    return outs


def run_api(sd, vecs, tag, frames=None):
    fin, fout = os.path.join(sd, tag + '-in.jsonl'), os.path.join(sd, tag + '-out.jsonl')
    vplib.write_jsonl(fin, [dict(v, id=i) for i, v in enumerate(vecs)])
    cmd = ['avail-api', fin, fout]
    if frames is not None:
        ff = os.path.join(sd, tag + '-frames.json')
        json.dump(frames, open(ff, 'w'))
        cmd.append(ff)
    vplib.run_harness(cmd, timeout=1200)
    outs = vplib.read_jsonl(fout)
    if len(outs) != len(vecs):
        raise Inconclusive('harness returned %d results for %d vectors' % (len(outs), len(vecs)))
    return outs


def lint_mismatches(vecs, outs):
    """-> list of (vector, output) whose real verdict differs from the prediction; raises on unreadable observables."""
    bad = []
    for v, o in zip(vecs, outs):
        if o['others']:
            raise Inconclusive('vector %s / %s / %s / variant %d: diagnostics other than the availability verdict, the '
                               'placeholder cannot be judged in isolation: %s\n%s'
                               % (v['pos'], v['name'], v['emb'], v['variant'], o['others'][:3], o.get('src', '')))
        if v.get('ambiguous'):
            continue        # the documentation can be read both ways for this name at this position (DESIGN 5.22)
        if reported(v, o) == v['allowed']:
            bad.append((v, o))
    return bad


def judge_positions(ck, vecs, outs, bad):
    """Turns mismatching vectors into violations, one per (position, name).  Positions without a governing table key:
    the property demands that everything is reported there; DESIGN 5.22 leaves positions unconstrained for which the
    code passes no key at all (then no context except the non-existent `jobs` is reported, all special functions are),
    and positions whose placeholder is not analysed at all belong to C03."""
    per_pos = collections.defaultdict(dict)
    for v, o in zip(vecs, outs):
        per_pos[v['pos']].setdefault(v['name'], []).append((v, o))
    groups = collections.OrderedDict()
    for v, o in bad:
        groups.setdefault((v['pos'], v['name']), []).append((v, o))
    unconstrained = collections.defaultdict(list)
    n = 0
    for (pos, name), items in groups.items():
        v, o = items[0]
        if not v['constrained']:
            obs = per_pos[pos]
            rep = {nm: {reported(a, b) for a, b in lst} for nm, lst in obs.items()}
            kinds = {nm: lst[0][0]['nkind'] for nm, lst in obs.items()}
            ctxs = [nm for nm in rep if kinds[nm] == 'ctx' and nm != 'jobs']
            fns = [nm for nm in rep if kinds[nm] == 'fn']
            nothing = all(rep[nm] == {False} for nm in rep)
            no_key = all(rep[nm] == {False} for nm in ctxs) and all(rep[nm] == {True} for nm in fns)
            if nothing or no_key:
                unconstrained[pos].append(name)
                continue
        embs = sorted({'%s/v%d' % (a['emb'], a['variant']) for a, _ in items})
        what = ('%s %r at %s (governing table key: %s): GitHub\'s table says %s, the real linter %s it [%s]\n%s'
                % ('context' if v['nkind'] == 'ctx' else 'special function', name, pos, v['key'],
                   'allowed' if v['allowed'] else 'not allowed',
                   'reports' if reported(v, o) else 'does not report', ', '.join(embs), o.get('src', '')))
        ck.violation(pos, what, {'kind': 'lint', 'position': pos, 'name': name, 'nkind': v['nkind'], 'key': v['key'],
                                 'allowed': v['allowed'], 'observed_reported': reported(v, o), 'embeddings': embs,
                                 'vectors': [a for a, _ in items][:8], 'expr': o.get('expr', ''), 'src': o.get('src', '')})
        n += 1
    for pos, names in unconstrained.items():
        ck.note('position %s has no governing table key and the real code leaves it unrestricted/unchecked (%d names not '
                'reported, e.g. %s): not constrained (DESIGN 5.22)' % (pos, len(names), names[0]))
    return n


def run(ck, tier):
    sd = vplib.subdir('c12')
    header, vecs, rows, apis = generate(ck, tier)

    # ---- guard: the spec's table is the documentation's table (stale or mistyped transcription -> inconclusive)
    doc = doc_table()
    if doc is None:
        ck.note('documentation copy %s not found; transcription of the table not cross-checked' % OK_MD)
    else:
        spec_rows = {r['key']: (low(r['ctx']), low(r['fns'])) for r in rows if r['intable']}
        doc_rows = {k: (low(c), low(f)) for k, (c, f) in doc.items()}
        if spec_rows != doc_rows:
            diff = sorted(set(spec_rows) ^ set(doc_rows)) or sorted(k for k in spec_rows if spec_rows[k] != doc_rows[k])
            raise Inconclusive('the table in Availability.tla is not the table of %s (differing keys: %s); the '
                               'specification must be re-transcribed' % (OK_MD, diff[:5]))
        ck.cov['table_rows_equal_to_documentation_copy'] = len(doc_rows)

    # ---- G, Linter.Lint level: the complete cross product
    outs = run_lint(sd, vecs, 'lint')
    bad = lint_mismatches(vecs, outs)
    if bad:
        # re-execute the disagreeing vectors once more on the real code alone before they count
        again = run_lint(sd, [v for v, _ in bad], 'again')
        still = lint_mismatches([v for v, _ in bad], again)
        if len(still) != len(bad):
            raise Inconclusive('%d of %d disagreeing vectors did not reproduce on re-execution' % (len(bad) - len(still), len(bad)))
    judge_positions(ck, vecs, outs, bad)

    # ---- G, API level: availability.go against the transcription; checker against the table
    api_in = rows + apis
    frames = sorted(header['frames'])
    api_out = run_api(sd, api_in, 'api', frames)
    checker = collections.OrderedDict()
    tree = collections.OrderedDict()
    for v, o in zip(api_in, api_out):
        if o['others']:
            raise Inconclusive('API vector %s / %s: observable not understood: %s' % (v['key'], v.get('name'), o['others'][:3]))
        if v['kind'] == 'row':
            exp = (low(v['ctx']), low(v['fns']))
            got = (sorted(o.get('ctx') or []), sorted(o.get('fns') or []))
            if exp != got:
                ck.violation('api:row:' + (v['key'] or '(empty)'),
                             'WorkflowKeyAvailability(%r) returns contexts %s, special functions %s; GitHub\'s table %s: %s, %s'
                             % (v['key'], got[0], got[1], 'lists' if v['intable'] else 'has no such key, expected', exp[0], exp[1]),
                             {'kind': 'row', 'key': v['key'], 'intable': v['intable'], 'ctx': v['ctx'], 'fns': v['fns'],
                              'observed_ctx': got[0], 'observed_fns': got[1]})
        else:
            for spelling, rep in (('documented', o['reported']), ('UPPER', o['reported_upper'])):
                if rep == v['allowed']:
                    checker.setdefault((v['name'], v['nkind'], spelling, v['allowed']), []).append(v['key'])
            # the occurrence at every place of the expression tree (Availability.tla, FrameSeqs): same verdict
            for occ, bits in (('W(NAME)', o.get('tree', '')), ('NAME', o.get('tree_raw', ''))):
                if len(bits) != len(frames):
                    raise Inconclusive('API vector %s / %s: %d tree verdicts for %d frame sequences'
                                       % (v['key'], v['name'], len(bits), len(frames)))
                want_bad = '1' if v['allowed'] else '0'
                for i, b in enumerate(bits):
                    if b == want_bad:
                        tree.setdefault((v['name'], v['nkind'], v['allowed']), []).append(
                            {'key': v['key'], 'frames': frames[i], 'occurrence': occ})
                ck.cov['tree_evaluations'] = ck.cov.get('tree_evaluations', 0) + sum(1 for b in bits if b != '-')
    for (name, nkind, spelling, allowed), keys in checker.items():
        ck.violation('api:checker:' + name,
                     'ExprSemanticsChecker configured with WorkflowKeyAvailability(key) %s %s %r (%s spelling) although GitHub\'s '
                     'table %s it, for %d keys: %s' % ('reports' if allowed else 'does not report', nkind, name, spelling,
                                                       'allows' if allowed else 'does not allow', len(keys), keys[:6]),
                     {'kind': 'api', 'name': name, 'nkind': nkind, 'spelling': spelling, 'allowed': allowed, 'keys': keys[:8],
                      'observed_reported': allowed})
    for (name, nkind, allowed), cases in tree.items():
        shapes = sorted({'.'.join(c['frames']) for c in cases})
        ck.violation('api:tree:' + name,
                     'the verdict depends on where in the expression tree the name occurs: %s %r is %s by ExprSemanticsChecker '
                     'although GitHub\'s table %s it, in %d (key, place) cases; places (frames, innermost first): %s; e.g. key %r'
                     % (nkind, name, 'reported' if allowed else 'not reported', 'allows' if allowed else 'does not allow',
                        len(cases), shapes[:8], cases[0]['key']),
                     {'kind': 'tree', 'name': name, 'nkind': nkind, 'allowed': allowed, 'cases': cases[:8], 'places': shapes[:40]})
    ck.cov['api_vectors'] = len(api_in)
    ck.cov['expression_tree_places'] = len(frames)

    # ---- vacuity guard: at every governed position both verdicts must have been observed on the real code
    if not bad:
        seen = collections.defaultdict(set)
        for v, o in zip(vecs, outs):
            seen[v['pos']].add(reported(v, o))
        for p in header['positions']:
            want = {True, False} if p['key'] != 'none' else {True}
            if seen[p['pos']] != want:
                raise Inconclusive('position %s: verdicts observed %s, expected %s' % (p['pos'], sorted(seen[p['pos']]), sorted(want)))

    if tier == 'thorough':
        # binding self-test: a flipped prediction must be rejected by the comparison
        i = len(vecs) // 2
        forged = [dict(vecs[i], allowed=not vecs[i]['allowed'])]
        rej = lint_mismatches(forged, [outs[i]])
        agrees = reported(vecs[i], outs[i]) != vecs[i]['allowed']
        ck.cov['binding_selftest'] = 'rejected' if len(rej) == (1 if agrees else 0) else 'NOT rejected'
        if ck.cov['binding_selftest'] != 'rejected':
            raise Inconclusive('binding self-test failed: a flipped prediction was not rejected')

    npos = len(header['positions'])
    ck.cov['evaluations'] += len(vecs) + len(api_in) + ck.cov.get('tree_evaluations', 0)
    ck.cov['traces_validated_against_impl'] += len(vecs) + len(api_in)
    ck.cov['distinct_nontrivial'] += sum(1 for v in vecs if not v['allowed']) + sum(1 for v in apis if not v['allowed'])
    ck.cov['positions'] = npos
    ck.cov['positions_without_table_key'] = sum(1 for p in header['positions'] if p['key'] == 'none')
    ck.cov['table_keys'] = len(header['keys'])
    ck.cov['absent_keys_tried'] = len(header['absent'])
    ck.cov['names'] = len(header['contexts']) + len(header['fns'])
    ck.cov['embeddings'] = sorted({v['emb'] for v in vecs})
    ck.cov['base_workflow_variants'] = sorted({v['variant'] for v in vecs})
    ck.cov['lint_vectors'] = len(vecs)
    ck.cov['rule'] = ('every state of Availability.tla: %d positions x 17 names x embeddings x base-workflow variants linted '
                      'with the real Linter.Lint (placeholder well-typed as fromJSON(toJSON(..)), base workflow verified clean), '
                      'plus every (table key or absent key, name) through WorkflowKeyAvailability + ExprSemanticsChecker; '
                      'non-trivial = the table does not allow the name, a report is expected' % npos)
    ck.cov['exhaustive'] = True
    for want in (True, False):
        for v, o in zip(vecs, outs):
            if v['allowed'] == want and v['emb'] == 'index' and v['pos'].endswith('with.args'):
                ck.sample({'position': v['pos'], 'key': v['key'], 'name': v['name'], 'expr': o.get('expr'),
                           'predicted_allowed': v['allowed'], 'real_reported': reported(v, o)})
                break
    ck.assumptions += [
        'the governing key of a position is the longest table key that is a prefix pattern of its YAML path (DESIGN 3.1); '
        'where the code passes a shorter/longer key with the same row (container.image) the verdicts coincide',
        'names are embedded as fromJSON(toJSON(NAME)) (type any) so that no type diagnostic interferes (DESIGN 5.22)',
        '`jobs` exists only for on.workflow_call.outputs.<id>.value: elsewhere `undefined variable "jobs"` counts as reported',
        'container/services `env: ${{ }}` (one expression for the whole mapping): the documentation does not say whether the row '
        'of `...container` or of `...env.<env_id>` applies; only names on which both rows agree are judged there',
        'positions without a table key where other rules report on a placeholder (event types, filters, cron, needs, uses, '
        'step id, permissions) are not catalogued; at the catalogued ones the property reading "nothing is allowed" is checked, '
        'but a position the code leaves entirely unrestricted is only noted (DESIGN 5.22)',
    ]


def replay(path):
    rp = json.load(open(path))['replay']
    sd = vplib.subdir('c12r')
    if rp['kind'] == 'lint':
        vecs = rp['vectors']
        outs = run_lint(sd, vecs, 'replay')
        fails = 0
        for v, o in zip(vecs, outs):
            print(o.get('src', ''))
            print('%s %s [%s/v%d]: table allows=%s, real linter reported=%s others=%s'
                  % (v['pos'], v['name'], v['emb'], v['variant'], v['allowed'], reported(v, o), o['others']))
            if not o['others'] and reported(v, o) == v['allowed']:
                fails += 1
        return 1 if fails else 0
    if rp['kind'] == 'row':
        v = {'kind': 'row', 'key': rp['key']}
        o = run_api(sd, [v], 'replay')[0]
        got = (sorted(o.get('ctx') or []), sorted(o.get('fns') or []))
        exp = (low(rp['ctx']), low(rp['fns']))
        print('WorkflowKeyAvailability(%r) = %s, table: %s' % (rp['key'], got, exp))
        return 0 if got == exp else 1
    if rp['kind'] == 'tree':
        fails = 0
        for c in rp['cases']:
            v = {'kind': 'api', 'key': c['key'], 'name': rp['name'], 'nkind': rp['nkind']}
            o = run_api(sd, [v], 'replay', [c['frames']])[0]
            bit = (o['tree'] if c['occurrence'] == 'W(NAME)' else o['tree_raw'])[0]
            print('key %r, %s %r as %s under %s: table allows=%s, checker reported=%s others=%s'
                  % (c['key'], rp['nkind'], rp['name'], c['occurrence'], c['frames'], rp['allowed'], bit == '1', o['others']))
            if not o['others'] and (bit == '1') == rp['allowed']:
                fails += 1
        return 1 if fails else 0
    vecs = [{'kind': 'api', 'key': k, 'name': rp['name'], 'nkind': rp['nkind']} for k in rp['keys']]
    fails = 0
    for v, o in zip(vecs, run_api(sd, vecs, 'replay')):
        rep = o['reported_upper'] if rp['spelling'] == 'UPPER' else o['reported']
        print('key %r, %s %r (%s spelling): table allows=%s, checker reported=%s others=%s'
              % (v['key'], rp['nkind'], rp['name'], rp['spelling'], rp['allowed'], rep, o['others']))
        if not o['others'] and rep == rp['allowed']:
            fails += 1
    return 1 if fails else 0
