"""C03 - every ${{ }} placeholder in a workflow is checked.

E: TLC checks Schema.tla: the workflow syntax as data is well formed, every base workflow is typed by it and every
   schema position (114 scalar positions + raw matrix values, 46 mappings, 23 sequences) occurs in a base.
G: TLC enumerates DocMutation (Props = {"C03"}): every scalar value of every base x malformed placeholder variant
   ("${{ a.. }}", "${{ }}", "${{ 'x }}", "x ${{ ! }} y", "${{ 1 +"; only the whole-scalar ones at bool/int/float/
   single-expression positions) x quoting style x sibling configuration (max: all siblings present; min: every
   optional sibling on the path removed; rev: nearest enclosing mapping reversed; thorough also revall: every mapping on
   the path reversed, and the quoting styles single/double), each with the prediction
   "at least one diagnostic located on that scalar; an expression syntax error unless the domain is event name /
   input type / permission / secrets: inherit".  The harness edits the base, renders it with known positions
   (validated against yaml.v3), runs the real Linter.Lint and maps every diagnostic back to node identities.
   The reference document (same configuration, no placeholder) must lint clean, otherwise the vector is not
   applicable (counted); the unmodified bases must lint clean or the check is inconclusive.
Guards (exit 2, never 1): Go-reflection guard on the AST fields, renderer self-test, coverage of every scalar
   schema position by at least one evaluated vector.
"""
import json
import os

import vplib
from vplib import Inconclusive
from checks import doclib

LEVEL = 'model_checking'


def judge(v, out, ident):
    """-> (ok, why) for one mutated run against the TLC prediction"""
    located = [d for d in out['diags'] if doclib.at_node(d, ident, 'val')]
    if not located:
        return False, 'no diagnostic is located at the scalar'
    if v['exp']['cls'] == 'expr-syntax' and not any(d['cls'] == 'expr-syntax' for d in located):
        return False, 'no expression syntax error at the scalar (only: %s)' % '; '.join(doclib.show(d) for d in located[:3])
    return True, ''


def run(ck, tier):
    sd = vplib.subdir('c03')
    schema_path, exp, selftest = doclib.prepare(ck, sd)
    dirty = [x for x in selftest if x['diags']]
    if dirty:
        raise Inconclusive('base workflow %s does not lint clean on the real code (layout %s): %s'
                           % (dirty[0]['base'], dirty[0]['layout'], doclib.show(dirty[0]['diags'][0])))
    cfg = 'DocMutation_c03_quick.cfg' if tier == 'quick' else 'DocMutation_c03.cfg'
    vecs = doclib.generate(ck, cfg, 'DocMutation C03: every scalar of every base x placeholder variant x style x '
                           'sibling configuration (%s)' % tier)
    vecs.sort(key=lambda v: json.dumps([v['b'], v['path'], v['variant'], v['st'], v['cfg']]))
    nl = len(doclib.LAYOUTS)
    runs = doclib.Runs()
    plan = []
    for n, v in enumerate(vecs):
        ident = doclib.pid(v['path'])
        lays = range(nl) if tier == 'thorough' else [(n + vplib.seed()) % nl]
        for li in lays:
            opts = doclib.LAYOUTS[li]
            plan.append((v, ident, li, runs.add(v['b'], v['ops'], opts, [ident]), runs.add(v['b'], v['refops'], opts)))
    runs.execute(sd, schema_path)
    fails = {}          # site -> list of (vector, layout, why, out)
    evaluated = set()
    skipped = {}
    drift = {}
    nvec = 0
    for v, ident, li, mi, ri in plan:
        mo, ro = runs[mi], runs[ri]
        site = doclib.site_str(v['site'])
        if ro['err'] or mo['err']:
            raise Inconclusive('vector could not be materialised (%s): %s\n%s' % (site, ro['err'] or mo['err'], mo['src'] or ro['src']))
        if ro['diags']:
            if v['cfg'] == 'max':
                raise Inconclusive('reference of the unmodified base %d is not clean: %s' % (v['b'], doclib.show(ro['diags'][0])))
            skipped.setdefault((site, v['cfg']), doclib.show(ro['diags'][0]))
            continue
        if any(d['cls'] == 'yaml-error' for d in mo['diags']):
            raise Inconclusive('mutated document is not YAML (%s):\n%s' % (site, mo['src']))
        nvec += 1
        evaluated.add(site)
        ok, why = judge(v, mo, ident)
        if not ok:
            fails.setdefault(site, []).append((v, li, why, mo))
        # routing (Store half of DESIGN 3.2 Routing): which AST field keeps the scalar - informational only
        st = mo['store'].get(ident) or []
        if v['slots'] and st and not set(st) & set(v['slots']):
            drift.setdefault(site, (v['slots'], sorted(set(st))))
    scalar_sites = {doclib.site_str(p['p']) for p in exp['positions'] if p['k'] == 'scalar'}
    raw_sites = {doclib.site_str(p['p']) for p in exp['positions'] if p['k'] == 'raw'}
    missing = sorted(s for s in scalar_sites if s not in evaluated)
    missing += sorted(s for s in raw_sites if not any(e == s or e.startswith(s) for e in evaluated))
    if missing:
        raise Inconclusive('scalar schema positions without any evaluated vector: %s' % ', '.join(missing))
    for site, lst in sorted(fails.items()):
        v, li, why, mo = lst[0]
        combos = sorted({'%s/%s/%s' % (x[0]['text'], x[0]['cfg'], x[0]['st'] or 'plain') for x in lst})
        ck.violation(site,
                     'scalar position %s (domain %s): %s for %d of the generated vectors, e.g. placeholder %r, configuration %s:\n%s'
                     % (site, v['dom'], why, len(lst), v['text'], v['cfg'], mo['src']),
                     {'kind': 'c03', 'position': site, 'dom': v['dom'], 'b': v['b'], 'ops': v['ops'], 'refops': v['refops'],
                      'opts': doclib.LAYOUTS[li], 'path': v['path'], 'exp': v['exp'], 'text': v['text'], 'cfg': v['cfg'],
                      'failing': combos[:40], 'why': why, 'src': mo['src'], 'observed': mo['diags']})
    for site, (want, got) in sorted(drift.items()):
        ck.note('routing: the scalar at %s is kept in AST field %s, the schema names %s' % (site, '/'.join(got), '/'.join(want)))
    if skipped:
        ck.note('%d (position, configuration) pairs not applicable because the reduced/reordered reference document does '
                'not lint clean (every position is still evaluated in another configuration), e.g. %s'
                % (len(skipped), '; '.join('%s/%s: %s' % (k[0], k[1], w) for k, w in sorted(skipped.items())[:3])))
    if tier == 'thorough':
        # binding self-test: a WELL-FORMED placeholder at a template position must be judged "not reported"
        v0 = next(v for v in vecs if v['class'] == 'template' and v['cfg'] == 'max' and v['dom'] == 'template')
        ops = [dict(o, v='${{ github.sha }}') if o['op'] == 'set' else o for o in v0['ops']]
        o = doclib.run(sd, schema_path, [{'b': v0['b'], 'ops': ops, 'opts': {}, 'want': [doclib.pid(v0['path'])]}], 'selftest')[0]
        ok, _ = judge(v0, o, doclib.pid(v0['path']))
        ck.cov['binding_selftest'] = 'rejected' if not ok else 'NOT rejected'
        if ok:
            raise Inconclusive('binding self-test failed: a well-formed placeholder was judged as reported')
    ck.cov['evaluations'] += len(runs.items)
    ck.cov['traces_validated_against_impl'] += nvec
    ck.cov['distinct_nontrivial'] += nvec
    ck.cov['vectors'] = len(vecs)
    ck.cov['scalar_positions_evaluated'] = len(evaluated)
    ck.cov['config_pairs_not_applicable'] = len(skipped)
    ck.cov['rule'] = ('every scalar value of the 7 base workflows (all %d scalar schema positions) x applicable malformed '
                      'placeholder variants x styles x sibling configurations, enumerated by TLC with the predicted '
                      'observable; each linted by the real Linter.Lint (%s); non-trivial = mutated documents judged'
                      % (len(scalar_sites) + len(raw_sites), 'all 6 layouts' if tier == 'thorough' else 'one layout per vector'))
    ck.cov['exhaustive'] = True
    good = next((p for p in plan if not runs[p[4]]['diags'] and runs[p[3]]['diags']), None)
    if good:
        ck.sample({'site': doclib.site_str(good[0]['site']), 'placeholder': good[0]['text'],
                   'observed': [doclib.show(d) for d in runs[good[3]]['diags'][:3]]})
    ck.assumptions += ['the workflow syntax is the one written down in spec/Schema.tla (cross-checked against parse.go, the AST '
                       'types by reflection, and by the bases linting clean)',
                       'one representative value per scalar position and alternative form (7 base workflows); keys are not '
                       'scalar values in the sense of the property',
                       'multi-line (block) scalars are outside the universe: positions inside them are a C07 matter']


def replay(path):
    rp = json.load(open(path))['replay']
    sd = vplib.subdir('c03r')
    ck = vplib.Check('C03', LEVEL, 'replay')
    schema_path, _, _ = doclib.prepare(ck, sd)
    ident = doclib.pid(rp['path'])
    outs = doclib.run(sd, schema_path, [{'b': rp['b'], 'ops': rp['ops'], 'opts': rp['opts'], 'want': [ident]},
                                        {'b': rp['b'], 'ops': rp['refops'], 'opts': rp['opts'], 'want': []}])
    print(outs[0]['src'])
    for d in outs[0]['diags']:
        print('  ' + doclib.show(d), d['at'])
    if outs[0]['err'] or outs[1]['err'] or outs[1]['diags']:
        print('replay not applicable:', outs[0]['err'] or outs[1]['err'] or outs[1]['diags'][0])
        return 2
    ok, why = judge({'exp': rp['exp']}, outs[0], ident)
    print('position', rp['position'], '->', 'property holds' if ok else 'VIOLATED: ' + why)
    return 0 if ok else 1
