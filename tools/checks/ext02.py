"""EXT02 - local action metadata validation, the `uses:` format check and the configuration file
(extension; not one of the 20 listed properties).

(a) rule_action.go / action_metadata.go: the `runs:` section of a local action per kind of action (runner name, required /
    not allowed keys, referenced files, Dockerfile rule, pre-if / post-if), name / description / branding tables, node
    kinds of the metadata file, "reported once at the first use", the three formats of `uses:`, outdated popular actions.
(b) config.go / linter.go / project.go: shape and meaning of .github/actionlint.yaml (.yml) and -config-file, which file is
    used, -init-config writes a file that parses back.

E: TLC checks ActionMeta.tla: for every vector of the bounded universe (grown by Next) the operational transcription of
   the code with no deviation enabled gives exactly what the declarative layer (docs/checks.md, docs/config.md) demands
   (Agree); the code as read (all named deviations enabled) differs only where a single named deviation explains it
   (Confined); table sanity (TablesOK).
G: the complete state space is dumped.  Lint parts: every vector becomes a temporary repository (action directories with
   the metadata file and the files it names) and a workflow using the action(s); the real Linter.Lint runs on it; the
   set of (class, step) of the "action" rule must equal the prediction `exp` of the declarative layer.  Configuration
   parts: every vector becomes a directory layout with the configuration file(s) and a probe workflow; the BUILT BINARY
   runs in it; (exit status, diagnostic classes on stdout, stderr class) must equal the prediction.
   The universe is finite and enumerated completely (exhaustive: true).

A disagreement between the real code and the documentation is reported with a precise site (`<part>:Dev_...` when the
real output equals what the spec predicts for the code as read under a named deviation).  Since no listed property covers
this area, entries of OBSERVATIONS turn such a site into a note (exit 0); the table is EMPTY unless the project owner
decides otherwise, i.e. every disagreement is a VIOLATION (exit 1).
"""
import collections
import json
import os
import re
import time

import vplib
from vplib import Inconclusive

LEVEL = 'model_checking'

# site -> free text.  A disagreement whose site is listed here is printed as a note instead of a violation.
OBSERVATIONS = {
    'choice:Dev_RepoConfigAlwaysParsed': 'with -config-file the repository configuration is documented as not used, but a broken '
                                         '.github/actionlint.yaml is still parsed and ends the run with exit 3; the repair threads a flag '
                                         'through Projects/findProject (API-visible), recorded as observation',
}

CFG = {'quick': 'ActionMeta_quick.cfg', 'thorough': 'ActionMeta_thorough.cfg'}
LINT_PARTS = ('runs', 'top', 'shape', 'reuse', 'uses', 'popular', 'file')
PROC_PARTS = ('config', 'choice', 'init')
MAX_REPLAY = 8

# ------------------------------------------------------------------------------------------------- configuration parts

PROBE = '''on: push
jobs:
  test:
    runs-on: mylabel
    steps:
      - run: echo ${{ vars.V }}
      - run: echo ${{ vars.W }}
      - run: echo
        shell: fish9
'''
# diagnostic class <- beginning of the message (stdout of -oneline: file:line:col: message [kind])
PROBE_CLASSES = [(r'label "mylabel" is unknown', 'label'), (r'undefined configuration variable "v"', 'varV'),
                 (r'undefined configuration variable "w"', 'varW'), (r'shell name "fish9" is invalid', 'shell'),
                 (r'no configuration variable is allowed since the variables list is empty .* the variable "v" to the list', 'varV'),
                 (r'no configuration variable is allowed since the variables list is empty .* the variable "w" to the list', 'varW')]
STDERR_CLASSES = [('could not parse config file', 'config-parse'), ('could not read config file', 'config-read'),
                  ('config file already exists', 'init-exists'),
                  ('project is not found', 'init-no-project'), ('no project was found', 'no-project')]
ARGV = ['-no-color', '-oneline', '-shellcheck=', '-pyflakes=']
CHOICE_TEXT = {'A': 'self-hosted-runner:\n  labels: [mylabel]\n', 'B': 'config-variables: [V]\n', 'broken': 'paths: [\n'}

DOC_FORMS = {'empty': '', 'null': '~\n', 'seq': '- a\n', 'str': 'foo\n',
             'dupkey': 'config-variables: null\nconfig-variables: null\n', 'unknownkey': 'foo: bar\n', 'syntax': 'paths: [\n'}
SHR_FORMS = {'null': 'self-hosted-runner:\n', 'emptymap': 'self-hosted-runner: {}\n', 'str': 'self-hosted-runner: x\n',
             'seq': 'self-hosted-runner: [mylabel]\n', 'labels-null': 'self-hosted-runner:\n  labels:\n',
             'labels-empty': 'self-hosted-runner:\n  labels: []\n', 'labels-mine': 'self-hosted-runner:\n  labels:\n    - mylabel\n',
             'labels-other': 'self-hosted-runner:\n  labels:\n    - otherlabel\n', 'labels-str': 'self-hosted-runner:\n  labels: mylabel\n',
             'labels-map': 'self-hosted-runner:\n  labels:\n    mylabel: x\n', 'labels-nested': 'self-hosted-runner:\n  labels:\n    - [mylabel]\n',
             'unknownkey': 'self-hosted-runner:\n  lables:\n    - mylabel\n'}
CV_FORMS = {'null': 'config-variables: null\n', 'empty': 'config-variables: []\n', 'listV': 'config-variables:\n  - V\n',
            'listW': 'config-variables: [W]\n', 'str': 'config-variables: V\n', 'map': 'config-variables:\n  V: 1\n',
            'nested': 'config-variables:\n  - [V]\n'}
IGN = "'shell name'"
PATHS_FORMS = {'null': 'paths:\n', 'emptymap': 'paths: {}\n', 'seq': 'paths: [a]\n', 'str': 'paths: x\n',
               'glob-null': 'paths:\n  "**/*.yml":\n', 'glob-emptymap': 'paths:\n  "**/*.yml": {}\n',
               'ignore-null': 'paths:\n  "**/*.yml":\n    ignore:\n', 'ignore-empty': 'paths:\n  "**/*.yml":\n    ignore: []\n',
               'ignore-shell': 'paths:\n  "**/*.yml":\n    ignore:\n      - %s\n' % IGN,
               'ignore-str': 'paths:\n  "**/*.yml":\n    ignore: %s\n' % IGN,
               'ignore-nested': 'paths:\n  "**/*.yml":\n    ignore:\n      - [%s]\n' % IGN,
               'ignore-badregex': 'paths:\n  "**/*.yml":\n    ignore:\n      - \'(\'\n',
               'badglob': 'paths:\n  "[":\n    ignore: []\n',
               'dupglob': 'paths:\n  "**/*.yml":\n    ignore: []\n  "**/*.yml":\n    ignore: []\n',
               'other-glob': 'paths:\n  "nomatch/*.yml":\n    ignore:\n      - %s\n' % IGN,
               'unknownkey': 'paths:\n  "**/*.yml":\n    ignor:\n      - %s\n' % IGN}
SLOT_FORMS = {'doc': DOC_FORMS, 'shr': SHR_FORMS, 'cv': CV_FORMS, 'paths': PATHS_FORMS}


def config_text(slots):
    out = ''
    for slot, form in slots:
        try:
            out += SLOT_FORMS[slot][form]
        except KeyError:
            raise Inconclusive('configuration form %s/%s has no rendering' % (slot, form))
    return out


def repo_files():
    return {'repo/.github/workflows/probe.yml': PROBE}


def scenario_of(v):
    """-> scenario for the px-run harness command"""
    files = repo_files()
    dirs = ['repo/.git']
    runs = []
    if v['part'] == 'config':
        text = config_text(v['slots'])
        argv = list(ARGV)
        if v['src'] == 'flag':
            files['cfg/c.yaml'] = text
            argv += ['-config-file', '@ROOT@/cfg/c.yaml']
        else:
            files['repo/.github/actionlint.' + v['src']] = text
        runs.append({'cwd': 'repo', 'argv': argv, 'stdin': ''})
    elif v['part'] == 'choice':
        argv = list(ARGV)
        for name in ('yaml', 'yml'):
            if v[name] != 'none':
                files['repo/.github/actionlint.' + name] = CHOICE_TEXT[v[name]]
        if v['flag'] != 'none':
            if v['flag'] != 'missing':
                files['cfg/c.yaml'] = CHOICE_TEXT[v['flag']]
            argv += ['-config-file', '@ROOT@/cfg/c.yaml']
        runs.append({'cwd': 'repo', 'argv': argv, 'stdin': ''})
    elif v['part'] == 'init':
        if not v['proj']:
            files = {'repo/probe.yml': PROBE}
            dirs = ['repo']
        if v['pre'] != 'none':
            files['repo/.github/actionlint.' + v['pre']] = CHOICE_TEXT['A']
        runs.append({'cwd': 'repo', 'argv': ['-init-config'], 'stdin': ''})
        runs.append({'cwd': 'repo', 'argv': list(ARGV), 'stdin': ''})
    else:
        raise Inconclusive('no scenario for part %r' % v['part'])
    return {'dirs': dirs, 'files': files, 'exec': [], 'runs': runs,
            'readback': ['repo/.github/actionlint.yaml', 'repo/.github/actionlint.yml']}


def observe(run):
    """(exit, diagnostic classes, stderr class) of one real run; unreadable output -> Inconclusive"""
    if run.get('timeout') or run['rc'] < 0:
        raise Inconclusive('actionlint did not finish: %r' % run)
    diags = set()
    for ln in run['stdout'].splitlines():
        if ln.startswith('Config file was generated at '):
            diags.add('generated')
            continue
        parts = ln.split(': ', 1)
        cls = None
        if len(parts) == 2:
            for frag, c in PROBE_CLASSES:
                if re.match(frag, parts[1]):
                    cls = c
        if cls is None:
            raise Inconclusive('stdout line not understood: %r' % ln)
        diags.add(cls)
    err = 'none'
    if run['stderr'].strip():
        err = None
        for frag, c in STDERR_CLASSES:
            if frag in run['stderr']:
                err = c
                break
        if err is None:
            raise Inconclusive('stderr not understood: %r' % run['stderr'][:300])
    return {'exit': run['rc'], 'diags': sorted(diags), 'err': err}


def norm_obs(o):
    return {'exit': o['exit'], 'diags': sorted(o['diags']), 'err': o['err']}


def proc_expected(t, field='exp'):
    e = t[field]
    if t['v']['part'] == 'init':
        return [norm_obs(e['first']), norm_obs(e['second'])]
    return [norm_obs(e)]


def run_proc(sd, vecs, tag):
    """runs the scenarios of the configuration vectors with the built binary -> list of observation lists"""
    if not vecs:
        return []
    binary = vplib.build_actionlint()
    fin, fout = os.path.join(sd, tag + '-in.jsonl'), os.path.join(sd, tag + '-out.jsonl')
    scs = []
    for i, t in enumerate(vecs):
        sc = scenario_of(t['v'])
        sc['id'] = i
        scs.append(sc)
    vplib.write_jsonl(fin, scs)
    vplib.run_harness(['px-run', binary, os.path.join(sd, tag + '-layouts'), fin, fout], timeout=1800)
    outs = vplib.read_jsonl(fout)
    if len(outs) != len(vecs) or any(o['id'] != i for i, o in enumerate(outs)):
        raise Inconclusive('px-run returned %d results for %d scenarios' % (len(outs), len(vecs)))
    res = []
    for t, o in zip(vecs, outs):
        if o.get('err'):
            raise Inconclusive('px-run: %s' % o['err'])
        res.append({'obs': [observe(r) for r in o['runs']], 'raw': o, 'scenario': scs[o['id']]})
    return res


# ------------------------------------------------------------------------------------------------------- lint parts

def bag(diags):
    return collections.Counter((d['c'], d['w']) for d in diags)


def show_bag(b):
    return sorted('%s@%s%s' % (c, w, '' if n == 1 else ' x%d' % n) for (c, w), n in b.items())


def run_lint(sd, vecs, tag):
    if not vecs:
        return []
    fin, fout = os.path.join(sd, tag + '-in.jsonl'), os.path.join(sd, tag + '-out.jsonl')
    vplib.write_jsonl(fin, [{'id': i, 'v': t['v']} for i, t in enumerate(vecs)])
    vplib.run_harness(['am-run', os.path.join(sd, tag + '-repos'), fin, fout], timeout=1800)
    outs = vplib.read_jsonl(fout)
    if len(outs) != len(vecs) or any(o['id'] != i for i, o in enumerate(outs)):
        raise Inconclusive('am-run returned %d results for %d vectors' % (len(outs), len(vecs)))
    for t, o in zip(vecs, outs):
        if o['other']:
            raise Inconclusive('vector %s: the observable cannot be read: %s\n%s' % (json.dumps(t['v']), o['other'][:3], o.get('src', '')))
    return outs


# ------------------------------------------------------------------------------------------------------- common

def is_proc(t):
    return t['v']['part'] in PROC_PARTS


def agrees(t, o, field='exp'):
    if is_proc(t):
        return proc_expected(t, field) == o['obs']
    return bag(t[field]) == bag(o['diags'])


def show_exp(t, field='exp'):
    if is_proc(t):
        return json.dumps(proc_expected(t, field))
    return str(show_bag(bag(t[field])) or 'nothing')


def show_real(t, o):
    if is_proc(t):
        return json.dumps(o['obs'])
    return str(show_bag(bag(o['diags'])) or 'nothing')


def size_of(t):
    """smaller = fewer things written: value classes "absent" do not count"""
    v = t['v']
    if isinstance(v.get('keys'), dict):
        v = dict(v, keys={k: c for k, c in v['keys'].items() if c != 'absent'})
    return (len(json.dumps(v)), json.dumps(v, sort_keys=True))


def site_of(t, o):
    """<part>:Dev_x if the real output is what the spec predicts for the code as read under deviation x, else a
    description of the difference"""
    part = t['v']['part']
    if t['devs'] and agrees(t, o, 'asread'):
        return part + ':' + '+'.join(sorted(t['devs']))
    if is_proc(t):
        exp, obs = proc_expected(t), o['obs']
        return '%s:exit=%s(expected %s)' % (part, '/'.join(str(x['exit']) for x in obs), '/'.join(str(x['exit']) for x in exp))
    exp, obs = bag(t['exp']), bag(o['diags'])
    missing = sorted({c for (c, w), n in (exp - obs).items()})
    extra = sorted({c for (c, w), n in (obs - exp).items()})
    return '%s:missing=%s;extra=%s' % (part, ','.join(missing) or '-', ','.join(extra) or '-')


def materialised(t, o):
    if is_proc(t):
        sc = o['scenario']
        return '\n'.join('--- %s\n%s' % (f, sc['files'][f]) for f in sorted(sc['files']) if 'probe' not in f) + \
               '\nruns: %s' % json.dumps([r['argv'] for r in sc['runs']])
    return '\n'.join('--- %s\n%s' % (f, x) for f, x in sorted((o.get('files') or {}).items())) + '--- workflow\n' + o.get('src', '')


def execute(sd, vecs, tag):
    """real outputs of the vectors, in order"""
    lint_idx = [i for i, t in enumerate(vecs) if not is_proc(t)]
    proc_idx = [i for i, t in enumerate(vecs) if is_proc(t)]
    outs = [None] * len(vecs)
    for i, o in zip(lint_idx, run_lint(sd, [vecs[i] for i in lint_idx], tag + '-lint')):
        outs[i] = o
    for i, o in zip(proc_idx, run_proc(sd, [vecs[i] for i in proc_idx], tag + '-proc')):
        outs[i] = o
    return outs


def doc_module():
    """ActionMetaDoc.tla regenerated from docs/checks.md of the checked tree: the value lists the documentation states in
    prose.  Unreadable documentation -> Inconclusive."""
    text = open(os.path.join(vplib.REPO, 'docs', 'checks.md')).read()
    sect = text[text.index('## Action metadata syntax validation'):]
    m = re.search(r'Supported icon colors are ([^.]*)\.', sect)
    r = re.search(r'Runner name at `using:` is one of ([^\n]*)', sect)
    if not m or not r:
        raise Inconclusive('docs/checks.md: the sentences listing the icon colours / runner names were not found')
    colors = [c.strip() for c in re.split(r',|\bor\b', m.group(1).replace('\n', ' ')) if c.strip()]
    runners = re.findall(r'`([a-z0-9]+)`', r.group(1))
    if len(colors) < 3 or len(runners) < 2 or not all(re.match(r'^[a-z-]+$', c) for c in colors):
        raise Inconclusive('docs/checks.md: colour / runner lists not understood: %r %r' % (colors, runners))

    def tla_set(xs):
        return '{' + ', '.join('"%s"' % x for x in xs) + '}'
    return ('--------------------------- MODULE ActionMetaDoc ---------------------------\n'
            '\\* generated from docs/checks.md of the checked tree by tools/checks/ext02.py\n'
            'DocColors == %s\nDocRunners == %s\n'
            '=============================================================================\n' % (tla_set(colors), tla_set(runners))), colors, runners


def generate(ck, tier):
    mod, colors, runners = doc_module()
    ck.cov['documented_lists'] = {'colors': colors, 'runners': runners}
    r = vplib.run_tlc('ActionMeta', CFG[tier], dump='vectors', timeout=2400, files={'ActionMetaDoc.tla': mod})
    ck.add_tlc('ActionMeta %s: Agree / Confined / TablesOK on the complete universe of 10 parts' % tier, r)
    if r.violated:
        raise Inconclusive('specification ActionMeta.tla violates its invariant %s (model level)' % r.violated)
    ts = vplib.read_dump_json(os.path.join(r.dir, 'vectors.dump'))
    if len(ts) != r.distinct:
        raise Inconclusive('dump has %d states, TLC reported %d' % (len(ts), r.distinct))
    header = [t for t in ts if t.get('part') == 'header']
    if len(header) != 1:
        raise Inconclusive('no header state in the dump')
    vecs = [t for t in ts if 'v' in t]
    vecs.sort(key=lambda t: json.dumps(t['v'], sort_keys=True))
    return header[0], vecs


def check_tables(ck, sd, header):
    """the code's icon table against the specification's (the colour table is exercised value by value)"""
    p = os.path.join(sd, 'tables.json')
    vplib.run_harness(['am-tables', p])
    tb = json.load(open(p))
    spec, code = set(header['icons']), set(tb['icons'])
    if spec != code:
        what = ('BrandingIcons of the code differs from the icon list of the specification: only in the code %s, only in the '
                'specification %s' % (sorted(code - spec), sorted(spec - code)))
        ck.violation('top:icon-table', what, {'kind': 'table', 'only_code': sorted(code - spec), 'only_spec': sorted(spec - code),
                                              'spec_icons': sorted(spec)})
    ck.cov['icon_table'] = '%d names, equal to BrandingIcons of the code: %s' % (len(spec), spec == code)


def check_no_outer_repo(d):
    d = os.path.abspath(d)
    while True:
        if os.path.isdir(os.path.join(d, '.github', 'workflows')) and os.path.exists(os.path.join(d, '.git')):
            raise Inconclusive('scratch directory lies inside a repository with workflows: ' + d)
        if any(os.path.exists(os.path.join(d, f)) for f in ('action.yml', 'action.yaml')):
            raise Inconclusive('scratch directory lies below an action metadata file: ' + d)
        p = os.path.dirname(d)
        if p == d:
            return
        d = p


def run(ck, tier):
    sd = vplib.subdir('ext02')
    check_no_outer_repo(sd)
    header, vecs = generate(ck, tier)
    outs = execute(sd, vecs, 'vec')
    bad = [(t, o) for t, o in zip(vecs, outs) if not agrees(t, o)]
    if bad:
        # re-execute the disagreeing vectors on the real code alone before they count
        again = execute(sd, [t for t, _ in bad], 'again')
        still = [(t, o) for (t, _), o in zip(bad, again) if not agrees(t, o)]
        if len(still) != len(bad):
            raise Inconclusive('%d of %d disagreeing vectors did not reproduce on re-execution' % (len(bad) - len(still), len(bad)))
    check_tables(ck, sd, header)

    groups = collections.OrderedDict()
    for t, o in bad:
        groups.setdefault(site_of(t, o), []).append((t, o))
    for site, items in groups.items():
        items.sort(key=lambda x: size_of(x[0]))                     # minimal input first
        t, o = items[0]
        what = ('%d vector(s) disagree with the documentation; first:\n%s\nvector %s\ndocumentation (declarative layer) demands %s, '
                'the real code gives %s' % (len(items), materialised(t, o), json.dumps(t['v']), show_exp(t), show_real(t, o)))
        if site in OBSERVATIONS:
            ck.note('OBSERVATION %s (%d vectors): %s -- e.g. %s: documented %s, real %s'
                    % (site, len(items), OBSERVATIONS[site], json.dumps(t['v']), show_exp(t), show_real(t, o)))
            continue
        ck.violation(site, what, {'kind': 'vectors', 'part': t['v']['part'], 'devs': sorted(t['devs']), 'count': len(items),
                                  'vectors': [{'v': a['v'], 'exp': a['exp'], 'asread': a['asread'], 'devs': a['devs']}
                                              for a, _ in items[:MAX_REPLAY]],
                                  'observed': [show_real(a, b) for a, b in items[:MAX_REPLAY]]})

    # ---- vacuity guards: every class the specification predicts for a part was observed, every part has vectors with
    #      and without findings, every named deviation has witnesses in the universe
    if not ck.violations:
        want, seen, verdicts = collections.defaultdict(set), collections.defaultdict(set), collections.defaultdict(set)
        for t, o in zip(vecs, outs):
            p = t['v']['part']
            if is_proc(t):
                for e, r in zip(proc_expected(t), o['obs']):
                    want[p] |= set(e['diags']) | {'exit%d' % e['exit'], e['err']}
                    seen[p] |= set(r['diags']) | {'exit%d' % r['exit'], r['err']}
                    verdicts[p].add(r['exit'] == 3)          # fatal / not fatal
            else:
                want[p] |= {d['c'] for d in t['exp']}
                seen[p] |= {d['c'] for d in o['diags']}
                verdicts[p].add(bool(o['diags']))
        for p in want:
            if want[p] - seen[p]:
                raise Inconclusive('part %s: classes %s predicted but never observed' % (p, sorted(want[p] - seen[p])))
            if verdicts[p] != {True, False}:
                raise Inconclusive('part %s: only verdict %s observed' % (p, sorted(verdicts[p])))
    missing_parts = set(header['parts']) - {t['v']['part'] for t in vecs}
    if missing_parts:
        raise Inconclusive('no vectors for parts %s' % sorted(missing_parts))
    per_dev = collections.Counter(d for t in vecs for d in t['devs'])
    for d in header['devs']:
        if not per_dev.get(d):
            ck.note('named deviation %s changes no vector of the universe (documentation and code tables agree)' % d)

    if tier == 'thorough' and vecs:
        # binding self-test: a forged prediction must be rejected by the comparison
        rejected = 0
        for want_proc in (False, True):
            i = next((k for k, t in enumerate(vecs) if is_proc(t) == want_proc and
                      (t['exp'] if not want_proc else t['v']['part'] == 'config' and t['exp']['diags'])), None)
            if i is None:
                raise Inconclusive('binding self-test: no vector to forge')
            forged = json.loads(json.dumps(vecs[i]))
            if want_proc:
                forged['exp']['diags'] = []
            else:
                forged['exp'] = []
            rejected += 0 if agrees(forged, outs[i]) else 1
        ck.cov['binding_selftest'] = 'rejected' if rejected == 2 else 'NOT rejected'
        if rejected != 2:
            raise Inconclusive('binding self-test failed: a forged prediction was not rejected')

    per = collections.Counter(t['v']['part'] for t in vecs)
    ck.cov['evaluations'] += len(vecs)
    ck.cov['traces_validated_against_impl'] += len(vecs)
    ck.cov['distinct_nontrivial'] += sum(1 for t in vecs if (t['exp'] if not is_proc(t) else proc_expected(t)[0]['exit'] != 0))
    ck.cov['vectors_per_part'] = dict(sorted(per.items()))
    ck.cov['process_runs'] = sum(len(o['obs']) for t, o in zip(vecs, outs) if is_proc(t))
    ck.cov['vectors_under_a_named_deviation'] = dict(per_dev)
    ck.cov['foreign_rule_kinds_seen'] = sorted({k for t, o in zip(vecs, outs) if not is_proc(t) for k in o['foreign']})
    ck.cov['observations_table'] = sorted(OBSERVATIONS)
    ck.cov['rule'] = ('every state of ActionMeta.tla: lint parts (runs / top / shape / reuse / uses / popular / file) are materialised as a '
                      'temporary repository with the action directories and linted with the real Linter.Lint, the multiset of '
                      '(class, step) of the action rule must equal the declarative prediction; configuration parts (config / choice / '
                      'init) are run with the built binary, (exit status, diagnostic classes, stderr class) of every run must '
                      'equal the prediction; non-trivial = a diagnostic / a non-zero exit status expected')
    ck.cov['exhaustive'] = True
    for p in ('runs', 'shape', 'uses', 'config', 'choice'):
        for t, o in zip(vecs, outs):
            if t['v']['part'] == p and (len(t['exp']) >= 2 if not is_proc(t) else t['exp']['exit'] == 3):
                ck.sample({'vector': t['v'], 'predicted': show_exp(t), 'real': show_real(t, o), 'materialised': materialised(t, o)[:1500]})
                break
    ck.assumptions += [
        'declarative layer = docs/checks.md ("Action metadata syntax validation", "Action format in uses:", "Outdated popular '
        'actions detection") and docs/config.md; the key sets per kind of action and the registry prefixes of `image` follow '
        "GitHub's metadata syntax as cited by the code comments (no offline copy); the icon list is transcribed from the pinned "
        'version and compared with the code table as a whole',
        'a key of `runs:` is "set" when it is written with a value: no value and the empty string are not set, an empty '
        'sequence / mapping is',
        'runner names are compared exactly (documentation lists the lower-case names); a runner name starting with "node" is '
        'checked as a JavaScript action (the documented example reports main/env of a node16 action); icon and colour names '
        'ignore letter case',
        'unknown keys of the metadata file and of the configuration file are accepted and ignored (documentation silent); '
        'scalars of any kind are accepted where a string is expected',
        'the defects of a metadata file are reported once per linted file, at the first step using the action; a local action '
        'whose directory does not exist and a workflow outside any repository report nothing (documented)',
        'docker:// references: the tag is what follows the last colon of the last path component (Docker reference grammar)',
        'configuration: a file that is not of the documented shape is fatal (exit 3, nothing on stdout); with both '
        'actionlint.yaml and actionlint.yml the former is used; only the file that is used is read',
        'shellcheck / pyflakes integration disabled; every run in a fresh directory layout',
    ]


def replay(path):
    rp = json.load(open(path))['replay']
    sd = vplib.subdir('ext02r')
    check_no_outer_repo(sd)
    if rp.get('kind') == 'table':
        p = os.path.join(sd, 'tables.json')
        vplib.run_harness(['am-tables', p])
        code = set(json.load(open(p))['icons'])
        spec = set(rp['spec_icons'])
        print('only in the code:', sorted(code - spec), 'only in the specification:', sorted(spec - code))
        return 1 if code != spec else 0
    vecs = rp['vectors']
    outs = execute(sd, vecs, 'replay')
    fails = 0
    for t, o in zip(vecs, outs):
        print(materialised(t, o))
        print('%s: documented %s, real %s' % (json.dumps(t['v']), show_exp(t), show_real(t, o)))
        if not agrees(t, o):
            fails += 1
    return 1 if fails else 0
