"""C05 - references to steps/needs/matrix/inputs/secrets/jobs resolve by scope.

E: TLC checks Scope.tla on every workflow shape of six bounded universes (step ids x positions;
   needs graphs x outputs x job kinds; matrices rows/include/exclude literal or expression; workflow_call /
   workflow_dispatch inputs and secrets; job-level and strategy.matrix sites of normal and call jobs): the visitor protocol
   WorkflowPre; (JobPre; Step*; JobPost)* in EVERY job order; WorkflowPost, with the scope variables
   of RuleExpression updated where the code updates them, hands to the expression checker at every
   site exactly the environment the declarative scope rules (DESIGN A.2) demand (ScopeAgrees), all
   per-job state is initial at every job entry (EntryClean), every site is checked (AllSitesChecked).
G: the same runs dump (shape, site, reference, defined?) vectors; the harness renders each shape to YAML,
   puts `${{ toJSON(<reference>) }}` at the site, lints it with the real Linter (several times when there
   are two or more jobs: the visiting order follows Go's map order) and reports whether the "undefined
   property/variable" diagnostic appears at the reference.  It must appear iff TLC says "not defined".
"""
import json
import os
import random

import vplib
from vplib import Inconclusive

LEVEL = 'model_checking'

QUICK = [('Scope_steps_q.cfg', 'step ids: <=2 jobs x <=2 steps, ids none/a/expression'),
         ('Scope_steps3.cfg', 'step ids: 1 job x <=3 steps, ids none/a/b/expression'),
         ('Scope_needs_q.cfg', 'needs: 3 jobs, every needs graph without self loops; jobs.* at workflow_call outputs'),
         ('Scope_needs2.cfg', 'needs: <=2 jobs normal/reusable-workflow call, dangling needs'),
         ('Scope_matrix_q.cfg', 'matrix: rows x include (<=1 element) x exclude, second job with literal rows'),
         ('Scope_matrix_nested.cfg', 'matrix members: matrix.a.<member> with row a literal objects / with an expression element / whole-row '
                                     'expression x include elements assigning an object literal to a'),
         ('Scope_inputs.cfg', 'inputs/secrets: workflow_call x workflow_dispatch inputs, secrets absent/empty/declared'),
         ('Scope_jobsites.cfg', 'job-level sites: values inside strategy.matrix, runs-on, container, services, concurrency, '
                                'timeout-minutes, continue-on-error, with/secrets of a call job; <=2 jobs normal/call with matrix')]
THOROUGH = [('Scope_steps_t.cfg', 'step ids: <=2 jobs x <=3 steps, ids none/a/expression'),
            ('Scope_steps3.cfg', QUICK[1][1]),
            ('Scope_steps3j.cfg', 'step ids: <=3 jobs x <=2 steps, ids none/a/expression'),
            ('Scope_needs_q.cfg', QUICK[2][1]),
            ('Scope_needs_t.cfg', 'needs: 3 jobs normal/call, every needs graph x declared outputs'),
            ('Scope_needs2.cfg', QUICK[3][1]),
            ('Scope_matrix_t.cfg', 'matrix: rows x include (<=2 elements) x exclude, second job with literal rows'),
            ('Scope_matrix_nested.cfg', QUICK[5][1]),
            ('Scope_inputs.cfg', QUICK[6][1]),
            ('Scope_jobsites.cfg', QUICK[7][1])]


def read_vectors(path):
    out = []
    pre = '/\\ tc = "'
    with open(path, encoding='utf-8') as f:
        for line in f:
            if line.startswith(pre) and not line.startswith(pre + '"'):
                v = json.loads(json.loads(line[len(pre) - 1:]))
                # the variant TLC assigned to the vector: spelling, embedding, id shape, header layout
                v['sp'] = dict(v.get('sp', {}), emb=v.pop('emb', PLAIN['emb']), idsh=v.pop('idsh', PLAIN['idsh']), lay=v.pop('lay', 0))
                out.append(v)
    return out


PLAIN = {'syn': 'dot', 'ref': 'l', 'decl': 'l', 'emb': 'toJSON(@)', 'idsh': "${{ format('dyn{0}', 1) }}", 'lay': 0}


def site_name(v, verdict):
    sp = v.get('sp', PLAIN)
    if sp == PLAIN:
        return 'scope:%s:%s:%s' % (v['ref']['ctx'], v['site']['k'], verdict)
    # the plain rendering of the same vector is always run too: a finding that only shows in this one is about the variant
    parts = []
    if (sp['syn'], sp['ref'], sp['decl']) != ('dot', 'l', 'l'):
        parts.append('%s-ref%s-decl%s' % (sp['syn'], sp['ref'], sp['decl']))
    if sp['emb'] != PLAIN['emb']:
        parts.append('embedded')
    if sp['idsh'] != PLAIN['idsh'] and any('$' in j['steps'] for j in v['sh']['jobs']):
        parts.append('idshape')
    if sp['lay']:
        parts.append('layout%d' % sp['lay'])
    return 'scope:%s:%s:%s:%s' % (v['ref']['ctx'], v['site']['k'], verdict, '+'.join(parts))


def run_vectors(sd, vecs, reps):
    inp = [{'id': i, 'sh': v['sh'], 'site': v['site'], 'ref': v['ref'], 'sp': v.get('sp', PLAIN)} for i, v in enumerate(vecs)]
    vplib.write_jsonl(os.path.join(sd, 'in.jsonl'), inp)
    vplib.run_harness(['scope-run', os.path.join(sd, 'in.jsonl'), os.path.join(sd, 'out.jsonl'), str(reps)], timeout=3000)
    return vplib.read_jsonl(os.path.join(sd, 'out.jsonl'))


def run(ck, tier):
    sd = vplib.subdir('c05')
    vecs = []
    for cfg, what in (QUICK if tier == 'quick' else THOROUGH):
        r = vplib.run_tlc('Scope', cfg, dump='vectors', timeout=3000)
        ck.add_tlc('Scope %s' % what, r)
        if r.violated:
            raise Inconclusive('specification Scope.tla violates %s under %s (model level)' % (r.violated, cfg))
        vs = read_vectors(os.path.join(r.dir, 'vectors.dump'))
        ck.cov.setdefault('vectors_per_cfg', {})[cfg] = len(vs)
        vecs += vs
    seen = set()
    uniq = []
    for v in vecs:
        key = json.dumps([v['sh'], v['site'], v['ref'], v['sp']], sort_keys=True)
        if key not in seen:
            seen.add(key)
            uniq.append(v)
    # every vector is rendered in the variant TLC assigned to it: spelling (index syntax / upper case), embedding (place
    # of the reference in an expression tree), shape of expression step ids, header layout; a quarter also plainly
    # (dotted lower-case reference as the whole argument of toJSON(), step ids that are one ${{ }}, sections after `on:`).
    # The predicted verdict is the same.  A vector that fails is re-run plainly and with each dimension alone so that
    # the violation names what it is about.
    assigned = [v for v in uniq if v['sp'] != PLAIN]
    # every (context, site kind, verdict) class must meet every embedding TLC uses: where the assignment leaves a gap,
    # further vectors of the class are rendered with the missing embeddings (otherwise plain)
    embs = sorted({v['sp']['emb'] for v in uniq})
    cls = {}
    for v in uniq:
        cls.setdefault((v['ref']['ctx'], v['site']['k'], v['def']), []).append(v)
    fill = []
    for key in sorted(cls, key=str):
        members = sorted(cls[key], key=lambda v: json.dumps([v['sh'], v['site'], v['ref']], sort_keys=True))
        missing = [e for e in embs if e not in {v['sp']['emb'] for v in members}]
        for i, e in enumerate(missing):
            fill.append(dict(members[(i * 7) % len(members)], sp=dict(PLAIN, emb=e)))
    ck.cov['renderings_added_for_embedding_coverage'] = len(fill)
    rng = random.Random(vplib.seed())
    rng.shuffle(uniq)                             # the seed decides which vectors are also rendered plainly
    nplain = len(uniq) if tier == 'thorough' else len(uniq) // 4
    uniq = [dict(v, sp=PLAIN) for v in uniq[:nplain]] + [v for v in uniq[nplain:] if v['sp'] == PLAIN] + assigned \
        + [v for v in fill if v['sp'] != PLAIN]
    rng.shuffle(uniq)
    reps = 0     # every permutation of the textual (= visiting) order of the jobs
    outs = run_vectors(sd, uniq, reps)
    if len(outs) != len(uniq):
        raise Inconclusive('harness returned %d results for %d vectors' % (len(outs), len(uniq)))
    nundef = 0
    evals = 0
    failing = []
    for o in outs:
        v = uniq[o['id']]
        if o['other']:
            raise Inconclusive('observable not understood for %s at %s: %r\n%s' % (v['ref'], v['site'], o['other'][:3], o['src']))
        evals += len(o['seen'])
        want = not v['def']
        if want:
            nundef += 1
        if any(s != want for s in o['seen']):
            failing.append((v, o))
    # attribution: the first failing variants are re-run plainly and with one dimension of the variant at a time
    blame = {}
    trials = []
    for n, (v, o) in enumerate(failing[:400]):
        if v['sp'] == PLAIN:
            continue
        sp = v['sp']
        for name, t in (('plain', PLAIN),
                        ('%s-ref%s-decl%s' % (sp['syn'], sp['ref'], sp['decl']), dict(PLAIN, syn=sp['syn'], ref=sp['ref'], decl=sp['decl'])),
                        ('embedded', dict(PLAIN, emb=sp['emb'])), ('idshape', dict(PLAIN, idsh=sp['idsh'])),
                        ('layout%d' % sp['lay'], dict(PLAIN, lay=sp['lay']))):
            if name == 'plain' or t != PLAIN:
                trials.append((n, name, dict(v, sp=t)))
    if trials:
        touts = run_vectors(vplib.subdir('c05blame'), [t[2] for t in trials], reps)
        for (n, name, tv), to in zip(trials, touts):
            if not to['other'] and any(s != (not tv['def']) for s in to['seen']):
                blame.setdefault(n, []).append(name)
    for n, (v, o) in enumerate(failing):
        want = not v['def']
        if True:
            verdict = 'missed' if want else 'false-positive'
            names = blame.get(n)
            if v['sp'] == PLAIN or (names and 'plain' in names):
                site = 'scope:%s:%s:%s' % (v['ref']['ctx'], v['site']['k'], verdict)
            elif names:
                site = 'scope:%s:%s:%s:%s' % (v['ref']['ctx'], v['site']['k'], verdict, '+'.join(names))
            else:
                site = site_name(v, verdict)
            ck.violation(site,
                         'reference %s at site %s: the scope rules say %s, the real linter %s (%d of %d runs)'
                         % (o_ref(v), v['site'], 'not defined' if want else 'defined',
                            'does not report it' if want else 'reports ' + '; '.join(o['msgs'][:1]),
                            sum(1 for s in o['seen'] if s != want), len(o['seen'])),
                         {'kind': 'scope', 'sh': v['sh'], 'site': v['site'], 'ref': v['ref'], 'def': v['def'], 'sp': v['sp'],
                          'ctx': v['ref']['ctx'], 'site_kind': v['site']['k'], 'verdict': verdict, 'seen': o['seen']})
    # binding self-test: a vector whose reference is swapped for one with the opposite verdict must be rejected
    by_site = {}
    for v in uniq:
        by_site.setdefault((json.dumps(v['sh'], sort_keys=True), json.dumps(v['site'], sort_keys=True), v['ref']['ctx'], json.dumps(v['sp'], sort_keys=True)), {})[v['def']] = v
    pair = next((d for d in by_site.values() if True in d and False in d), None)
    if pair is None:
        raise Inconclusive('binding self-test: no site with a defined and an undefined reference')
    forged = dict(pair[True], ref=pair[False]['ref'], sp=PLAIN)
    so = run_vectors(vplib.subdir('c05self'), [forged], reps)[0]
    ok = not so['other'] and all(s != (not forged['def']) for s in so['seen'])
    ck.cov['binding_selftest'] = 'rejected' if ok else 'NOT rejected'
    if not ok:
        raise Inconclusive('binding self-test failed: %r' % so)
    ck.cov['evaluations'] += evals
    ck.cov['traces_validated_against_impl'] += len(outs)
    ck.cov['distinct_nontrivial'] += nundef
    ck.cov['vectors'] = len(uniq)
    ck.cov['rule'] = ('every (shape, site, reference) of the TLC state spaces rendered to YAML and linted (%d times when the '
                      'shape has >= 2 jobs); non-trivial = the reference is not in scope and must be reported' % reps)
    ck.cov['exhaustive'] = True
    by = {}
    for v in uniq:
        key = v['ref']['ctx'] + '@' + v['site']['k']
        by[key] = by.get(key, 0) + 1
    ck.cov['vectors_by_context_and_site'] = by
    # every (context, site kind, verdict) class should meet every embedding
    cls = {}
    for v in uniq:
        cls.setdefault((v['ref']['ctx'], v['site']['k'], v['def']), set()).add(v['sp']['emb'])
    if len(embs) < 19:
        raise Inconclusive('only %d embeddings occur in the vectors' % len(embs))
    nemb = len(embs)
    short = sorted('%s@%s:%s(%d)' % (k[0], k[1], 'def' if k[2] else 'undef', len(x)) for k, x in cls.items() if len(x) < nemb)
    ck.cov['embeddings'] = nemb
    ck.cov['classes_not_meeting_every_embedding'] = short
    for o in outs[:2] + [o for o in outs if o['reported']][:2]:
        v = uniq[o['id']]
        ck.sample({'site': v['site'], 'ref': v['ref'], 'defined': v['def'], 'reported': o['seen'], 'messages': o['msgs'][:1]})
    ck.assumptions += [
        'reusable-workflow jobs call a remote workflow (outputs unknown); local callee files are not generated',
        'a job never needs itself (the code skips the entry, DESIGN A.2 does not speak about it)',
        'steps referenced by id are run: steps or unknown actions (outputs are a free map); callee-declared outputs belong to C14',
        'references are wrapped in toJSON() so that only the scope diagnostic can arise',
        'each vector is linted in the plain rendering and in ONE variant assigned by the specification: one of 8 spellings (index syntax / '
        'upper-case reference / upper-case declarations) x one of 19 embeddings x one of 5 expression-id shapes x one of 4 header layouts',
        'a literally known step id keeps its fixed property set even when another step id is an expression',
        'rule objects are created per workflow: per-workflow state (inputsTy, secretsTy, jobsTy) is never reused',
        'Go map iteration order cannot be forced: shapes with several jobs are linted several times (sound, not complete); '
        'the model covers every order']


def o_ref(v):
    ctx = 'github.event.inputs' if v['ref']['ctx'] == 'ghinputs' else v['ref']['ctx']
    return ctx + '.' + '.'.join(v['ref']['p'])


def replay(path):
    rp = json.load(open(path))['replay']
    sd = vplib.subdir('c05r')
    outs = run_vectors(sd, [rp], 16)
    o = outs[0]
    p = vplib.run_harness(['scope-render', os.path.join(sd, 'in.jsonl')])
    print(p.stdout.decode())
    print('expected: %s; reported in runs: %s %s' % ('defined' if rp['def'] else 'not defined', o['seen'], o['msgs'][:1]))
    if o['other']:
        print('other diagnostics:', o['other'])
        return 0
    want = not rp['def']
    return 1 if any(s != want for s in o['seen']) else 0
