"""C05 - references to steps/needs/matrix/inputs/secrets/jobs resolve by scope.

E: TLC checks Scope.tla on every workflow shape of six bounded universes (step ids x positions;
   needs graphs x outputs x job kinds; matrices rows/include/exclude literal or expression; workflow_call /
   workflow_dispatch inputs and secrets; job-level and strategy.matrix sites of normal and call jobs): the visitor protocol
   WorkflowPre; (JobPre; Step*; JobPost)* in EVERY job order; WorkflowPost, with the scope variables
   of RuleExpression updated where the code updates them, hands to the expression checker at every
   site exactly the environment the declarative scope rules (DESIGN A.2) demand (ScopeAgrees), all
   per-job state is initial at every job entry (EntryClean), every site is checked (AllSitesChecked).
G: the same runs dump (shape, site, reference, defined?) vectors; the harness renders each shape to YAML,
   puts `${{ toJSON(<reference>) }}` at the site, lints it with the real Linter (several times when there
   are two or more jobs: the visiting order follows Go's map order) and reports whether the "undefined
   property/variable" diagnostic appears at the reference.  It must appear iff TLC says "not defined".
"""
import json
import os
import random

import vplib
from vplib import Inconclusive

LEVEL = 'model_checking'

QUICK = [('Scope_steps_q.cfg', 'step ids: <=2 jobs x <=2 steps, ids none/a/expression'),
         ('Scope_steps3.cfg', 'step ids: 1 job x <=3 steps, ids none/a/b/expression'),
         ('Scope_needs_q.cfg', 'needs: 3 jobs, every needs graph without self loops; jobs.* at workflow_call outputs'),
         ('Scope_needs2.cfg', 'needs: <=2 jobs normal/reusable-workflow call, dangling needs'),
         ('Scope_matrix_q.cfg', 'matrix: rows x include (<=1 element) x exclude, second job with literal rows'),
         ('Scope_inputs.cfg', 'inputs/secrets: workflow_call x workflow_dispatch inputs, secrets absent/empty/declared'),
         ('Scope_jobsites.cfg', 'job-level sites: values inside strategy.matrix, runs-on, container, services, concurrency, '
                                'timeout-minutes, continue-on-error, with/secrets of a call job; <=2 jobs normal/call with matrix')]
THOROUGH = [('Scope_steps_t.cfg', 'step ids: <=2 jobs x <=3 steps, ids none/a/expression'),
            ('Scope_steps3.cfg', QUICK[1][1]),
            ('Scope_steps3j.cfg', 'step ids: <=3 jobs x <=2 steps, ids none/a/expression'),
            ('Scope_needs_q.cfg', QUICK[2][1]),
            ('Scope_needs_t.cfg', 'needs: 3 jobs normal/call, every needs graph x declared outputs'),
            ('Scope_needs2.cfg', QUICK[3][1]),
            ('Scope_matrix_t.cfg', 'matrix: rows x include (<=2 elements) x exclude, second job with literal rows'),
            ('Scope_inputs.cfg', QUICK[5][1]),
            ('Scope_jobsites.cfg', QUICK[6][1])]


def read_vectors(path):
    out = []
    pre = '/\\ tc = "'
    with open(path, encoding='utf-8') as f:
        for line in f:
            if line.startswith(pre) and not line.startswith(pre + '"'):
                out.append(json.loads(json.loads(line[len(pre) - 1:])))
    return out


PLAIN = {'syn': 'dot', 'ref': 'l', 'decl': 'l'}


def site_name(v, verdict):
    sp = v.get('sp', PLAIN)
    if sp == PLAIN:
        return 'scope:%s:%s:%s' % (v['ref']['ctx'], v['site']['k'], verdict)
    # the plain spelling of the same vector is always run too: a finding that only shows in this one is about spelling
    return 'scope:%s:%s:%s:%s-ref%s-decl%s' % (v['ref']['ctx'], v['site']['k'], verdict, sp['syn'], sp['ref'], sp['decl'])


def run_vectors(sd, vecs, reps):
    inp = [{'id': i, 'sh': v['sh'], 'site': v['site'], 'ref': v['ref'], 'sp': v.get('sp', PLAIN)} for i, v in enumerate(vecs)]
    vplib.write_jsonl(os.path.join(sd, 'in.jsonl'), inp)
    vplib.run_harness(['scope-run', os.path.join(sd, 'in.jsonl'), os.path.join(sd, 'out.jsonl'), str(reps)], timeout=3000)
    return vplib.read_jsonl(os.path.join(sd, 'out.jsonl'))


def run(ck, tier):
    sd = vplib.subdir('c05')
    vecs = []
    for cfg, what in (QUICK if tier == 'quick' else THOROUGH):
        r = vplib.run_tlc('Scope', cfg, dump='vectors', timeout=3000)
        ck.add_tlc('Scope %s' % what, r)
        if r.violated:
            raise Inconclusive('specification Scope.tla violates %s under %s (model level)' % (r.violated, cfg))
        vs = read_vectors(os.path.join(r.dir, 'vectors.dump'))
        ck.cov.setdefault('vectors_per_cfg', {})[cfg] = len(vs)
        vecs += vs
    seen = set()
    uniq = []
    for v in vecs:
        key = json.dumps([v['sh'], v['site'], v['ref'], v['sp']], sort_keys=True)
        if key not in seen:
            seen.add(key)
            uniq.append(v)
    # every vector is rendered in the plain spelling (dotted, lower case) and in the spelling TLC assigned to it
    # (index syntax and/or upper-case reference and/or upper-case declarations): same predicted verdict
    uniq = [dict(v, sp=PLAIN) for v in uniq] + [v for v in uniq if v['sp'] != PLAIN]
    random.Random(vplib.seed()).shuffle(uniq)     # the seed decides which vectors share a worker, nothing else
    reps = 0     # every permutation of the textual (= visiting) order of the jobs
    outs = run_vectors(sd, uniq, reps)
    if len(outs) != len(uniq):
        raise Inconclusive('harness returned %d results for %d vectors' % (len(outs), len(uniq)))
    nundef = 0
    evals = 0
    for o in outs:
        v = uniq[o['id']]
        if o['other']:
            raise Inconclusive('observable not understood for %s at %s: %r\n%s' % (v['ref'], v['site'], o['other'][:3], o['src']))
        evals += len(o['seen'])
        want = not v['def']
        if want:
            nundef += 1
        if any(s != want for s in o['seen']):
            verdict = 'missed' if want else 'false-positive'
            ck.violation(site_name(v, verdict),
                         'reference %s at site %s: the scope rules say %s, the real linter %s (%d of %d runs)'
                         % (o_ref(v), v['site'], 'not defined' if want else 'defined',
                            'does not report it' if want else 'reports ' + '; '.join(o['msgs'][:1]),
                            sum(1 for s in o['seen'] if s != want), len(o['seen'])),
                         {'kind': 'scope', 'sh': v['sh'], 'site': v['site'], 'ref': v['ref'], 'def': v['def'], 'sp': v['sp'],
                          'ctx': v['ref']['ctx'], 'site_kind': v['site']['k'], 'verdict': verdict, 'seen': o['seen']})
    # binding self-test: a vector whose reference is swapped for one with the opposite verdict must be rejected
    by_site = {}
    for v in uniq:
        by_site.setdefault((json.dumps(v['sh'], sort_keys=True), json.dumps(v['site'], sort_keys=True), v['ref']['ctx'], json.dumps(v['sp'], sort_keys=True)), {})[v['def']] = v
    pair = next((d for d in by_site.values() if True in d and False in d), None)
    if pair is None:
        raise Inconclusive('binding self-test: no site with a defined and an undefined reference')
    forged = dict(pair[True], ref=pair[False]['ref'], sp=PLAIN)
    so = run_vectors(vplib.subdir('c05self'), [forged], reps)[0]
    ok = not so['other'] and all(s != (not forged['def']) for s in so['seen'])
    ck.cov['binding_selftest'] = 'rejected' if ok else 'NOT rejected'
    if not ok:
        raise Inconclusive('binding self-test failed: %r' % so)
    ck.cov['evaluations'] += evals
    ck.cov['traces_validated_against_impl'] += len(outs)
    ck.cov['distinct_nontrivial'] += nundef
    ck.cov['vectors'] = len(uniq)
    ck.cov['rule'] = ('every (shape, site, reference) of the TLC state spaces rendered to YAML and linted (%d times when the '
                      'shape has >= 2 jobs); non-trivial = the reference is not in scope and must be reported' % reps)
    ck.cov['exhaustive'] = True
    by = {}
    for v in uniq:
        key = v['ref']['ctx'] + '@' + v['site']['k']
        by[key] = by.get(key, 0) + 1
    ck.cov['vectors_by_context_and_site'] = by
    for o in outs[:2] + [o for o in outs if o['reported']][:2]:
        v = uniq[o['id']]
        ck.sample({'site': v['site'], 'ref': v['ref'], 'defined': v['def'], 'reported': o['seen'], 'messages': o['msgs'][:1]})
    ck.assumptions += [
        'reusable-workflow jobs call a remote workflow (outputs unknown); local callee files are not generated',
        'a job never needs itself (the code skips the entry, DESIGN A.2 does not speak about it)',
        'steps referenced by id are run: steps or unknown actions (outputs are a free map); callee-declared outputs belong to C14',
        'references are wrapped in toJSON() so that only the scope diagnostic can arise',
        'each vector is linted in the plain spelling and in ONE of the 7 other spellings (index syntax / upper-case reference / '
        'upper-case declarations) assigned by the specification; all 8 spellings occur for every context and site kind',
        'a literally known step id keeps its fixed property set even when another step id is an expression',
        'rule objects are created per workflow: per-workflow state (inputsTy, secretsTy, jobsTy) is never reused',
        'Go map iteration order cannot be forced: shapes with several jobs are linted several times (sound, not complete); '
        'the model covers every order']


def o_ref(v):
    ctx = 'github.event.inputs' if v['ref']['ctx'] == 'ghinputs' else v['ref']['ctx']
    return ctx + '.' + '.'.join(v['ref']['p'])


def replay(path):
    rp = json.load(open(path))['replay']
    sd = vplib.subdir('c05r')
    outs = run_vectors(sd, [rp], 16)
    o = outs[0]
    p = vplib.run_harness(['scope-render', os.path.join(sd, 'in.jsonl')])
    print(p.stdout.decode())
    print('expected: %s; reported in runs: %s %s' % ('defined' if rp['def'] else 'not defined', o['seen'], o['msgs'][:1]))
    if o['other']:
        print('other diagnostics:', o['other'])
        return 0
    want = not rp['def']
    return 1 if any(s != want for s in o['seen']) else 0
