"""C19 - matrix duplicate and exclude checks are exact and order-insensitive.

E: TLC checks Matrix.tla: the code's Equals / isYAMLValueSubset / duplicate and exclude procedures
   (operational layer) give exactly the diagnostics the declarative layer demands (StructEq,
   Matches, Candidates), StructEq is an equivalence, verdicts do not depend on value order.
G: every matrix of the two TLC state spaces is dumped with its expected diagnostics, rendered to
   YAML in two variants (member order of mappings and combinations reversed, keys upper-cased)
   and linted with the real code; the set of matrix diagnostics (mapped back to value identities
   through their positions) must equal the prediction in both variants.
"""
import json
import os

import vplib
from vplib import Inconclusive

LEVEL = 'model_checking'


def key(d):
    return (d['kind'], d['t'], d.get('n', ''), d.get('i', 0), d.get('j', 0))


def run(ck, tier):
    sd = vplib.subdir('c19')
    cfgs = [('Matrix_dup.cfg', 'one row, <=3 values from 20 nested values: duplicates'),
            ('Matrix_num.cfg', 'scalars that are different text but the same number (1, 1.0, 1e0), plain and nested: duplicates and exclude verdicts'),
            ('Matrix_rows2.cfg', 'two literal rows sharing values (duplicates are per row), include/exclude on both keys'),
            ('Matrix_exc_quick.cfg' if tier == 'quick' else 'Matrix_exc.cfg',
             'row x include variants x exclude entries: exclude verdicts')]
    vecs = []
    for cfg, what in cfgs:
        r = vplib.run_tlc('Matrix', cfg, dump='vectors', timeout=2400)
        ck.add_tlc('Matrix %s' % what, r)
        if r.violated:
            raise Inconclusive('specification Matrix.tla violates %s under %s (model level)' % (r.violated, cfg))
        vs = vplib.read_dump_json(os.path.join(r.dir, 'vectors.dump'))
        if len(vs) != r.distinct:
            raise Inconclusive('dump/states mismatch for ' + cfg)
        vecs += vs
    seen = set()
    inp = []
    for v in vecs:
        k = json.dumps(v['m'], sort_keys=True)
        if k in seen:
            continue
        seen.add(k)
        inp.append({'id': len(inp), 'm': v['m'], 'exp': v['exp']})
    vplib.write_jsonl(os.path.join(sd, 'in.jsonl'), [{'id': x['id'], 'm': x['m']} for x in inp])
    vplib.run_harness(['matrix-run', os.path.join(sd, 'in.jsonl'), os.path.join(sd, 'out.jsonl')], timeout=3000)
    outs = vplib.read_jsonl(os.path.join(sd, 'out.jsonl'))
    nontrivial = 0
    evals = 0
    for o in outs:
        v = inp[o['id']]
        if o['other'] == ['skip']:
            continue
        if o['other']:
            raise Inconclusive('observable not understood / rendering rejected: %r\n%s' % (o['other'][:2], o['src']))
        evals += 1
        exp = sorted(key(d) for d in v['exp'])
        got = sorted(key(d) for d in o['diags'])
        if exp:
            nontrivial += 1
        if exp != got:
            kinds = sorted({k[0] for k in set(exp) ^ set(got)})
            ck.violation('matrix:%s:variant%d' % ('+'.join(kinds), o['variant']),
                         'matrix diagnostics differ from the specification: expected %s, real linter reports %s for\n%s'
                         % (exp, got, o['src']),
                         {'kind': 'matrix', 'm': v['m'], 'variant': o['variant'], 'expected': v['exp'], 'observed': o['diags'],
                          'src': o['src'], 'differing_kinds': kinds})
    ck.cov['evaluations'] += evals
    ck.cov['traces_validated_against_impl'] += evals
    ck.cov['distinct_nontrivial'] += nontrivial
    ck.cov['matrices'] = len(inp)
    ck.cov['rule'] = ('every matrix of the TLC state spaces (rows of <=3 nested values; row x include x exclude) rendered in '
                      '2 permutation variants and linted; non-trivial = at least one matrix diagnostic expected')
    ck.cov['exhaustive'] = True
    for o in outs:
        if o['diags'] and len(ck.cov['samples']) < 4:
            ck.sample({'workflow': o['src'], 'observed': o['diags']})
    ck.assumptions += ['value universe: 20 raw YAML values of depth <= 2 (scalars, expression scalars, sequences, mappings '
                       'with subset-related key sets)',
                       'identical expression texts repeated in one row are outside the universe']


def replay(path):
    rp = json.load(open(path))['replay']
    sd = vplib.subdir('c19r')
    vplib.write_jsonl(os.path.join(sd, 'in.jsonl'), [{'id': 0, 'm': rp['m']}])
    vplib.run_harness(['matrix-run', os.path.join(sd, 'in.jsonl'), os.path.join(sd, 'out.jsonl')])
    outs = vplib.read_jsonl(os.path.join(sd, 'out.jsonl'))
    o = outs[rp['variant']]
    exp = sorted(key(d) for d in rp['expected'])
    got = sorted(key(d) for d in o['diags'])
    print(o['src'])
    print('expected', exp)
    print('observed', got)
    return 0 if exp == got else 1
