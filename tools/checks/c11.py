"""C11 - script-injection detection is complete and precise.

E: TLC checks Untrusted.tla: the matcher automaton of expr_insecure.go, run over the event stream of
   the intended visiting order (index before operand), reports exactly what the declarative
   definition of DESIGN.md A.3 says (maximal access chains outside contains/startsWith/endsWith folded
   over the tree of documented paths) - same reports, same order - for every generated expression;
   the automaton is back in its initial state after the last End.
   Two universes per tier: long chains x all access spellings x a few embeddings, and plain chains x
   all embeddings x a second chain (inside an index, side by side, behind a sanitising call).
G: the same runs dump every expression as text with the predicted reports.  The real parser and the
   real ExprSemanticsChecker (untrusted checker enabled, constructed as rule_expression.go does for
   script positions) are run on every one.  Vectors with a semantic error are not applicable (the
   rest of the analysis is not guaranteed).  Every vector whose real reports differ from the
   prediction is re-run, the real AST projected onto the abstract tree, and judged by TLC
   (UntrustedTrace.tla): PropOK = the declarative Reports as a bag (decides VIOLATION), ModelOK =
   the automaton incl. order (drift only), DevOK = the automaton with the named deviation
   Dev_IndexLitCase (names the site of a violation).
   The real exported tree BuiltinUntrustedInputs is walked and compared with the documented list of
   the spec; a differing path is turned into a concrete expression and judged the same way.
   End to end: a sample is rendered into workflows and linted: script positions (run:, script: of
   actions/github-script at any ref, the input key in any letter case) report exactly what the API level reports, non-script positions (env:,
   with: of other actions, other inputs of github-script, if:, name:) never report.
C: concurrency and reuse (two real outputs): 12 files with distinct untrusted reads linted in ONE Linter.LintFiles
   call (GOMAXPROCS 4/8/16, repeated), one Linter / one ExprSemanticsChecker reused in sequence, fresh checkers in
   parallel goroutines: per file / expression exactly the reports it gets alone.  A finding of the (parallel) vector
   runs counts only if its simplest input fails again when executed alone.
T: seeded random deep expressions are run on the real code, recorded and validated by TLC.
"""
import json
import os
import random
import re

import vplib
from vplib import Inconclusive

LEVEL = 'model_checking'

CFGS = {
    'quick': [('Untrusted_quick.cfg', 'chains <= 5 segments, <= 1 unusual spelling (or all alike), 6 embeddings'),
              ('Untrusted_quick_emb.cfg', 'plain chains <= 4 segments, 41 embeddings (11 with a companion semantic error), second chain <= 3 segments')],
    'thorough': [('Untrusted_thorough.cfg', 'chains <= 5 segments, <= 2 unusual spellings (or all alike), 22 embeddings (4 with a companion semantic error)'),
                 ('Untrusted_thorough_emb.cfg', 'plain chains <= 5 segments, 44 embeddings (11 with a companion semantic error), second chain <= 3 segments')],
}

# ---- workflow renderings: (name, is script position, template of the steps)
HEAD = ('on: push\njobs:\n  j:\n    runs-on: ubuntu-latest\n    strategy:\n      matrix: ${{ fromJSON(vars.M) }}\n'
        '    steps:\n')
POSITIONS = [
    ('run', True, '      - run: "echo ${{ %s }}"\n'),
    ('run-block', True, '      - run: |\n          echo start\n          echo ${{ %s }}\n'),
    ('github-script', True, '      - uses: actions/github-script@v7\n        with:\n          script: "console.log(${{ %s }})"\n'),
    # input names are case-insensitive (the parser keys `with:` by the lower-cased name)
    ('github-script-key-Script', True, '      - uses: actions/github-script@v7\n        with:\n          Script: "console.log(${{ %s }})"\n'),
    ('github-script-key-SCRIPT', True, '      - uses: actions/github-script@v7\n        with:\n          SCRIPT: "console.log(${{ %s }})"\n'),
    # any ref of the action (actions/github-script@*)
    ('github-script-main', True, '      - uses: actions/github-script@main\n        with:\n          script: "console.log(${{ %s }})"\n'),
    ('github-script-sha', True, '      - uses: actions/github-script@60a0d83039c74a4aee543508d2ffcb1c3799cdea\n        with:\n'
                                '          script: "console.log(${{ %s }})"\n'),
    # more placeholders in the same script: clean ones around, and one with a semantic error AFTER the one under
    # test (a placeholder after a broken one is not analysed by design, so the broken one never comes first)
    ('run-between-clean-placeholders', True, '      - run: "echo ${{ github.sha }} ${{ %s }} ${{ github.ref }}"\n'),
    ('run-then-broken-placeholder', True, '      - run: "echo ${{ %s }} ${{ github.c11_nope }}"\n'),
    ('github-script-then-broken-placeholder', True, '      - uses: actions/github-script@v7\n        with:\n'
                                                    '          script: "f(${{ %s }}, ${{ steps.nope.outputs.x }})"\n'),
    ('env', False, '      - run: echo "$V"\n        env:\n          V: "${{ %s }}"\n'),
    ('with-other-action', False, '      - uses: actions/checkout@v4\n        with:\n          ref: "${{ %s }}"\n'),
    ('github-script-other-input', False, '      - uses: actions/github-script@v7\n        with:\n          script: "1"\n'
                                         '          result-encoding: "${{ %s }}"\n'),
    ('other-action-script-input', False, '      - uses: actions/github-scripts@v7\n        with:\n          script: "${{ %s }}"\n'),
    ('if', False, '      - run: echo\n        if: "${{ %s }}"\n'),
    ('if-bare', False, '      - run: echo\n        if: "%s"\n'),
    ('name', False, '      - name: "${{ %s }}"\n        run: echo\n'),
]


# ---- systematic non-script positions: every checkString / checkBool / checkInt / checkFloat /
# checkIfCondition / checkRawYAMLString site of rule_expression.go where the `github` context is
# available (sites whose workflow key is "" - shell, uses, id, on.* ... - allow no context at all).
# One document; @@name@@ is replaced by the default, or by the expression at the position under test.
NS_BASE = """name: w
run-name: @@run-name@@
on:
  push:
  workflow_call:
    inputs:
      a:
        type: string
        default: @@workflow-call-input-default@@
    outputs:
      o:
        value: @@workflow-call-output-value@@
env:
  WV: @@workflow-env@@
concurrency:
  group: @@workflow-concurrency-group@@
  cancel-in-progress: @@workflow-concurrency-cancel@@
jobs:
  j:
    name: @@job-name@@
    runs-on: @@runs-on@@
    if: @@job-if@@
    environment:
      name: @@environment-name@@
      url: @@environment-url@@
    concurrency:
      group: @@job-concurrency-group@@
    env:
      JV: @@job-env@@
    defaults:
      run:
        working-directory: @@job-defaults-working-directory@@
        shell: @@job-defaults-shell@@
    strategy:
      fail-fast: @@strategy-fail-fast@@
      max-parallel: @@strategy-max-parallel@@
      matrix:@@matrix@@
    timeout-minutes: @@job-timeout-minutes@@
    continue-on-error: @@job-continue-on-error@@
    container:
      image: @@container-image@@
      credentials:
        username: @@container-credentials-username@@
        password: @@container-credentials-password@@
      env:
        CV: @@container-env@@
      ports:
        - @@container-port@@
      volumes:
        - @@container-volume@@
      options: @@container-options@@
    services:
      s:
        image: @@service-image@@
        env:
          SV: @@service-env@@
        ports:
          - @@service-port@@
        options: @@service-options@@
    outputs:
      o: @@job-output@@
    steps:
      - name: @@step-name@@
        if: @@step-if@@
        run: echo
        working-directory: @@step-working-directory@@
        env:
          TV: @@step-env@@
        continue-on-error: @@step-continue-on-error@@
        timeout-minutes: @@step-timeout-minutes@@
      - uses: actions/checkout@v4
        with:
          ref: @@with-other-action@@
      - uses: actions/github-script@v7
        with:
          script: "1"
          result-encoding: @@github-script-other-input@@
      - uses: actions/github-scripts@v7
        with:
          script: @@other-action-script-input@@
      - uses: docker://alpine:3
        with:
          entrypoint: @@with-entrypoint@@
          args: @@with-args@@
  c:
    uses: o/r/.github/workflows/w.yml@main
    with:
      x: @@call-with@@
    secrets:
      t: @@call-secret@@
"""
PLAIN = '"${{ %s }}"'
# name -> (default text, text at test with %s = the expression)
NS_POS = {
    'run-name': ('"r"', PLAIN),
    'workflow-call-input-default': ('"d"', PLAIN),
    'workflow-call-output-value': ('"v"', PLAIN),
    'workflow-env': ('"e"', PLAIN),
    'workflow-concurrency-group': ('"g"', '"g-${{ %s }}"'),
    'workflow-concurrency-cancel': ('true', PLAIN),
    'job-name': ('"n"', PLAIN),
    'runs-on': ('ubuntu-latest', PLAIN),
    'job-if': ('true', PLAIN),
    'job-if-bare': ('true', '"%s"'),
    'environment-name': ('"prod"', PLAIN),
    'environment-url': ('"https://example.com"', '"https://example.com/${{ %s }}"'),
    'job-concurrency-group': ('"jg"', PLAIN),
    'job-env': ('"e"', PLAIN),
    'job-defaults-working-directory': ('"."', '"packages/${{ %s }}"'),
    'job-defaults-shell': ('bash', PLAIN),
    'strategy-fail-fast': ('false', PLAIN),
    'strategy-max-parallel': ('1', PLAIN),
    'matrix': (' ${{ fromJSON(vars.M) }}', None),
    'job-timeout-minutes': ('5', PLAIN),
    'job-continue-on-error': ('false', PLAIN),
    'container-image': ('"alpine:3"', '"alpine:${{ %s }}"'),
    'container-credentials-username': ('"u"', PLAIN),
    'container-credentials-password': ('"${{ secrets.P }}"', PLAIN),
    'container-env': ('"e"', PLAIN),
    'container-port': ('"80"', PLAIN),
    'container-volume': ('"/a:/b"', '"/a:/${{ %s }}"'),
    'container-options': ('"--cpus 1"', '"--name ${{ %s }}"'),
    'service-image': ('"redis:7"', PLAIN),
    'service-env': ('"e"', PLAIN),
    'service-port': ('"6379"', PLAIN),
    'service-options': ('"--cpus 1"', PLAIN),
    'job-output': ('"o"', PLAIN),
    'step-name': ('"s"', PLAIN),
    'step-if': ('true', PLAIN),
    'step-if-bare': ('true', '"%s"'),
    'step-working-directory': ('"."', '"packages/${{ %s }}"'),
    'step-env': ('"e"', PLAIN),
    'step-continue-on-error': ('false', PLAIN),
    'step-timeout-minutes': ('5', PLAIN),
    'with-other-action': ('"main"', PLAIN),
    'github-script-other-input': ('"string"', PLAIN),
    'other-action-script-input': ('"1"', '"console.log(${{ %s }})"'),
    'with-entrypoint': ('"/bin/sh"', PLAIN),
    'with-args': ('"-c true"', '"-c ${{ %s }}"'),
    'call-with': ('"x"', PLAIN),
    'call-secret': ('"${{ secrets.T }}"', PLAIN),
    # values of a literal matrix (checkRawYAMLString)
    'matrix-row-value': (None, '\n        v:\n          - "${{ %s }}"'),
    'matrix-include-value': (None, '\n        v: [1]\n        include:\n          - w: "${{ %s }}"'),
}
# markers that two positions share
NS_MARKER = {'job-if-bare': 'job-if', 'step-if-bare': 'step-if', 'matrix-row-value': 'matrix', 'matrix-include-value': 'matrix'}

NS_TEST = [p for p in NS_POS if NS_POS[p][1] is not None]


def ns_render(pos, expr):
    out = NS_BASE
    target = NS_MARKER.get(pos, pos)
    for name, (default, _) in NS_POS.items():
        if default is None:
            continue
        if pos is not None and name == target:
            out = out.replace('@@%s@@' % name, NS_POS[pos][1] % expr)
        else:
            out = out.replace('@@%s@@' % name, default)
    if '@@' in out:
        raise Inconclusive('workflow template has an unfilled marker')
    return out


# positions whose rendering holds a semantic error of its own: other diagnostics of kind `expression` are expected there
TOLERANT_POS = {'run-then-broken-placeholder', 'github-script-then-broken-placeholder'}
SCRIPT_POS = [i for i, p in enumerate(POSITIONS) if p[1]]
OTHER_POS = [i for i, p in enumerate(POSITIONS) if not p[1]]


def norm(reps):
    """reports as a list of sorted path lists (order of the reports kept)"""
    return [sorted(x) for x in reps]


def bag(reps):
    return sorted(norm(reps))


def parse_documented(out):
    m = re.search(r'<<"DOCUMENTED", (".*")>>', out)
    if not m:
        raise Inconclusive('the specification did not print its documented list')
    return sorted(json.loads(json.loads(m.group(1))))


def parse_mism(out):
    m = re.search(r'<<\s*"MISM",\s*(\d+),\s*<<(.*?)>>,\s*<<(.*?)>>,\s*<<(.*?)>>\s*>>', out, re.S)
    if not m:
        raise Inconclusive('trace validation produced no verdict:\n' + out[-2000:])

    def ints(body):
        return [int(x) for x in body.replace('\n', ' ').split(',') if x.strip()]
    return int(m.group(1)), ints(m.group(2)), ints(m.group(3)), ints(m.group(4))


def real_run(sd, texts, tree=False, tag='v'):
    """the real parser + semantics checker on expression texts"""
    fi, fo = os.path.join(sd, tag + '_in.jsonl'), os.path.join(sd, tag + '_out.jsonl')
    vplib.write_jsonl(fi, [{'id': i, 'e': t} for i, t in enumerate(texts)])
    vplib.run_harness(['untrusted-vectors', fi, fo] + (['tree'] if tree else []), timeout=3000)
    outs = vplib.read_jsonl(fo)
    if len(outs) != len(texts):
        raise Inconclusive('harness returned %d results for %d vectors' % (len(outs), len(texts)))
    return outs


def judge(ck, sd, items, label, name='judge'):
    """items: dicts with 't' (text) - re-run on the real code with the projection of the real AST,
    validated by TLC.  Returns the items annotated with verdict in {'ok','drift','violation'},
    'dev' (explained exactly by Dev_IndexLitCase), 'real' (real reports) and 'rec' (the trace record)."""
    if not items:
        return []
    outs = real_run(sd, [it['t'] for it in items], tree=True, tag=name)
    recs, kept = [], []
    for it, o in zip(items, outs):
        it = dict(it)
        it['real'] = norm(o['reps'])
        if o.get('panic'):
            it['verdict'], it['dev'], it['panic'] = 'panic', False, o['panic']
            kept.append(it)
            continue
        if o.get('perr') or o['other']:
            raise Inconclusive('observable not understood on %r: %s' % (it['t'], o.get('perr') or o['other'][0]))
        it['sem'] = o['sem']
        it['rec'] = {'e': o['tree'], 'r': o['reps'], 't': it['t']}
        recs.append(it['rec'])
        kept.append(it)
    if recs:
        text = ''.join(json.dumps(r, separators=(',', ':')) + '\n' for r in recs)
        t = vplib.run_tlc('UntrustedTrace', 'UntrustedTrace.cfg', workers=1, files={'trace.ndjson': text},
                          timeout=3000, name=name)
        ck.add_tlc('UntrustedTrace: %d re-executed expressions (%s)' % (len(recs), label), t)
        n, mism, drift, dev = parse_mism(t.out)
        if n != len(recs):
            raise Inconclusive('trace validation read %d of %d records' % (n, len(recs)))
        mism, drift, dev = set(mism), set(drift), set(dev)
        k = 0
        for it in kept:
            if 'rec' not in it:
                continue
            k += 1
            it['verdict'] = 'violation' if k in mism else ('drift' if k in drift else 'ok')
            it['dev'] = k in dev
        ck.cov['traces_validated_against_impl'] += len(recs)
    return kept


def lower_literals(text):
    return re.sub(r"\['([^']*)'\]", lambda m: "['" + m.group(1).lower() + "']", text)


def confirm_dev(ck, sd, items, name):
    """The site `index-literal-case` is kept only if the same expression with its string-literal
    indices written in lower case satisfies the property on the real code (judged by TLC)."""
    cand = [it for it in items if it.get('dev') and it['verdict'] == 'violation']
    if not cand:
        return
    res = judge(ck, sd, [{'t': lower_literals(it['t'])} for it in cand],
                'index literals lowered: confirmation of the site index-literal-case', name=name)
    for it, lo in zip(cand, res):
        it['dev'] = lo['verdict'] in ('ok', 'drift') and not lo.get('sem')


def describe(pred, real):
    p, r = bag(pred), bag(real)
    pp = {tuple(x) for x in p}
    rr = {tuple(x) for x in r}
    if pp - rr and not rr - pp:
        return 'missed'
    if rr - pp and not pp - rr:
        return 'false-report'
    return 'wrong-paths'


class Findings:
    """violations grouped by site: one VIOLATION per site carrying the shortest input and the count"""

    def __init__(self):
        self.by_site = {}

    @staticmethod
    def simplicity(text):
        # fewest characters outside plain dotted names first, then the shortest
        return (len(re.sub(r'[a-z_.]', '', text)), len(text), text)

    def add(self, site, text, what, replay):
        e = self.by_site.setdefault(site, {'n': 0, 'best': None})
        e['n'] += 1
        if e['best'] is None or self.simplicity(text) < self.simplicity(e['best'][0]):
            e['best'] = (text, what, replay)

    def flush(self, ck):
        for site in sorted(self.by_site):
            e = self.by_site[site]
            text, what, replay = e['best']
            replay = dict(replay)
            replay['occurrences'] = e['n']
            ck.violation(site, '%s (%d inputs of this run fail in this way; simplest shown)' % (what, e['n']), replay)


def api_violation(fs, it, pred, origin):
    real = it['real']
    if it['verdict'] == 'panic':
        fs.add('api:panic', it['t'], 'expression %r: the real checker panics (%s); nothing is reported' % (it['t'], it['panic']),
               {'kind': 'api', 'expr': it['t'], 'origin': origin})
        return
    if it['dev']:
        site = 'index-literal-case'
        what = ('expression %r: a string-literal index in upper/mixed case is not matched case-insensitively: real reports %s%s '
                '(the real output equals the matcher run with the index literal compared as written, and the same expression '
                'with the literal in lower case is handled correctly)'
                % (it['t'], real, '' if pred is None else ', documented reads %s' % (pred,)))
    else:
        site = ('api:companion-defect:' if it.get('comp') else 'api:') + (describe(pred, real) if pred is not None else 'reports')
        what = ('expression %r: real reports %s, %s' % (it['t'], real, 'which is not what the declarative definition (A.3) gives'
                if pred is None else 'the declarative definition (A.3) gives %s' % (pred,)))
    fs.add(site, it['t'], what, {'kind': 'api', 'expr': it['t'], 'real': real, 'expected': pred, 'origin': origin})


def run(ck, tier):
    sd = vplib.subdir('c11')
    rng = random.Random(vplib.seed())
    fs = Findings()
    ck.c11_guards = []
    ck.c11_unstable = 0
    documented = None
    lint_pool = []          # (text, predicted, api-level real, companion defect?) of applicable vectors
    n_vec = n_na = n_nontrivial = n_diff = n_drift = n_comp = n_comp_rep = 0
    comp_classes = {}
    sem_classes = {}
    seen = set()
    for cfg, label in CFGS[tier]:
        # ---- E + vector dump
        r = vplib.run_tlc('Untrusted', cfg, dump='vectors', timeout=3400, heap='3g' if tier == 'thorough' else None)
        ck.add_tlc('Untrusted %s: automaton == declarative reports, final state initial' % label, r)
        if r.violated:
            raise Inconclusive('specification Untrusted.tla violates its own invariant %s with %s (model-level only)' % (r.violated, cfg))
        documented = parse_documented(r.out)
        if not seen:
            tree_part(ck, sd, fs, documented)
        vecs = vplib.read_dump_json(os.path.join(r.dir, 'vectors.dump'))
        if len(vecs) != r.distinct:
            raise Inconclusive('dump has %d vectors, TLC reported %d states' % (len(vecs), r.distinct))
        os.remove(os.path.join(r.dir, 'vectors.dump'))
        vecs = [v for v in vecs if v['e'] not in seen]
        seen.update(v['e'] for v in vecs)
        # ---- G: API level, every vector
        outs = real_run(sd, [v['e'] for v in vecs])
        differing = []
        for v, o in zip(vecs, outs):
            pred = norm(v['r'])
            if o.get('perr'):
                raise Inconclusive('the real parser rejects the generated expression %r: %s' % (v['e'], o['perr']))
            if o['other']:
                raise Inconclusive('untrusted-input message not understood: %r' % o['other'][0])
            comp = v.get('m', '').startswith('comp-')
            if o.get('panic'):
                differing.append({'t': v['e'], 'pred': pred, 'comp': comp})
                continue
            if comp:
                # companion defect: the expression holds a semantic error by construction; it is applicable, the error
                # must be diagnosed and must not change the untrusted reports
                if not o['sem']:
                    raise Inconclusive('companion %s draws no semantic diagnostic in %r: the dimension is vacuous' % (v['m'], v['e']))
                n_comp += 1
                n_comp_rep += 1 if pred else 0
                comp_classes[v['m']] = comp_classes.get(v['m'], 0) + 1
            elif o['sem']:
                n_na += 1
                k = re.sub(r'"[^"]*"', '"_"', o['sem'][0])[:80]
                sem_classes[k] = sem_classes.get(k, 0) + 1
                continue
            n_vec += 1
            real = norm(o['reps'])
            if pred:
                n_nontrivial += 1
            if real != pred:
                differing.append({'t': v['e'], 'pred': pred, 'comp': comp})
            if len(lint_pool) < 400000 or comp:
                lint_pool.append((v['e'], pred, real, comp))
        del vecs, outs
        # ---- every differing vector is re-run and judged by TLC on the projection of the real AST
        n_diff += len(differing)
        cap = 8000 if tier == 'quick' else 20000
        if len(differing) > cap:
            differing.sort(key=lambda d: Findings.simplicity(d['t']))
            ck.note('%d vectors of %s differ from the prediction; the %d simplest are judged individually' % (len(differing), cfg, cap))
            differing = differing[:cap]
        judged = judge(ck, sd, differing, 'vectors of %s whose real reports differ from the prediction' % cfg,
                       name='judge-' + os.path.splitext(cfg)[0])
        confirm_dev(ck, sd, judged, 'confirm-' + os.path.splitext(cfg)[0])
        for it in judged:
            if it['verdict'] in ('violation', 'panic'):
                if it.get('sem') and not it.get('comp'):
                    continue
                api_violation(fs, it, it['pred'], cfg)
            else:
                # the real output satisfies the property on the tree the real parser built, yet differs from the
                # prediction for the text: report order (drift) or the text was parsed into another tree
                if it['real'] == it['pred']:
                    ck.c11_unstable += 1      # the first observation is not reproduced: see concurrency_part / verify_alone
                    continue
                n_drift += 1
                if n_drift <= 3:
                    ck.note('model drift: %r real %s predicted %s (%s)' % (it['t'], it['real'], it['pred'], it['verdict']))
    ck.cov['evaluations'] += n_vec
    ck.cov['traces_validated_against_impl'] += n_vec
    ck.cov['distinct_nontrivial'] += n_nontrivial
    ck.cov['not_applicable_semantic_error'] = n_na
    ck.cov['not_applicable_classes'] = dict(sorted(sem_classes.items(), key=lambda kv: -kv[1])[:8])
    ck.cov['vectors_differing_from_prediction'] = n_diff
    ck.cov['companion_defect_vectors'] = {'total': n_comp, 'with_predicted_report': n_comp_rep, 'per_class': comp_classes}
    if not n_comp_rep:
        raise Inconclusive('no vector with a companion semantic error and a predicted report')
    if n_drift:
        ck.cov['model_drift_records'] = n_drift
    if n_na > 0.35 * (n_na + n_vec):
        raise Inconclusive('%d of %d generated expressions have a semantic error: the generator is not type-correct enough'
                           % (n_na, n_na + n_vec))
    if lint_pool:
        ck.sample({'expression': lint_pool[len(lint_pool) // 3][0], 'predicted_reports': lint_pool[len(lint_pool) // 3][1]})
    # ---- concurrency and reuse (two real outputs)
    concurrency_part(ck, sd, fs, rng, lint_pool, tier)
    unstable = verify_alone(ck, sd, fs) + ck.c11_unstable
    ck.c11_unstable = 0
    try:
        # ---- G: end to end through Linter.Lint
        lint_part(ck, sd, fs, rng, lint_pool, 2500 if tier == 'quick' else 20000)
        lint_nonscript_part(ck, sd, fs, rng, lint_pool, 30 if tier == 'quick' else 300)
        # ---- T: random deep expressions validated by TLC
        trace_part(ck, sd, fs, documented, 6000 if tier == 'quick' else 40000, tier)
        unstable += verify_alone(ck, sd, fs) + ck.c11_unstable
    except Inconclusive as e:
        if not fs.by_site:
            raise
        ck.note('a later part of the check could not be completed (%s); the violations found so far stand' % str(e)[:300])
    if unstable:
        ck.cov['observations_not_reproduced_alone'] = unstable
        if not fs.by_site:
            raise Inconclusive('%d observations differed from the prediction but neither reproduce alone nor in the concurrency part' % unstable)
        ck.note('%d differing observations of the parallel vector runs do not reproduce when executed alone; they are explained '
                'by the concurrency findings' % unstable)
    fs.flush(ck)
    if ck.c11_guards and not fs.by_site:
        # a coverage guard counts only when nothing was found: a defect that silences all reports is a violation, not a gap
        raise Inconclusive(ck.c11_guards[0])
    ck.cov['rule'] = ('every state of the TLC generator = one expression (text + predicted reports) run on the real parser and '
                      'semantics checker; evaluations = applicable vectors (no semantic error); non-trivial = at least one '
                      'predicted report; plus workflow renderings in script / non-script positions and random deep expressions '
                      'validated by TLC')
    ck.cov['exhaustive'] = True
    ck.assumptions += [
        'the documented untrusted inputs are the 20 paths of Untrusted.tla (cross-checked against the exported tree at start-up)',
        'expressions with an incidental semantic error are not applicable; the designated companion-defect embeddings (comp-*) '
        'are applicable: a semantic error elsewhere in the expression adds its diagnostic and never removes a report',
        'a placeholder that follows a placeholder with an error in the same string is not analysed (by design): the broken '
        'placeholder is only ever placed after the one under test',
        'dereferencing the result of contains/startsWith/endsWith is outside the universe (ill-typed)',
        'positions of the diagnostics are not compared here (C07)',
        'one placeholder per script; matrix is given by an expression so that matrix.x has unknown type',
    ]


# ------------------------------------------------------------------------------------- tree
def tree_part(ck, sd, fs, documented):
    f = os.path.join(sd, 'tree.json')
    vplib.run_harness(['untrusted-tree', f])
    tree = json.load(open(f))
    real = {leaf['key'] for leaf in tree['leaves']}
    doc = set(documented)
    missing, extra = sorted(doc - real), sorted(real - doc)
    misnamed = sorted(leaf['key'] for leaf in tree['leaves'] if leaf['key'] != leaf['str'])
    ck.cov['tree'] = {'documented_paths': len(doc), 'real_leaves': len(real), 'missing': missing, 'added': extra,
                      'structural': tree['bad'] + misnamed}
    if not (missing or extra or misnamed or tree['bad']):
        return
    # the real table differs from the transcription: turn every differing path into concrete reads
    items = []
    for kind, paths in (('documented-path-missing', missing), ('undocumented-path-added', extra), ('path-misnamed', misnamed)):
        for p in paths:
            items.append({'t': p, 'why': kind, 'path': p})                       # a.*.b is itself an expression (object filter)
            if '.*' in p:
                items.append({'t': p.replace('.*', '[0]'), 'why': kind, 'path': p})
    shown = 0
    for it in judge(ck, sd, items, 'paths on which the real table differs from the documented list', name='judge-tree'):
        if it['verdict'] in ('violation', 'panic') and not it.get('sem'):
            shown += 1
            what = {'documented-path-missing': 'the documented untrusted input %s is missing from BuiltinUntrustedInputs: '
                                               'reading it is not reported',
                    'undocumented-path-added': 'BuiltinUntrustedInputs contains %s, which is not a documented untrusted input: an '
                                               'expression that reads no documented input is reported (if the addition is intended, '
                                               'the documented list of Untrusted.tla must be extended)',
                    'path-misnamed': 'the node of BuiltinUntrustedInputs reached by %s prints another path'}[it['why']] % it['path']
            fs.add('tree:' + it['why'], it['t'], 'expression %r: real reports %s; %s' % (it['t'], it.get('real'), what),
                   {'kind': 'api', 'expr': it['t'], 'real': it.get('real'), 'path': it['path'], 'origin': 'tree'})
    if not shown:
        raise Inconclusive('the exported table BuiltinUntrustedInputs differs from the transcription in Untrusted.tla (%s) but no '
                           'behavioural difference could be shown: update the specification'
                           % json.dumps(ck.cov['tree']))


# ------------------------------------------------------------------------------------- lint
def render(pos_tmpl, expr):
    return HEAD + pos_tmpl % expr


def lint_panic(ck, sd, fs, c, err):
    """Linter.Lint panicked on a rendered workflow: a violation if it panics again when linted alone."""
    fi, fo = os.path.join(sd, 'alone_in.jsonl'), os.path.join(sd, 'alone_out.jsonl')
    vplib.write_jsonl(fi, [{'id': 0, 'src': c['src']}])
    vplib.run_harness(['untrusted-lint', fi, fo])
    o = vplib.read_jsonl(fo)[0]
    if (o.get('err') or '').startswith('panic'):
        fs.add('lint:panic', c['expr'], 'position %s: Linter.Lint panics on expression %r (%s): nothing is reported'
               % (c['pos'], c['expr'], o['err']), {'kind': 'lint', 'pos': c['pos'], 'script': None, 'expr': c['expr'], 'src': c['src']})
    else:
        ck.c11_unstable += 1


def lint_part(ck, sd, fs, rng, pool, limit):
    if not pool:
        raise Inconclusive('no applicable vector to render')
    rep = [x for x in pool if x[1] or x[2]]
    non = [x for x in pool if not (x[1] or x[2])]
    rng.shuffle(rep)
    rng.shuffle(non)
    comps = [x for x in rep if x[3]]
    chosen = rep[:limit * 2 // 3] + non[:limit - min(len(rep), limit * 2 // 3)]
    have = sum(1 for x in chosen if x[3])
    chosen += comps[::-1][:max(0, limit // 5 - have)]   # companion defects: a fifth of the sample
    rng.shuffle(chosen)
    cases = []
    for i, (text, pred, real, comp) in enumerate(chosen):
        # every expression in one script position and two non-script positions (rotating), all positions for the first 200
        idxs = range(len(POSITIONS)) if i < 200 else [SCRIPT_POS[i % len(SCRIPT_POS)]] + \
            [OTHER_POS[(i + k) % len(OTHER_POS)] for k in (0, 3)]
        for j in idxs:
            name, script, tmpl = POSITIONS[j]
            cases.append({'expr': text, 'pred': pred, 'api': real, 'pos': name, 'script': script, 'comp': comp,
                          'src': render(tmpl, text)})
    fi, fo = os.path.join(sd, 'lint_in.jsonl'), os.path.join(sd, 'lint_out.jsonl')
    vplib.write_jsonl(fi, [{'id': i, 'src': c['src']} for i, c in enumerate(cases)])
    vplib.run_harness(['untrusted-lint', fi, fo], timeout=3000)
    outs = vplib.read_jsonl(fo)
    same_as_api = script_reported = comp_script_reported = 0
    for c, o in zip(cases, outs):
        if (o.get('err') or '').startswith('panic'):
            lint_panic(ck, sd, fs, c, o['err'])
            continue
        if o.get('err'):
            raise Inconclusive('Lint failed on a rendered workflow: %s\n%s' % (o['err'], c['src']))
        tolerant = c['comp'] or c['pos'] in TOLERANT_POS      # the rendering holds a semantic error of its own
        if [d for d in o['other'] if not (tolerant and d['kind'] == 'expression')]:
            raise Inconclusive('rendered workflow has unrelated diagnostics: %r in\n%s' % (o['other'][:2], c['src']))
        if c['comp'] and c['script'] and not o['other']:
            raise Inconclusive('companion defect draws no diagnostic through Linter.Lint:\n%s' % c['src'])
        got = bag(o['reps'])
        if c['script'] and c['comp'] and got:
            comp_script_reported += 1
        if c['script'] and got:
            script_reported += 1
        if c['script']:
            # relation between two real outputs: the script position reports what the checker reports at API level
            if got != bag(c['api']):
                fs.add('lint:%s' % c['pos'], c['expr'],
                       'script position %s: expression %r: Linter.Lint reports %s, the semantics checker with the untrusted '
                       'checker enabled reports %s (predicted %s)' % (c['pos'], c['expr'], got, bag(c['api']), bag(c['pred'])),
                       {'kind': 'lint', 'pos': c['pos'], 'script': True, 'expr': c['expr'], 'src': c['src'],
                        'expected': bag(c['api']), 'observed': got})
            elif got != bag(c['pred']):
                same_as_api += 1      # the API-level finding reproduced end to end (reported once, at API level)
        elif got:
            fs.add('lint:nonscript:%s' % c['pos'], c['expr'],
                   'non-script position %s: expression %r is reported as untrusted input: %s' % (c['pos'], c['expr'], got),
                   {'kind': 'lint', 'pos': c['pos'], 'script': False, 'expr': c['expr'], 'src': c['src'], 'expected': [],
                    'observed': got})
    ck.cov['evaluations'] += len(cases)
    ck.cov['lint_renderings'] = len(cases)
    ck.cov['lint_positions'] = [p[0] for p in POSITIONS]
    ck.cov['lint_script_renderings_reported'] = script_reported
    ck.cov['lint_script_renderings_with_companion_defect_reported'] = comp_script_reported
    if not comp_script_reported:
        ck.c11_guards.append('no script rendering with a companion defect was reported')
    ck.cov['lint_renderings_per_position'] = {p[0]: sum(1 for c in cases if c['pos'] == p[0]) for p in POSITIONS}
    if not script_reported:
        ck.c11_guards.append('no rendered script position was reported at all: the renderings do not bind to the rule')
    if same_as_api:
        ck.cov['lint_renderings_reproducing_api_level_findings'] = same_as_api
    ck.sample({'workflow': cases[0]['src'], 'position': cases[0]['pos'], 'expected_reports': cases[0]['pred']})


def lint_nonscript_part(ck, sd, fs, rng, pool, per_pos):
    """Every non-script position of NS_POS with per_pos different expressions that the real checker
    reports in a script position.  Expressions are restricted to the `github` context so that
    they are usable where `matrix` is not available.  Other diagnostics at the position (type of a
    number/bool field, template type ...) are tolerated: only the absence of untrusted-input reports is
    demanded.  A probe per position (an undefined property of `github`) shows the position is checked at all."""
    cand = [x for x in pool if x[2] and x[1] == x[2] and 'matrix' not in x[0] and not x[3]]
    if len(cand) < 50:
        raise Inconclusive('only %d reported expressions without `matrix` to render into non-script positions' % len(cand))
    rng.shuffle(cand)
    cases = [{'pos': None, 'expr': '', 'probe': False, 'src': ns_render(None, '')}]
    k = 0
    for pos in NS_TEST:
        cases.append({'pos': pos, 'expr': 'github.c11_probe_undefined', 'probe': True,
                      'src': ns_render(pos, 'github.c11_probe_undefined')})
        for _ in range(per_pos):
            text, pred, real, _ = cand[k % len(cand)]
            k += 1
            cases.append({'pos': pos, 'expr': text, 'probe': False, 'api': real, 'src': ns_render(pos, text)})
    fi, fo = os.path.join(sd, 'ns_in.jsonl'), os.path.join(sd, 'ns_out.jsonl')
    vplib.write_jsonl(fi, [{'id': i, 'src': c['src']} for i, c in enumerate(cases)])
    vplib.run_harness(['untrusted-lint', fi, fo], timeout=3000)
    outs = vplib.read_jsonl(fo)
    tolerated = {}
    for c, o in zip(cases, outs):
        if (o.get('err') or '').startswith('panic') and c['pos'] is not None:
            lint_panic(ck, sd, fs, c, o['err'])
            continue
        if o.get('err'):
            raise Inconclusive('Lint failed on a rendered workflow (%s): %s' % (c['pos'], o['err']))
        if c['pos'] is None:
            if o['reps'] or o['other'] or o['tmpl']:
                raise Inconclusive('the base workflow of the non-script positions does not lint clean: %r' % (o['other'][:3],))
            continue
        if c['probe']:
            if not any('c11_probe_undefined' in d['msg'] for d in o['other']):
                raise Inconclusive('position %s is not bound: an undefined property placed there draws no diagnostic (%r)'
                                   % (c['pos'], o['other'][:2]))
            continue
        for d in o['other']:
            if d['kind'] != 'expression':
                raise Inconclusive('position %s: unrelated diagnostic %r in\n%s' % (c['pos'], d, c['src']))
            key = re.sub(r'"[^"]*"', '"_"', d['msg'])[:70]
            tolerated[key] = tolerated.get(key, 0) + 1
        got = bag(o['reps'])
        if got:
            fs.add('lint:nonscript:%s' % c['pos'], c['expr'],
                   'non-script position %s: expression %r is reported as untrusted input: %s' % (c['pos'], c['expr'], got),
                   {'kind': 'lint', 'pos': c['pos'], 'script': False, 'expr': c['expr'], 'src': c['src'], 'expected': [],
                    'observed': got})
    ck.cov['evaluations'] += len(cases)
    ck.cov['nonscript_positions'] = NS_TEST
    ck.cov['nonscript_renderings'] = len(cases)
    ck.cov['nonscript_expressions_per_position'] = per_pos
    ck.cov['nonscript_tolerated_other_diagnostics'] = dict(sorted(tolerated.items(), key=lambda kv: -kv[1])[:6])
    ck.sample({'workflow': cases[-1]['src'], 'position': cases[-1]['pos'], 'expected_reports': []})


# ------------------------------------------------------------------------------ concurrency / reuse
def concurrent_input(sd, rng, pool, nfiles=12, steps=6, nexpr=64, reps=7):
    good = [x for x in pool if x[2] and x[1] == x[2] and not x[3]]
    rest = [x for x in pool if not x[2] and not x[3]]
    rng.shuffle(good)
    rng.shuffle(rest)
    if len(good) < nfiles * steps:
        raise Inconclusive('not enough reported expressions for the concurrency part')
    files = []
    for i in range(nfiles):
        body = HEAD
        for k in range(steps):
            e = good[i * steps + k][0]
            body += (POSITIONS[0][2] if k % 2 == 0 else POSITIONS[2][2]) % e
        files.append({'name': 'w%02d.yml' % i, 'src': body})
    exprs = [x[0] for x in good[nfiles * steps:nfiles * steps + nexpr * 3 // 4]] + [x[0] for x in rest[:nexpr // 4]]
    d = os.path.join(sd, 'conc')
    os.makedirs(d, exist_ok=True)
    return {'dir': d, 'files': files, 'exprs': exprs, 'reps': reps}


def concurrent_run(sd, inp, procs):
    """-> (mismatches, crash text or None, summary)"""
    d = os.path.join(sd, 'conc')
    os.makedirs(d, exist_ok=True)
    inp = dict(inp, dir=d, procs=procs)
    fi, fo = os.path.join(sd, 'conc_in.json'), os.path.join(sd, 'conc_out.json')
    json.dump(inp, open(fi, 'w'))
    if os.path.exists(fo):
        os.remove(fo)
    p = vplib.run_harness(['untrusted-concurrent', fi, fo], timeout=1200, check=False)
    if p.returncode != 0 or not os.path.exists(fo):
        err = p.stderr.decode('utf-8', 'replace')
        if re.search(r'^(panic:|fatal error:)', err, re.M):
            return [], err[:1500], None
        raise Inconclusive('harness untrusted-concurrent failed rc=%s: %s' % (p.returncode, err[-1500:]))
    out = json.load(open(fo))
    return out['mismatches'], None, out


def concurrency_part(ck, sd, fs, rng, pool, tier):
    """Two real outputs: per file / per expression, the untrusted reports when linted together with others in one
    Linter.LintFiles call (GOMAXPROCS 4, 8, 16), in sequence by one reused Linter / ExprSemanticsChecker, or by parallel
    checkers, equal the reports of the same file / expression handled alone by fresh objects."""
    inp = concurrent_input(sd, rng, pool, reps=7 if tier == 'quick' else 20)
    total = 0
    for procs in (4, 8, 16):
        mism, crash, out = concurrent_run(sd, inp, procs)
        if crash:
            # a crash must reproduce before it counts
            again = [concurrent_run(sd, inp, procs)[1] for _ in range(2)]
            if not any(again):
                raise Inconclusive('the harness crashed once in the concurrency part and not again:\n' + crash)
            fs.add('concurrency:crash', 'GOMAXPROCS=%d' % procs,
                   'linting %d files with untrusted reads in one Linter.LintFiles call (GOMAXPROCS=%d) crashes the process '
                   '(reproduced %d of 3 times): nothing is reported. %s' % (len(inp['files']), procs, 1 + sum(1 for a in again if a),
                                                                           crash.splitlines()[0]),
                   {'kind': 'concurrent', 'input': inp, 'procs': procs})
            continue
        if out['files_reported'] != len(inp['files']):
            raise Inconclusive('concurrency part: only %d of %d files are reported when linted alone' % (out['files_reported'], len(inp['files'])))
        total += out['reps']
        for m in mism:
            fs.add('concurrency:%s' % m['mode'], m['item'],
                   '%s (GOMAXPROCS=%d, repetition %d): %s gets the untrusted reports [%s]; alone, with fresh objects, it gets [%s]'
                   % ({'lintfiles': 'one Linter.LintFiles call over %d files' % len(inp['files']),
                       'linter-reuse': 'one Linter reused for several files in sequence',
                       'checker-reuse': 'one ExprSemanticsChecker reused for several expressions in sequence',
                       'api-parallel': 'fresh ExprSemanticsCheckers run in parallel goroutines'}[m['mode']],
                      procs, m['rep'], m['item'], m['got'], m['want']),
                   {'kind': 'concurrent', 'input': inp, 'procs': procs, 'mode': m['mode']})
    ck.cov['concurrency'] = {'files_per_LintFiles_call': len(inp['files']), 'LintFiles_repetitions': total,
                             'expressions': len(inp['exprs']), 'gomaxprocs': [4, 8, 16],
                             'modes': ['lintfiles', 'linter-reuse', 'checker-reuse', 'api-parallel']}
    ck.cov['evaluations'] += total * len(inp['files']) + total * len(inp['exprs'])


def verify_alone(ck, sd, fs):
    """A finding of the API level counts only if its simplest input fails again when it is executed alone (one
    expression, one goroutine); otherwise the first observation depended on what ran at the same time."""
    dropped = 0
    for site in list(fs.by_site):
        text, what, replay = fs.by_site[site]['best']
        if replay.get('kind') not in ('api', 'lint'):
            continue
        if replay_dict(replay, sd) == 0:
            dropped += fs.by_site[site]['n']
            del fs.by_site[site]
    return dropped


# ------------------------------------------------------------------------------------- trace
def trace_part(ck, sd, fs, documented, n, tier):
    docf = os.path.join(sd, 'documented.json')
    json.dump(documented, open(docf, 'w'))
    trace, stats = os.path.join(sd, 'trace.ndjson'), os.path.join(sd, 'stats.json')
    vplib.run_harness(['untrusted-random', docf, str(n), '8', str(vplib.seed()), trace, stats], timeout=3000)
    st = json.load(open(stats))
    lines = open(trace).read().splitlines()
    if len(lines) < n // 2:
        raise Inconclusive('random generator produced only %d of %d applicable expressions: %r' % (len(lines), n, st))
    t = vplib.run_tlc('UntrustedTrace', 'UntrustedTrace.cfg', workers=1, files={'trace.ndjson': '\n'.join(lines) + '\n'},
                      timeout=3400, name='trace', heap='3g' if tier == 'thorough' else None)
    ck.add_tlc('UntrustedTrace: %d random expressions (operator depth <= 8, tree depth <= %d) recorded from the real code'
               % (len(lines), st.get('max_tree_depth', 0)), t)
    cnt, mism, drift, dev = parse_mism(t.out)
    if cnt != len(lines):
        raise Inconclusive('trace validation read %d of %d records' % (cnt, len(lines)))
    devs = set(dev)
    items = []
    for idx in mism:
        rec = json.loads(lines[idx - 1])
        items.append({'t': rec['t'], 'real': norm(rec['r']), 'dev': idx in devs, 'verdict': 'violation'})
    confirm_dev(ck, sd, items, 'confirm-trace')
    for it in items:
        api_violation(fs, it, None, 'random')
    only_drift = [i for i in drift if i not in set(mism)]
    if only_drift:
        rec = json.loads(lines[only_drift[0] - 1])
        ck.note('model drift: %d recorded executions satisfy the property but differ from the automaton (order of the '
                'reports), e.g. %r -> %s' % (len(only_drift), rec['t'], rec['r']))
        ck.cov['model_drift_records'] = ck.cov.get('model_drift_records', 0) + len(only_drift)
    ck.cov['traces_validated_against_impl'] += len(lines)
    ck.cov['evaluations'] += len(lines)
    ck.cov['random_generator'] = st
    ck.sample({'trace_record': {'t': json.loads(lines[-1])['t'], 'r': json.loads(lines[-1])['r']}})
    if tier == 'thorough':
        # binding self-test: a corrupted record must be rejected
        bad = set(mism)
        k = next((i for i in range(1, len(lines) + 1) if i not in bad and json.loads(lines[i - 1])['r']), None)
        if k is None:
            raise Inconclusive('binding self-test: no recorded execution with a report')
        lo = max(1, k - 50)
        part = lines[lo - 1:k + 50]
        rec = json.loads(part[k - lo])
        rec['r'] = rec['r'][1:]
        part[k - lo] = json.dumps(rec)
        expect = sorted([i - lo + 1 for i in bad if lo <= i < lo + len(part)] + [k - lo + 1])
        t2 = vplib.run_tlc('UntrustedTrace', 'UntrustedTrace.cfg', workers=1, files={'trace.ndjson': '\n'.join(part) + '\n'},
                           name='selftest', timeout=600)
        _, m2, _, _ = parse_mism(t2.out)
        ck.cov['binding_selftest'] = 'rejected' if m2 == expect else 'NOT rejected: %r, expected %r' % (m2, expect)
        if m2 != expect:
            raise Inconclusive('binding self-test failed: corrupted record not rejected')


# ------------------------------------------------------------------------------------- replay
def replay(path):
    return replay_dict(json.load(open(path))['replay'], vplib.subdir('c11r'))


def replay_dict(rp, sd):
    if rp['kind'] == 'concurrent':
        bad = 0
        for _ in range(3):
            mism, crash, _ = concurrent_run(sd, rp['input'], rp['procs'])
            if crash:
                print('the process crashed: ' + crash.splitlines()[0])
            for m in mism[:5]:
                print('%s rep %s: %s got [%s] alone [%s]' % (m['mode'], m['rep'], m['item'], m['got'], m['want']))
            bad += 1 if (crash or mism) else 0
        return 1 if bad else 0
    if rp['kind'] == 'lint' and rp.get('script') is None:
        fi, fo = os.path.join(sd, 'i.jsonl'), os.path.join(sd, 'o.jsonl')
        vplib.write_jsonl(fi, [{'id': 0, 'src': rp['src']}])
        vplib.run_harness(['untrusted-lint', fi, fo])
        o = vplib.read_jsonl(fo)[0]
        print('Lint: %s' % (o.get('err') or 'no panic'))
        return 1 if (o.get('err') or '').startswith('panic') else 0
    if rp['kind'] == 'lint':
        fi, fo = os.path.join(sd, 'i.jsonl'), os.path.join(sd, 'o.jsonl')
        vplib.write_jsonl(fi, [{'id': 0, 'src': rp['src']}])
        vplib.run_harness(['untrusted-lint', fi, fo])
        o = vplib.read_jsonl(fo)[0]
        got = bag(o['reps'])
        if rp['script']:
            api = bag(real_run(sd, [rp['expr']])[0]['reps'])
            print('position %s: Lint reports %s, API level reports %s' % (rp['pos'], got, api))
            return 0 if got == api else 1
        print('non-script position %s: Lint reports %s' % (rp['pos'], got))
        return 1 if got else 0
    ck = vplib.Check('C11', LEVEL, 'replay')
    its = judge(ck, sd, [{'t': rp['expr']}], 'replay', name='replay')
    it = its[0]
    print('expression %r: real reports %s -> %s%s' % (rp['expr'], it['real'], it['verdict'],
                                                     ' (explained by Dev_IndexLitCase)' if it.get('dev') else ''))
    return 1 if it['verdict'] in ('violation', 'panic') else 0
