"""EXT03 - the command line: one invocation of the actionlint command (extension; not one of the 20 listed properties).

Flags (-oneline, -format, -ignore (repeatable), -color / -no-color, -shellcheck= / -pyflakes=, -config-file,
-stdin-filename, -init-config, -version, -verbose / -debug, -h), arguments (none = repository, files, - = stdin, both),
-> mode -> what is read -> exit status {0, 1, 2, 3} and which stream carries what.

E: TLC checks Command.tla: for every command line of the bounded universe (flag items and operands grown token by token,
   cwd / stdin varied where they matter) the state machine of one invocation (package flag token by token -> -version ->
   NewLinter -> mode -> init / repo / stdin / files -> exit) with no deviation enabled yields exactly the observable the
   declarative layer (man page SYNOPSIS / FLAGS / EXIT STATUS, docs/usage.md, `actionlint -h`) demands (Agree); the code
   as read differs only where a single named deviation explains it (Confined); the documented exit status table holds on
   the declarative outcome (ExitTable); the machine terminates (Terminates); table sanity (TablesOK).
G: the complete state space is dumped; every vector is run with the BUILT BINARY: the argument vector rendered token by
   token, in a fresh directory layout of the cwd kind, with the stdin content, stand-in shellcheck / pyflakes on PATH.
   Exit status, stdout (what it carries, format, colour, file and class of every diagnostic in order), stderr (usage text,
   flag error, fatal message, verbose / debug log lines, inputs named by the verbose log) and the generated
   configuration file must equal the prediction `exp` of the declarative layer.
   Guards: the flag set printed by the real `actionlint -h` must be the specification's (violation otherwise); the
   man page FLAGS section and the exit status table of docs/usage.md must be what the specification transcribes
   (inconclusive otherwise).

A disagreement between the real binary and the documentation is reported with a precise site (`cmd:Dev_...` when the real
observable equals what the spec predicts for the code as read under a named deviation).  Entries of OBSERVATIONS turn such
a site into a note (exit 0); the table is EMPTY unless the project owner decides otherwise.
"""
import collections
import json
import os
import re

import vplib
from vplib import Inconclusive

LEVEL = 'model_checking'

# site -> free text.  A disagreement whose site is listed here is printed as a note instead of a violation.
OBSERVATIONS = {
    'cmd:Dev_BadValueExit3': 'an invalid VALUE of -ignore / -format (bad regexp, bad template) exits 3 (fatal) where usage.md and the man page '
                             'reserve 2 for an invalid command line option; which status is meant for option values is the maintainers\' call, '
                             'recorded as observation',
}

CFG = {'quick': 'Command_quick.cfg', 'thorough': 'Command_thorough.cfg'}
MAX_REPLAY = 8

DIRTY = '''on: push
jobs:
  test:
    runs-on: linux-xyz
    steps:
      - run: echo ${{ undefined_var }}
      - run: import os
        shell: python
'''
CLEAN = '''on: push
jobs:
  test:
    runs-on: ubuntu-latest
    steps:
      - uses: actions/checkout@v4
'''
HALF = CLEAN.replace('ubuntu-latest', 'linux-xyz')
BROKEN = 'on: push\njobs:\n  test: [\n'
CONTENT = {'dirty': DIRTY, 'clean': CLEAN, 'broken': BROKEN}
SHELLCHECK = ('#!/bin/sh\ncat >/dev/null\necho \'[{"file":"-","line":1,"endLine":1,"column":1,"endColumn":2,"level":"error",'
              '"code":1000,"message":"stand-in shellcheck","fix":null}]\'\n')
PYFLAKES = '#!/bin/sh\ncat >/dev/null\necho "<stdin>:1:1: stand-in pyflakes"\n'
GOOD_CFG = 'paths:\n  "**":\n    ignore:\n      - \'undefined variable "undefined_var"\'\n'
BROKEN_CFG = 'paths: [\n'
# diagnostic class <- beginning of the message
CLASSES = [('label "linux-xyz" is unknown', 'A'), ('shellcheck reported issue in this script: SC1000', 'SC'),
           ('undefined variable "undefined_var"', 'B'), ('pyflakes reported issue in this script', 'PY'),
           ('could not parse as YAML', 'Y')]
FATAL = [('invalid regular expression for ignore pattern', 'bad-ignore'), ('to format error messages', 'bad-format'),
         ('could not read config file', 'config-read'), ('could not parse config file', 'config-parse'),
         ('project is not found', 'init-no-project'), ('no project was found', 'no-project'),
         ('no YAML file was found', 'no-yaml'), ('could not read "', 'read')]
FLAGERR = ('flag provided but not defined', 'invalid boolean value', 'flag needs an argument', 'bad flag syntax')
VALUES = {'fmt:json': '{{json .}}', 'fmt:empty': '', 'fmt:badtpl': '{{', 'fmt:noph': 'x',
          'ign:A': 'label "linux-xyz" is unknown', 'ign:all': '.', 'ign:none': 'zz no such message', 'ign:bad': '(',
          'sc:missing': '@ROOT@/nowhere/shellcheck', 'cfg:good': '@ROOT@/cfg/good.yaml', 'cfg:missing': '@ROOT@/cfg/none.yaml',
          'cfg:broken': '@ROOT@/cfg/broken.yaml', 'name:in.yml': 'in.yml',
          'pos:d': '.github/workflows/a.yml', 'pos:c': '.github/workflows/clean.yml', 'pos:m': 'nofile.yml', 'pos:x': '.github',
          'true': 'true', 'false': 'false', 'T': 'T', 'maybe': 'maybe', '': ''}
WF = 'w/.github/workflows/'
LABELS = {WF + 'a.yml': 'a.yml', WF + 'b.yaml': 'b.yaml', WF + 'clean.yml': 'clean.yml', WF + 'sub/d.yml': 'sub/d.yml', WF + 'c.txt': 'c.txt',
          'w/nofile.yml': 'nofile.yml', 'w/-': '-', 'w/-oneline': '-oneline', 'w/.github': '.github'}
CWD_DIR = {'repo': 'w', 'sub': 'w/.github/workflows/sub', 'clean': 'w', 'empty': 'w', 'norepo': 'w'}
ANSI = re.compile(r'\x1b\[[0-9;]*m')
HEADER = re.compile(r'^(.*?):(\d+):(\d+): (.*) \[([a-z-]+)\]$')
SNIPPET = re.compile(r'^\s*\d*\s*\|')


def render_value(x):
    if x not in VALUES:
        raise Inconclusive('value id %r has no rendering' % x)
    return VALUES[x]


def render_token(t):
    if t['d'] == 0:
        return render_value(t['v'])
    return '-' * t['d'] + t['n'] + ('=' + render_value(t['v']) if t['e'] else '')


def layout_of(cwd):
    files = {'cfg/good.yaml': GOOD_CFG, 'cfg/broken.yaml': BROKEN_CFG}
    dirs = ['w/.git']
    if cwd in ('repo', 'sub'):
        files.update({WF + 'a.yml': DIRTY, WF + 'b.yaml': HALF, WF + 'clean.yml': CLEAN, WF + 'c.txt': DIRTY, WF + 'sub/d.yml': DIRTY})
    elif cwd == 'clean':
        files[WF + 'a.yml'] = CLEAN
    elif cwd == 'empty':
        files[WF + 'c.txt'] = DIRTY
    elif cwd == 'norepo':
        dirs = ['w']
        files['w/x.yml'] = DIRTY
    else:
        raise Inconclusive('unknown cwd kind %r' % cwd)
    return dirs, files


TOOLS = {}


def tools_dir(sd):
    """stand-in shellcheck / pyflakes, written once by this process before any run"""
    d = os.path.join(sd, 'tools')
    if TOOLS.get('dir') != d:
        os.makedirs(d, exist_ok=True)
        for name, text in (('shellcheck', SHELLCHECK), ('pyflakes', PYFLAKES)):
            with open(os.path.join(d, name), 'w') as f:
                f.write(text)
            os.chmod(os.path.join(d, name), 0o755)
        TOOLS['dir'] = d
    return d


def scenario_of(v, tools):
    dirs, files = layout_of(v['cwd'])
    return {'dirs': dirs, 'files': files, 'exec': [],
            'runs': [{'cwd': CWD_DIR[v['cwd']], 'argv': [render_token(t) for t in v['toks']], 'stdin': CONTENT[v['stdin']],
                      'path': tools}],
            'readback': ['w/.github/actionlint.yaml']}


def label_of(path, cwd_dir):
    if path in ('<stdin>', 'in.yml'):
        return path
    p = path.replace('@ROOT@/', '') if path.startswith('@ROOT@/') else os.path.normpath(os.path.join(cwd_dir, path))
    if p not in LABELS:
        raise Inconclusive('file name %r (-> %r) in the output is not a file of the layout' % (path, p))
    return LABELS[p]


def class_of(msg):
    for frag, c in CLASSES:
        if msg.startswith(frag):
            return c
    raise Inconclusive('diagnostic message not understood: %r' % msg[:200])


def payload(raw, cwd_dir):
    """what stdout is meant to carry: -> {out, fmt, colored, names, classes}, or None when the text is something else"""
    text = ANSI.sub('', raw)
    p = {'out': 'none', 'fmt': 'none', 'colored': text != raw, 'names': [], 'classes': []}
    lines = text.splitlines()
    if not text.strip():
        return p
    if len(lines) == 3 and lines[1].startswith('installed by') and lines[2].startswith('built with'):
        p['out'] = 'version'
        return p
    if len(lines) == 1 and lines[0].startswith('Config file was generated at "@ROOT@/w/.github/actionlint.yaml"'):
        p['out'] = 'generated'
        return p
    if text.lstrip().startswith('[{') or text.strip() == '[]':
        try:
            arr = json.loads(text)
        except ValueError:
            return None
        p['out'], p['fmt'] = 'diags', 'json'
        for d in arr:
            p['names'].append(label_of(d['filepath'], cwd_dir))
            p['classes'].append(class_of(d['message']))
        return p
    p['out'] = 'diags'
    snippets = 0
    for ln in lines:
        m = HEADER.match(ln)
        if m:
            p['names'].append(label_of(m.group(1), cwd_dir))
            p['classes'].append(class_of(m.group(4)))
        elif SNIPPET.match(ln):
            snippets += 1
        else:
            return None
    if not p['names']:
        return None
    if snippets and snippets != 3 * len(p['names']):
        raise Inconclusive('pretty output with %d snippet lines for %d diagnostics' % (snippets, len(p['names'])))
    p['fmt'] = 'pretty' if snippets else 'oneline'
    return p


def messages(text, cwd_dir):
    """what stderr is meant to carry: -> {usage, flagerr, fatal, verbose, debug, read, rest = lines that are none of these}"""
    m = {'usage': False, 'flagerr': False, 'fatal': 'none', 'verbose': 'no', 'debug': 'no', 'read': [], 'rest': []}
    elines = text.splitlines()
    if any(ln.startswith('Usage: actionlint') for ln in elines):
        m['usage'] = True
        elines = elines[:next(i for i, ln in enumerate(elines) if ln.startswith('Usage: actionlint'))]
    # log lines of files linted concurrently interleave (prefix and text are written separately): a log line may have lost
    # its prefix to the line before it
    logging = any(ln.startswith('verbose: ') or re.match(r'^\[[A-Za-z]+\] ', ln) for ln in elines)
    for ln in elines:
        mm = re.match(r'^(?:verbose: )*Linting (\S+)$', ln)
        if mm and logging:
            m['verbose'] = 'yes'
            m['read'].append(label_of(mm.group(1), cwd_dir))
            continue
        if ln.startswith('verbose: '):
            m['verbose'] = 'yes'
            continue
        if re.match(r'^\[[A-Za-z]+\] ', ln):
            m['debug'] = 'yes'
            continue
        if any(ln.startswith(f) for f in FLAGERR):
            m['flagerr'] = True
            continue
        hit = [c for frag, c in FATAL if frag in ln]
        if hit:
            if m['fatal'] != 'none':
                raise Inconclusive('two fatal messages: %r' % text[:400])
            m['fatal'] = hit[0]
            continue
        if logging:
            continue                # continuation lines of multi-line debug output, log lines that lost their prefix
        if ln.strip():
            m['rest'].append(ln)
    m['read'] = sorted(set(m['read']))
    return m


def observe(res, sc):
    """observable of one real run (the record shape of Command.tla: Obs)"""
    run = res['runs'][0]
    if run.get('timeout') or run['rc'] < 0:
        raise Inconclusive('actionlint did not finish: %r' % {k: run[k] for k in ('rc', 'timeout', 'err') if k in run})
    cwd_dir = sc['runs'][0]['cwd']
    o = {'exit': run['rc'], 'created': 'w/.github/actionlint.yaml' in res['files'], 'stray': 'none'}
    p = payload(run['stdout'], cwd_dir)
    if p is None:
        # not what stdout carries: is it what stderr is meant to carry?
        m = messages(run['stdout'], cwd_dir)
        if m['rest'] or not (m['usage'] or m['flagerr'] or m['fatal'] != 'none' or m['verbose'] == 'yes' or m['debug'] == 'yes'):
            raise Inconclusive('stdout not understood: %r' % run['stdout'][:300])
        o['stray'] = 'messages-on-stdout'
        p = payload('', cwd_dir)
    o.update(p)
    m = messages(run['stderr'], cwd_dir)
    if m['rest']:
        q = payload('\n'.join(m['rest']) + '\n', cwd_dir)
        if q is None or q['out'] == 'none':
            raise Inconclusive('stderr line not understood: %r' % m['rest'][0][:200])
        o['stray'] = q['out'] + '-on-stderr'
    del m['rest']
    o.update(m)
    return o


FIELDS = ('exit', 'out', 'fmt', 'colored', 'names', 'classes', 'usage', 'flagerr', 'fatal', 'verbose', 'debug', 'read', 'created', 'stray')


def differing(exp, obs, with_fatal_class=True):
    """names of the observable fields in which a real run differs from a prediction"""
    out = []
    for f in FIELDS:
        e, r = exp[f], obs[f]
        if f in ('verbose', 'debug'):
            if e != 'any' and e != r:
                out.append(f)
        elif f == 'read':
            # the verbose log names the inputs; only comparable when the log is predicted and present and the run
            # is predicted to complete (which readable files are linted before a fatal error is a matter of timing)
            if exp['verbose'] == 'yes' and obs['verbose'] == 'yes' and exp['exit'] in (0, 1) and sorted(e) != sorted(r):
                out.append(f)
        elif f == 'fatal':
            if e != r and (with_fatal_class or 'none' in (e, r)):
                out.append(f)
        elif e != r:
            out.append(f)
    return out


def run_vectors(sd, vecs, tag):
    if not vecs:
        return []
    binary = vplib.build_actionlint()
    fin, fout = os.path.join(sd, tag + '-in.jsonl'), os.path.join(sd, tag + '-out.jsonl')
    scs = []
    for i, t in enumerate(vecs):
        sc = scenario_of(t['v'], tools_dir(sd))
        sc['id'] = i
        scs.append(sc)
    vplib.write_jsonl(fin, scs)
    vplib.run_harness(['px-run', binary, os.path.join(sd, tag + '-layouts'), fin, fout], timeout=2400)
    res = vplib.read_jsonl(fout)
    if len(res) != len(vecs) or any(o['id'] != i for i, o in enumerate(res)):
        raise Inconclusive('px-run returned %d results for %d scenarios' % (len(res), len(vecs)))
    outs = []
    for sc, r in zip(scs, res):
        if r.get('err'):
            raise Inconclusive('px-run: %s' % r['err'])
        outs.append({'obs': observe(r, sc), 'argv': sc['runs'][0]['argv'], 'cwd': sc['runs'][0]['cwd'],
                     'stdout': r['runs'][0]['stdout'][:600], 'stderr': r['runs'][0]['stderr'][:600]})
    return outs


def check_standins(sd):
    """the stand-in tools must work on this machine, independently of actionlint"""
    fin, fout = os.path.join(sd, 'standin-in.jsonl'), os.path.join(sd, 'standin-out.jsonl')
    td = tools_dir(sd)
    vplib.write_jsonl(fin, [{'id': 0, 'dirs': ['w'], 'files': {}, 'exec': [], 'readback': [],
                             'runs': [{'cwd': 'w', 'argv': [os.path.join(td, 'shellcheck')], 'stdin': 'x', 'path': td},
                                      {'cwd': 'w', 'argv': [os.path.join(td, 'pyflakes')], 'stdin': 'x', 'path': td}]}])
    vplib.run_harness(['px-run', '/bin/sh', os.path.join(sd, 'standin-layouts'), fin, fout])
    r = vplib.read_jsonl(fout)[0]
    ok = (not r.get('err') and len(r['runs']) == 2 and r['runs'][0]['rc'] == 0 and r['runs'][0]['stdout'].startswith('[{')
          and r['runs'][1]['rc'] == 0 and r['runs'][1]['stdout'].startswith('<stdin>:1:1'))
    if not ok:
        raise Inconclusive('the stand-in shellcheck / pyflakes do not run here: %r' % r)


def parse_help(text):
    """flag name -> kind ('bool' / 'value') and default, from the text printed by -h"""
    flags, last = {}, None
    for ln in text.splitlines():
        m = re.match(r'^  -([a-z-]+)( (string|value))?$', ln)
        if m:
            last = m.group(1)
            flags[last] = {'kind': 'value' if m.group(2) else 'bool', 'default': ''}
            continue
        m = re.search(r'\(default "([^"]*)"\)$', ln)
        if m and last:
            flags[last]['default'] = m.group(1)
    return flags


def guards(ck, sd, header, outs_by_item):
    repo = vplib.REPO
    # (1) real `actionlint -h` against the specification's flag set
    help_text = outs_by_item.get('h')
    if help_text is None:
        raise Inconclusive('no vector with the single flag -h')
    real = parse_help(help_text)
    spec = {f: 'bool' for f in header['boolflags']}
    spec.update({f: 'value' for f in header['valueflags']})
    dfl = {'shellcheck': header['defaults']['shellcheck'], 'pyflakes': header['defaults']['pyflakes'],
           'stdin-filename': header['defaults']['stdinname']}
    real_kinds = {f: x['kind'] for f, x in real.items()}
    real_dfl = {f: x['default'] for f, x in real.items() if x['default']}
    if real_kinds != spec or real_dfl != dfl:
        ck.violation('cmd:flag-set', 'the flags printed by `actionlint -h` are %s with defaults %s, the documentation (man page '
                     'FLAGS) has %s with defaults %s' % (json.dumps(real_kinds, sort_keys=True), json.dumps(real_dfl, sort_keys=True),
                                                         json.dumps(spec, sort_keys=True), json.dumps(dfl, sort_keys=True)),
                     {'kind': 'flag-set', 'spec': spec, 'defaults': dfl})
    if not help_text.startswith('Usage: actionlint [FLAGS]'):
        raise Inconclusive('usage line of -h not understood: %r' % help_text[:200])
    # (2) the documents the declarative layer transcribes
    man = open(os.path.join(repo, 'man', 'actionlint.1.ronn')).read()
    sect = man[man.index('## FLAGS'):man.index('## DOCUMENTS')]
    mflags = {}
    for m in re.finditer(r'^  \* `-([a-z-]+)`(, `-h`)?( <[A-Z]+>)?:', sect, re.M):
        mflags[m.group(1)] = 'value' if m.group(3) else 'bool'
    mhelp = mflags.pop('help', None)
    if mflags != spec or mhelp != 'bool':
        raise Inconclusive('man/actionlint.1.ronn FLAGS no longer is what Command.tla transcribes: %s' % json.dumps(mflags, sort_keys=True))
    forms = re.findall(r'^`actionlint` \[<flags>\](.*?)(?:<br>)?$', man[man.index('## SYNOPSIS'):man.index('## DESCRIPTION')], re.M)
    if [f.strip() for f in forms] != ['', '<file>...', '-']:
        raise Inconclusive('man page SYNOPSIS changed: %r' % forms)
    usage = open(os.path.join(repo, 'docs', 'usage.md')).read()
    rows = re.findall(r'^\| `(\d)`\s+\| (.*?)\s*\|$', usage[usage.index('### Exit status'):], re.M)
    if [int(a) for a, _ in rows] != sorted(header['exits']) or 'invalid command line option' not in rows[2][1] \
            or 'fatal error' not in rows[3][1]:
        raise Inconclusive('exit status table of docs/usage.md changed: %r' % rows)
    ck.cov['document_guards'] = 'flag set of `actionlint -h` = man page FLAGS = specification (%d flags); SYNOPSIS 3 forms; exit status table 0..3' % len(spec)


def site_of(t, o):
    if t['devs'] and not differing(t['asread'], o['obs']):
        return 'cmd:' + '+'.join(sorted(t['devs']))
    d = differing(t['exp'], o['obs'])
    if d == ['exit'] or 'exit' in d:
        return 'cmd:exit=%d(expected %d)%s' % (o['obs']['exit'], t['exp']['exit'], ''.join(',' + f for f in d if f != 'exit'))
    return 'cmd:' + ','.join(d)


def describe(t, o):
    d = differing(t['exp'], o['obs'])
    return ('cwd=%s (%s) stdin=%s argv=%s\n  differing fields %s: documentation (declarative layer) demands %s, the real binary gives %s\n'
            '  stdout: %r\n  stderr: %r' % (t['v']['cwd'], o['cwd'], t['v']['stdin'], json.dumps(o['argv']), d,
                                          json.dumps({f: t['exp'][f] for f in d}), json.dumps({f: o['obs'][f] for f in d}),
                                          o['stdout'][:300], o['stderr'][:300]))


def generate(ck, tier):
    r = vplib.run_tlc('Command', CFG[tier], dump='vectors', timeout=2400)
    ck.add_tlc('Command %s: Agree / Confined / ExitTable / Terminates / TablesOK on every command line of the universe' % tier, r)
    if r.violated:
        raise Inconclusive('specification Command.tla violates its invariant %s (model level)' % r.violated)
    ts = vplib.read_dump_json(os.path.join(r.dir, 'vectors.dump'))
    if len(ts) != r.distinct:
        raise Inconclusive('dump has %d states, TLC reported %d' % (len(ts), r.distinct))
    header = [t for t in ts if t.get('kind') == 'header']
    if len(header) != 1:
        raise Inconclusive('no header state in the dump')
    vecs = [t for t in ts if 'v' in t]
    vecs.sort(key=lambda t: (len(t['v']['toks']), t['v']['cwd'] != 'repo', t['v']['stdin'] != 'dirty', json.dumps(t['v'], sort_keys=True)))
    return header[0], vecs


def check_no_outer_repo(d):
    d = os.path.abspath(d)
    while True:
        if os.path.isdir(os.path.join(d, '.github', 'workflows')) and os.path.exists(os.path.join(d, '.git')):
            raise Inconclusive('scratch directory lies inside a repository with workflows: ' + d)
        p = os.path.dirname(d)
        if p == d:
            return
        d = p


def run(ck, tier):
    sd = vplib.subdir('ext03')
    check_no_outer_repo(sd)
    header, vecs = generate(ck, tier)
    check_standins(sd)
    outs = run_vectors(sd, vecs, 'vec')
    bad = [(t, o) for t, o in zip(vecs, outs) if differing(t['exp'], o['obs'], with_fatal_class=False)]
    if bad:
        # re-execute the disagreeing vectors on the real binary alone before they count
        again = run_vectors(sd, [t for t, _ in bad], 'again')
        still = [1 for (t, _), o in zip(bad, again) if differing(t['exp'], o['obs'], with_fatal_class=False)]
        if len(still) != len(bad):
            raise Inconclusive('%d of %d disagreeing runs did not reproduce on re-execution' % (len(bad) - len(still), len(bad)))
    by_item = {t['v']['items'][0]: o['stderr'] for t, o in zip(vecs, outs) if len(t['v']['items']) == 1 and not t['v']['pos']
               and t['v']['cwd'] == 'repo'}
    # the usage text is long: fetch it in full
    full = run_full_help(sd)
    by_item['h'] = full
    guards(ck, sd, header, by_item)

    groups = collections.OrderedDict()
    for t, o in bad:
        groups.setdefault(site_of(t, o), []).append((t, o))
    for site, items in groups.items():
        t, o = items[0]                                           # vectors are sorted by length: minimal input first
        what = '%d command line(s) disagree with the documentation; first:\n%s' % (len(items), describe(t, o))
        if site in OBSERVATIONS:
            ck.note('OBSERVATION %s (%d command lines): %s -- e.g. argv %s' % (site, len(items), OBSERVATIONS[site], json.dumps(o['argv'])))
            continue
        ck.violation(site, what, {'kind': 'vectors', 'devs': sorted(t['devs']), 'count': len(items),
                                  'vectors': [{'v': a['v'], 'exp': a['exp'], 'asread': a['asread'], 'devs': a['devs']}
                                              for a, _ in items[:MAX_REPLAY]],
                                  'argv': [b['argv'] for _, b in items[:MAX_REPLAY]],
                                  'observed': [b['obs'] for _, b in items[:MAX_REPLAY]]})

    # ---- model drift: which fatal message is printed when several options are unusable - never a violation
    drift = [(t, o) for t, o in zip(vecs, outs) if not differing(t['exp'], o['obs'], with_fatal_class=False)
             and differing(t['exp'], o['obs'])]
    for t, o in drift[:3]:
        ck.note('model drift: fatal message class %s, the model has %s for argv %s' % (o['obs']['fatal'], t['exp']['fatal'], json.dumps(o['argv'])))
    if drift:
        ck.cov['model_drift_runs'] = len(drift)

    # ---- vacuity guards
    if not ck.violations:
        for f in ('exit', 'out', 'fmt', 'fatal', 'verbose', 'debug'):
            want = {t['exp'][f] for t in vecs} - {'any'}
            seen = {o['obs'][f] for o in outs}
            if want - seen:
                raise Inconclusive('values %s of the observable field %s predicted but never observed' % (sorted(want - seen), f))
        for f in ('colored', 'usage', 'flagerr', 'created'):
            if {o['obs'][f] for o in outs} != {True, False}:
                raise Inconclusive('observable field %s is constant over the universe' % f)
    per_dev = collections.Counter(d for t in vecs for d in t['devs'])
    for d in header['devs']:
        if not per_dev.get(d):
            raise Inconclusive('named deviation %s has no witness in the universe' % d)
    unused = set(header['items']) - {i for t in vecs for i in t['v']['items']}
    if unused:
        raise Inconclusive('flag items %s never used by a vector' % sorted(unused))

    if tier == 'thorough' and vecs:
        # binding self-test: forged predictions must be rejected by the comparison
        i = next(k for k, t in enumerate(vecs) if t['exp']['exit'] == 1 and not differing(t['exp'], outs[k]['obs']))
        rej = 0
        for f, val in (('exit', 0), ('classes', vecs[i]['exp']['classes'][1:]), ('fmt', 'json'), ('fatal', 'read')):
            forged = dict(vecs[i]['exp'])
            forged[f] = val
            rej += 1 if differing(forged, outs[i]['obs']) else 0
        ck.cov['binding_selftest'] = 'rejected' if rej == 4 else 'NOT rejected'
        if rej != 4:
            raise Inconclusive('binding self-test failed: a forged prediction was not rejected')

    ck.cov['evaluations'] += len(vecs)
    ck.cov['traces_validated_against_impl'] += len(vecs)
    ck.cov['distinct_nontrivial'] += sum(1 for t in vecs if t['exp']['exit'] != 0)
    ck.cov['process_runs'] = len(vecs) + len(bad) + 3
    ck.cov['machine_steps'] = sum(t['steps'] for t in vecs)
    ck.cov['exit_statuses_predicted'] = {str(k): n for k, n in sorted(collections.Counter(t['exp']['exit'] for t in vecs).items())}
    ck.cov['exit_statuses_observed'] = {str(k): n for k, n in sorted(collections.Counter(o['obs']['exit'] for o in outs).items())}
    ck.cov['runs_by_cwd'] = dict(collections.Counter(t['v']['cwd'] for t in vecs))
    ck.cov['vectors_under_a_named_deviation'] = dict(per_dev)
    ck.cov['observations_table'] = sorted(OBSERVATIONS)
    ck.cov['rule'] = ('every state of Command.tla = one run of the built actionlint binary: argument vector rendered token by token, '
                      'fresh directory layout of the cwd kind, stdin content, stand-in shellcheck / pyflakes on PATH; exit status, '
                      'stdout (content kind, format, colour, file and class of every diagnostic in order), stderr (usage, flag error, '
                      'fatal message, verbose / debug lines, inputs named by the verbose log) and the generated configuration file '
                      'must equal the declarative prediction; non-trivial = non-zero exit status predicted')
    ck.cov['exhaustive'] = True
    for want in (1, 2, 3):
        for t, o in zip(vecs, outs):
            if t['exp']['exit'] == want and len(t['v']['toks']) >= 3:
                ck.sample({'cwd': t['v']['cwd'], 'stdin': t['v']['stdin'], 'argv': o['argv'], 'predicted': t['exp'], 'real': o['obs']})
                break
    ck.assumptions += [
        'declarative layer = man/actionlint.1.ronn (SYNOPSIS: three forms; FLAGS; EXIT STATUS), docs/usage.md and the text of '
        '`actionlint -h`; Go flag syntax (-f, --f, -f=v, -f v, `--` ends the flags, the first operand ends the flags)',
        'a flag given several times: the last one wins (-ignore accumulates); -no-color wins over -color; -format wins over '
        '-oneline; an empty -format is no format; -version wins over everything but a flag error / -h that precedes it',
        'help text, flag errors, fatal messages and log lines go to stderr; diagnostics, the version and the -init-config '
        'message go to stdout; nothing is printed on stdout when the command fails (exit 2 / 3), also not the diagnostics of '
        'the readable files of a multi-file run',
        '`-` together with other operands is the name of a file (the SYNOPSIS has three separate forms; the usage line of -h '
        '`[FLAGS] [FILES...] [-]` is reported separately)',
        'debug output includes the verbose output; which log lines precede a fatal error of a single unreadable file is not specified',
        'which fatal message is printed when several options are unusable is model drift, not part of the verdict',
        '-init-config ignores operands; shellcheck / pyflakes are stand-ins found through PATH; every run in a fresh layout',
    ]


def run_full_help(sd):
    binary = vplib.build_actionlint()
    fin, fout = os.path.join(sd, 'help-in.jsonl'), os.path.join(sd, 'help-out.jsonl')
    vplib.write_jsonl(fin, [{'id': 0, 'dirs': ['w'], 'files': {}, 'exec': [], 'readback': [],
                             'runs': [{'cwd': 'w', 'argv': ['-h'], 'stdin': '', 'path': ''}]}])
    vplib.run_harness(['px-run', binary, os.path.join(sd, 'help-layouts'), fin, fout])
    r = vplib.read_jsonl(fout)[0]
    return r['runs'][0]['stderr']


def replay(path):
    rp = json.load(open(path))['replay']
    sd = vplib.subdir('ext03r')
    check_no_outer_repo(sd)
    if rp.get('kind') == 'flag-set':
        real = parse_help(run_full_help(sd))
        kinds = {f: x['kind'] for f, x in real.items()}
        dfl = {f: x['default'] for f, x in real.items() if x['default']}
        print('actionlint -h:', json.dumps(kinds, sort_keys=True), json.dumps(dfl, sort_keys=True))
        print('specification:', json.dumps(rp['spec'], sort_keys=True), json.dumps(rp['defaults'], sort_keys=True))
        return 1 if kinds != rp['spec'] or dfl != rp['defaults'] else 0
    vecs = rp['vectors']
    outs = run_vectors(sd, vecs, 'replay')
    fails = 0
    for t, o in zip(vecs, outs):
        d = differing(t['exp'], o['obs'], with_fatal_class=False)
        print(describe(t, o))
        if d:
            fails += 1
    return 1 if fails else 0
