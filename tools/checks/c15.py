"""C15 - ignore patterns are an exact filter; results do not depend on the cwd.

E: TLC checks Filter.tla: the declarative filter is an order-preserving exact set difference, CLI and
   config patterns compose, the declarative result does not depend on cwd and spelling, the exit-status
   table is total, and the code-like (operational) layer agrees with it from the repository root.
   Filter_dev.cfg: the invariant "operational = declarative everywhere" is expected to be violated
   (the model-level picture of the cwd defect); only real runs decide.
G: every final state of the TLC state spaces is a run vector (files, cwd, spelling, -ignore patterns,
   `paths` configuration or broken configuration, flag fault) with the predicted surviving diagnostics
   per file (indices into the unfiltered list) and the accepted exit statuses.  The BUILT BINARY is run
   with exactly that cwd / argv in a generated directory layout; its stdout must be the unfiltered
   output of each file (a second real run, no patterns, no configuration) restricted to the predicted
   indices, in order, and its exit status must be accepted.
"""
import concurrent.futures
import json
import os
import re
import subprocess

import vplib
from vplib import Inconclusive

LEVEL = 'model_checking'

# the workflow every file of the layout holds: N = 5 diagnostics with distinct messages; emission (rule)
# order differs from position order, so the filter runs on a list that is sorted afterwards
WORKFLOW = '''on: push
jobs:
  test:
    runs-on: linux-xyz
    steps:
      - run: echo ${{ undefined_var }}
        id: dup
      - run: echo hi
        shell: fish9
        id: dup
      - run: echo ${{ matrix.foo }}
'''
# not YAML: the only diagnostic is the syntax error, no rule runs
WORKFLOW_Y = 'on: push\njobs:\n  test: [\n'
# diagnostics of the workflow parser only
WORKFLOW_P = 'on: push\nfoo: bar\njobs:\n  test:\n    runs-on: ubuntu-latest\n    steps:\n      - run: echo hi\n        bar: 1\n'
# message id k (1-based) <-> fragment = beginning of its message.  Ids 1..5: WORKFLOW in unfiltered output order,
# 6: WORKFLOW_Y, 7..8: WORKFLOW_P (Filter.tla: MsgsOf)
FRAGS = ['label "linux-xyz" is unknown', 'undefined variable "undefined_var"', 'shell name "fish9" is invalid',
         'step ID "dup" duplicates', 'property "foo" is not defined', 'could not parse as YAML',
         'unexpected key "foo" for "workflow" section', 'unexpected key "bar" for "step" section']
FILE_IDS = {'a': [1, 2, 3, 4, 5], 'l': [1, 2, 3, 4, 5], 's': [1, 2, 3, 4, 5], 'b': [1, 2, 3, 4, 5], 'o': [1, 2, 3, 4, 5], 'y': [6], 'p': [7, 8]}
TAIL = 24       # length of the message ending used by the "end" pattern form
MESSAGES = {}   # id -> full message, filled by baseline() from the real unfiltered output
NEVER = 'zz no such message (zz)'
MAX_PER_SITE = 4


def quote_meta(s):
    """regexp.QuoteMeta of Go."""
    return ''.join('\\' + c if c in '\\.+*?()|[]{}^$' else c for c in s)


def regex_of(p, anchor=False):
    """Rendering of a pattern record of Filter.tla.  Every fragment is the beginning of its message: "set" patterns
    on the command line are anchored with ^, those of the configuration are not."""
    if p['f'] == 'set':
        if not p['s']:
            return quote_meta(NEVER)
        return '|'.join(('^' if anchor else '') + quote_meta(FRAGS[i - 1]) for i in p['s'])
    if p['f'] == 'empty':
        return ''       # the empty regular expression: matches every message
    frag = FRAGS[p['k'] - 1]
    if p['f'] == 'icase':
        return '(?i)' + quote_meta(frag.swapcase())
    if p['f'] == 'wrongcase':
        return quote_meta(frag.swapcase())
    if p['f'] == 'start':
        return '^' + quote_meta(frag)
    if p['f'] == 'end':
        return quote_meta(MESSAGES[p['k']][-TAIL:]) + '$'
    if p['f'] == 'full':
        return '^' + quote_meta(MESSAGES[p['k']]) + '$'
    raise Inconclusive('unknown pattern form %r' % (p,))


def render_cfg(c):
    if c['k'] == 'badyaml':
        return 'paths: [\n'
    if c['k'] == 'badregex':
        return 'paths:\n  "**":\n    ignore:\n      - \'(\'\n'
    if c['k'] == 'badglob':
        return 'paths:\n  "[":\n    ignore: []\n'
    out = 'paths:\n'
    for e in c['entries']:
        out += '  "%s":\n    ignore:\n' % e['text']
        for p in e['pats']:
            out += "      - '%s'\n" % regex_of(p).replace("'", "''")
    return out


def put(path, text):
    os.makedirs(os.path.dirname(path), exist_ok=True)
    with open(path, 'w') as f:
        f.write(text)


def make_layout(base, cfg, cfgb, git='dir'):
    """base/top/{repo,repo-b,other}; cfg None = no configuration anywhere."""
    top = os.path.join(base, 'top')
    for repo in ('repo', 'repo-b'):
        if repo == 'repo' and git == 'file':
            # linked worktree / submodule checkout: .git is a regular file
            put(os.path.join(top, repo, '.git'), 'gitdir: ../other/gitdir-of-repo\n')
        else:
            os.makedirs(os.path.join(top, repo, '.git'), exist_ok=True)
        put(os.path.join(top, repo, '.github', 'workflows', 'a.yml'), WORKFLOW)
    put(os.path.join(top, 'repo', '.github', 'workflows', 'sub', 'b.yml'), WORKFLOW)
    put(os.path.join(top, 'repo', '.github', 'workflows', 'y.yml'), WORKFLOW_Y)
    put(os.path.join(top, 'repo', '.github', 'workflows', 'p.yml'), WORKFLOW_P)
    put(os.path.join(top, 'other', 'x.yml'), WORKFLOW)
    # symbolic links (Filter.tla: LinkA, AltTop, FL); the aliases are siblings of their targets
    for link, target in ((os.path.join(top, 'link'), 'repo'), (os.path.join(base, 'alt'), 'top'),
                         (os.path.join(top, 'repo', '.github', 'workflows', 'l.yml'), 'a.yml')):
        if not os.path.islink(link):
            os.symlink(target, link)
    if cfg is not None:
        put(os.path.join(top, 'repo-b', '.github', 'actionlint.yaml'), render_cfg(cfgb))
        if cfg['k'] != 'none':
            if cfg['src'] == 'flag':
                put(os.path.join(top, 'other', 'cfg.yaml'), render_cfg(cfg))
            else:
                put(os.path.join(top, 'repo', '.github', 'actionlint.yaml'), render_cfg(cfg))
    return base


def argv_of(v, base, mode):
    a = ['-shellcheck=', '-pyflakes=', '-no-color']
    a += ['-oneline'] if mode == 'oneline' else ['-format', '{{json .}}']
    if v['ff'] == 'unknown':
        a += ['-no-such-flag']
    elif v['ff'] == 'badbool':
        a += ['-verbose=maybe']
    elif v['ff'] == 'badregex':
        a += ['-ignore', '(']
    for p in v['cli']:
        a += ['-ignore', regex_of(p, True)]
    if v['cfg']['src'] == 'flag':
        a += ['-config-file', os.path.join(base, 'top', 'other', 'cfg.yaml')]
    for g in v['args']:
        a.append(os.path.join(base, *g['segs']) if g['abs'] else '/'.join(g['segs']))
    return a


ONELINE = re.compile(r'^(.*?):(\d+):(\d+): (.*) \[([a-z-]+)\]$')


def canon(path):
    """identity of a file: real directory + the name of the file itself (l.yml stays l.yml)"""
    path = os.path.normpath(path)
    return os.path.join(os.path.realpath(os.path.dirname(path)), os.path.basename(path))


def parse_out(text, mode, cwd):
    """-> list of (file identity, line, col, message, kind)"""
    out = []
    if mode == 'oneline':
        for ln in text.splitlines():
            m = ONELINE.match(ln)
            if not m:
                raise Inconclusive('output line not understood: %r' % ln)
            out.append((canon(os.path.join(cwd, m.group(1))), int(m.group(2)), int(m.group(3)),
                        m.group(4), m.group(5)))
    else:
        if not text.strip():
            return out
        try:
            arr = json.loads(text)
        except ValueError:
            raise Inconclusive('JSON output not understood: %r' % text[:300])
        for d in arr:
            out.append((canon(os.path.join(cwd, d['filepath'])), d['line'], d['column'], d['message'],
                        d['kind']))
    return out


def execute(binary, v, base, mode):
    cwd = os.path.join(base, *v['cwd'])
    argv = argv_of(v, base, mode)
    try:
        # $PWD names the cwd the way the shell would (possibly through a symbolic link); os.Getwd trusts it
        p = subprocess.run([binary] + argv, cwd=cwd, stdout=subprocess.PIPE, stderr=subprocess.PIPE, timeout=120,
                           stdin=subprocess.DEVNULL, env=dict(os.environ, PWD=cwd))
    except subprocess.TimeoutExpired:
        raise Inconclusive('actionlint timeout: %r in %s' % (argv, cwd))
    return {'rc': p.returncode, 'stdout': p.stdout.decode('utf-8', 'replace'),
            'stderr': p.stderr.decode('utf-8', 'replace'), 'argv': argv, 'cwd': cwd}


def baseline(binary, base0):
    """unfiltered diagnostics of every file, {file name: {message id: (line, col, message, kind)}}: layout without
    any configuration, no -ignore, absolute spelling from top; both output formats must agree.  Also checks that
    the rendered pattern forms have exactly the matching relation Filter.tla defines (Matches)."""
    wf = ['top', 'repo', '.github', 'workflows']
    files = {'a': wf + ['a.yml'], 'l': wf + ['l.yml'], 's': wf + ['sub', 'b.yml'], 'y': wf + ['y.yml'], 'p': wf + ['p.yml'],
             'b': ['top', 'repo-b', '.github', 'workflows', 'a.yml'], 'o': ['top', 'other', 'x.yml']}
    res = {}
    MESSAGES.clear()
    for name, segs in files.items():
        v = {'cwd': ['top'], 'ff': 'none', 'cli': [], 'cfg': {'k': 'none', 'src': 'repo'},
             'args': [{'abs': True, 'segs': segs}]}
        per = []
        for mode in ('oneline', 'json'):
            r = execute(binary, v, base0, mode)
            if r['rc'] != 1:
                raise Inconclusive('baseline run of %s exits with %d: %s' % (name, r['rc'], r['stderr'][:300]))
            per.append([d[1:] for d in parse_out(r['stdout'], mode, r['cwd'])])
        if per[0] != per[1]:
            raise Inconclusive('baseline: -oneline and -format json disagree for %s' % name)
        ds = per[0]
        ids = FILE_IDS[name]
        if len(ds) != len(ids):
            raise Inconclusive('baseline of %s has %d diagnostics, the specification assumes %d: %r'
                               % (name, len(ds), len(ids), ds))
        for k, d in zip(ids, ds):
            if MESSAGES.setdefault(k, d[2]) != d[2]:
                raise Inconclusive('message %d differs between files: %r / %r' % (k, MESSAGES[k], d[2]))
        res[name] = {k: tuple(d) for k, d in zip(ids, ds)}
    if sorted(MESSAGES) != list(range(1, len(FRAGS) + 1)):
        raise Inconclusive('message ids %r' % sorted(MESSAGES))
    # the matching relation of every pattern form, checked on the real messages with the rendered text
    for k, frag in enumerate(FRAGS, 1):
        for i, msg in MESSAGES.items():
            same = i == k
            facts = [(frag in msg) == same, msg.startswith(frag) == same,
                     (frag.swapcase().lower() in msg.lower()) == same, frag.swapcase() not in msg,
                     frag.swapcase() != frag, msg.endswith(MESSAGES[k][-TAIL:]) == same, NEVER not in msg,
                     '\n' not in msg]
            if not all(facts):
                raise Inconclusive('pattern forms of message %d do not have the specified relation to message %d (%r): %r'
                                   % (k, i, facts, msg))
    return res


def expected_of(v, base, base_diags):
    exp = []
    for f in v['files']:
        p = canon(os.path.join(base, *f['path']))
        exp += [(p,) + base_diags[f['name']][i] for i in f['exp']]
    return exp


def op_of(v, base, base_diags, field='op'):
    exp = []
    for f in v['files']:
        p = canon(os.path.join(base, *f['path']))
        exp += [(p,) + base_diags[f['name']][i] for i in f[field]]
    return exp


def judge(v, r, base, base_diags, mode):
    """-> None or (kind, site, text, extra).  Decided by the TLC prediction (declarative layer) alone."""
    if v['lint']:
        for f in v['files']:
            if f['all'] != FILE_IDS[f['name']]:
                raise Inconclusive('diagnostics of file %s: specification %r, harness %r' % (f['name'], f['all'], FILE_IDS[f['name']]))
        if r['rc'] not in (0, 1):
            return ('exit', 'exit-status:lint', 'exit status %d (stderr %r), accepted %s'
                    % (r['rc'], r['stderr'][:200], v['exits']), {})
        got = parse_out(r['stdout'], mode, r['cwd'])
        exp = expected_of(v, base, base_diags)
        if got != exp:
            tags = sorted({t for f in v['files'] for t in f['tags']})
            # naming only: does the output equal what one of the disabled deviations of Filter.tla would print?
            explained = bool(tags) and got == op_of(v, base, base_diags, 'devcwd')
            pre = got == op_of(v, base, base_diags, 'devpre')
            lnk = got == op_of(v, base, base_diags, 'devlnk')
            cwdl = v['cwdk'] if v['cwdk'] not in ('root', 'rootb') else 'root-of-other-repository'
            globs = [e['glob'] for e in v['cfg']['entries']]
            if lnk and (v['via'] != 'real' or v['cvia'] != 'real'):
                # the output when the project root is the physical directory but the file keeps its given name
                site = 'symlink-root:via=%s:cwdvia=%s:cwd=%s' % (v['via'], v['cvia'], v['cwdk'])
            elif explained and tags == ['paths-cwd']:
                site = 'paths-config:cwd=%s' % cwdl
            elif explained and tags == ['paths-spelling']:
                site = 'paths-config:spelling=%s' % v['sp']
            elif explained:
                site = 'paths-config:cwd=%s:spelling=%s' % (v['cwdk'], v['sp'])
            elif pre:
                # the output the string-prefix version of Project.Knows would give
                site = 'project-prefix:args=%s:cwd=%s' % (v['argn'], v['cwdk'])
            else:
                site = 'filter:args=%s:cwd=%s' % (v['argn'], v['cwdk'])

            def short(ds):
                return [(os.path.relpath(d[0], os.path.realpath(base)), d[1], d[2], d[3][:40]) for d in ds]
            text = ('cwd=%s argv=%r config(%s)=%r: stdout has %s, the property demands the unfiltered output minus the '
                    'matched diagnostics = %s' % (os.path.relpath(r['cwd'], base), r['argv'][3:], v['cfg']['src'],
                                                  render_cfg(v['cfg']) if v['cfg']['k'] != 'none' else None,
                                                  short(got), short(exp)))
            return ('output', site, text, {'tags': tags, 'globs': globs, 'explained_by_operational_model': explained,
                                           'matches_deviation': [n for n, b in (('DevCwd', explained), ('DevLnk', lnk), ('DevPre', pre)) if b],
                                           'observed_ids': ids_of(got, v, base, base_diags),
                                           'expected_ids': [f['exp'] for f in v['files']]})
    if r['rc'] not in v['exits']:
        what = v['ff'] if v['ff'] != 'none' else (v['cfg']['k'] if not v['lint'] else 'lint')
        return ('exit', 'exit-status:%s' % what, 'cwd=%s argv=%r: exit status %d, accepted %s (stderr %r)'
                % (os.path.relpath(r['cwd'], base), r['argv'][3:], r['rc'], v['exits'], r['stderr'][:200]), {})
    return None


def ids_of(got, v, base, base_diags):
    out = []
    for f in v['files']:
        p = canon(os.path.join(base, *f['path']))
        inv = {d: k for k, d in base_diags[f['name']].items()}
        out.append([inv.get(d[1:], 0) for d in got if d[0] == p])
    return out


def cfg_key(v):
    return json.dumps([v['cfg'], v['cfgb'], v.get('git', 'dir')], sort_keys=True)


def check_no_outer_repo(d):
    d = os.path.abspath(d)
    while True:
        if os.path.isdir(os.path.join(d, '.github', 'workflows')) and os.path.exists(os.path.join(d, '.git')):
            raise Inconclusive('scratch directory lies inside a repository with workflows: ' + d)
        p = os.path.dirname(d)
        if p == d:
            return
        d = p


def run(ck, tier):
    sd = vplib.subdir('c15')
    check_no_outer_repo(sd)
    cfgs = [('Filter_quick.cfg', 'files x cwd x spelling x CLI patterns x one paths entry; faults'),
            ('Filter_quick2.cfg', 'two paths entries, -config-file, file outside a repository, sibling order'),
            ('Filter_quick3.cfg', 'files whose only diagnostics are the YAML syntax error / parser errors, patterns matching them or not'),
            ('Filter_quick4.cfg', 'pattern lists with an inline-flag pattern next to a wrong-case pattern, both orders, CLI and config'),
            ('Filter_quick5.cfg', 'pattern lists with anchored forms (^A, B$, ^M$), both orders, CLI and config'),
            ('Filter_quick6.cfg', 'files and cwd named through symbolic links (alias of the repository root, of its parent; '
                                  'symlinked workflow file) x cwd x spelling')]
    if tier == 'thorough':
        cfgs = [('Filter_thorough.cfg', 'all files x 6 cwd x 3 spellings x CLI patterns x 12 glob forms x repo/-config-file'),
                ('Filter_pairs.cfg', 'two paths entries'),
                ('Filter_quick3.cfg', 'files whose only diagnostics are the YAML syntax error / parser errors'),
                ('Filter_forms.cfg', 'pattern lists with inline-flag / anchored forms in both orders, CLI and config'),
                ('Filter_links.cfg', 'files and cwd named through symbolic links x 6 cwd x 3 spellings x more files and globs')]
    vecs = []
    for cfg, what in cfgs:
        r = vplib.run_tlc('Filter', cfg, dump='vectors', timeout=3000)
        ck.add_tlc('Filter %s' % what, r)
        if r.violated:
            raise Inconclusive('specification Filter.tla violates %s under %s (model level)' % (r.violated, cfg))
        vs = vplib.read_dump_json(os.path.join(r.dir, 'vectors.dump'))
        if len(vs) != r.distinct:
            raise Inconclusive('dump/states mismatch for ' + cfg)
        vecs += [v for v in vs if v['final']]
    # vacuity guards: the two disabled deviations of the spec must be real deviations (TLC counterexample)
    for cfg, inv, what in (('Filter_dev.cfg', 'DevCwdEqualsDecl', 'glob matched against the displayed (cwd-relative) path'),
                           ('Filter_dev2.cfg', 'DevPreEqualsDecl', 'string-prefix project lookup'),
                           ('Filter_dev3.cfg', 'DevLnkEqualsDecl', 'physical project root vs. file named through a symbolic link')):
        rd = vplib.run_tlc('Filter', cfg, timeout=600, workers=1)
        ck.add_tlc('%s: disabled deviation "%s" equals the property (violation expected: vacuity guard)' % (cfg, what), rd)
        if rd.violated != inv:
            raise Inconclusive('vacuity guard: %s is not violated under %s (%r): the universe no longer separates the '
                               'deviation "%s" from the property' % (inv, cfg, rd.violated, what))
    ck.cov['deviation_guards'] = 'DevCwdEqualsDecl, DevPreEqualsDecl and DevLnkEqualsDecl violated in TLC, as required'
    seen = set()
    uniq = []
    for v in vecs:
        k = json.dumps({x: v[x] for x in ('cwdk', 'sp', 'argn', 'via', 'cvia', 'git', 'cli', 'cfg', 'ff')}, sort_keys=True)
        if k not in seen:
            seen.add(k)
            uniq.append(v)
    vecs = uniq

    binary = vplib.build_actionlint()
    base0 = make_layout(os.path.join(sd, 'L0'), None, None)
    base_diags = baseline(binary, base0)
    layouts = {}
    for v in vecs:
        k = cfg_key(v)
        if k not in layouts:
            layouts[k] = make_layout(os.path.join(sd, 'L%d' % (len(layouts) + 1)), v['cfg'], v['cfgb'], v['git'])

    def one(iv):
        i, v = iv
        mode = 'oneline' if i % 2 == 0 else 'json'
        base = layouts[cfg_key(v)]
        try:
            r = execute(binary, v, base, mode)
            verdict = judge(v, r, base, base_diags, mode)
            r['stdout'] = r['stdout'][:400] if verdict is None else r['stdout']      # keep memory bounded
            return (i, mode, r, verdict, None)
        except Inconclusive as e:
            return (i, mode, None, None, str(e))

    with concurrent.futures.ThreadPoolExecutor(max_workers=max(2, vplib.NCPU)) as ex:
        results = list(ex.map(one, enumerate(vecs)))

    per_site = {}
    nontrivial = 0
    drift = 0
    statuses = {}
    for i, mode, r, verdict, err in results:
        v = vecs[i]
        if err:
            raise Inconclusive(err)
        statuses[r['rc']] = statuses.get(r['rc'], 0) + 1
        if v['lint'] and any(len(f['exp']) < len(f['all']) for f in v['files']):
            nontrivial += 1
        if verdict is None:
            if v['lint'] and any(f['op'] != f['exp'] for f in v['files']):
                drift += 1
            continue
        kind, site, text, extra = verdict
        n = per_site.get(site, 0)
        per_site[site] = n + 1
        if n >= MAX_PER_SITE:
            continue
        # re-run on the real code alone before reporting
        base = layouts[cfg_key(v)]
        r2 = execute(binary, v, base, mode)
        v2 = judge(v, r2, base, base_diags, mode)
        if v2 is None:
            raise Inconclusive('violation did not reproduce: ' + text)
        rp = {'kind': kind, 'vector': v, 'mode': mode, 'cwd_kind': v['cwdk'], 'spelling': v['sp'], 'via': v['via'], 'cwd_via': v['cvia'], 'git': v['git'], 'args': v['argn'],
              'config_source': v['cfg']['src'], 'config_kind': v['cfg']['k'], 'flag_fault': v['ff'],
              'exit_status': r['rc'], 'accepted_exit_statuses': v['exits']}
        rp.update(extra)
        ck.violation(site, text, rp)
    selftest(ck, binary, vecs, results, layouts, base_diags)
    ck.cov['evaluations'] += len(vecs)
    ck.cov['traces_validated_against_impl'] += len(vecs)
    ck.cov['distinct_nontrivial'] += nontrivial
    ck.cov['process_runs'] = len(vecs) + 8
    ck.cov['layouts'] = len(layouts)
    ck.cov['exit_statuses_observed'] = {str(k): n for k, n in sorted(statuses.items())}
    ck.cov['violating_runs_by_site'] = per_site
    ck.cov['runs_by_cwd'] = {}
    for v in vecs:
        ck.cov['runs_by_cwd'][v['cwdk']] = ck.cov['runs_by_cwd'].get(v['cwdk'], 0) + 1
    if drift:
        ck.note('model drift: %d runs satisfy the property although the operational layer of Filter.tla predicts a '
                'different output' % drift)
        ck.cov['model_drift_runs'] = drift
    for i, mode, r, verdict, err in results[:2000:700]:
        ck.sample({'cwd': vecs[i]['cwd'], 'argv': r['argv'][3:], 'config': vecs[i]['cfg'], 'exit': r['rc'],
                   'predicted': [f['exp'] for f in vecs[i]['files']], 'accepted_exits': vecs[i]['exits']})
    ck.cov['rule'] = ('every final state of the TLC state spaces = one run of the built actionlint binary in a generated '
                      'layout (two sibling repositories, nested file, file outside a repository); stdout compared with the '
                      'unfiltered real output restricted to the TLC-predicted indices, exit status with the accepted set; '
                      'non-trivial = at least one diagnostic predicted to be filtered; at most %d violations reported '
                      'per site (all counted in violating_runs_by_site)' % MAX_PER_SITE)
    ck.cov['exhaustive'] = True
    ck.assumptions += ['patterns are alternations of regexp.QuoteMeta(message fragment); each fragment identifies exactly one '
                       'of the 8 diagnostics; the inline-flag and anchored pattern forms have exactly the relation Matches of Filter.tla '
                       '(both checked on the unfiltered real messages)',
                       'glob forms are literal segments, *.yml, * and ** whose doublestar meaning equals GMatch of Filter.tla',
                       'an invalid regular expression given to -ignore may exit with 2 or 3 (the property does not classify it)',
                       'unreadable file = missing file or directory (the checks run as root, permissions do not bite)',
                       'symbolic links are siblings of their targets (lexical and physical ".." agree); $PWD names the cwd as spelled; '
                       'a symlinked workflow file is a file of its own name (globs see l.yml, not its target)',
                       '-config-file runs exclude the file outside every repository (no root to be relative to)',
                       'shellcheck / pyflakes integration disabled']


def selftest(ck, binary, vecs, results, layouts, base_diags):
    """binding self-test: a corrupted prediction (one surviving diagnostic removed / one filtered diagnostic
    added / wrong exit status) must be rejected by the comparison with the real run."""
    for i, mode, r, verdict, err in results:
        v = vecs[i]
        if verdict is None and v['lint'] and v['files'] and 0 < len(v['files'][0]['exp']) < len(v['files'][0]['all']):
            base = layouts[cfg_key(v)]
            r2 = execute(binary, v, base, mode)
            if judge(v, r2, base, base_diags, mode) is not None:
                raise Inconclusive('binding self-test: run is not reproducible')
            bad = []
            for variant in ('drop', 'add', 'exit'):
                w = json.loads(json.dumps(v))
                e = w['files'][0]['exp']
                if variant == 'drop':
                    w['files'][0]['exp'] = e[1:]
                elif variant == 'add':
                    w['files'][0]['exp'] = sorted(set(e) | {min(set(w['files'][0]['all']) - set(e))})
                else:
                    w['exits'] = [0]
                if judge(w, r2, base, base_diags, mode) is None:
                    bad.append(variant)
            ck.cov['binding_selftest'] = 'rejected' if not bad else 'NOT rejected: %s' % bad
            if bad:
                raise Inconclusive('binding self-test failed: corrupted prediction %s accepted' % bad)
            return
    raise Inconclusive('binding self-test: no run with a partially filtered file agrees with the prediction')


def replay(path):
    rp = json.load(open(path))['replay']
    v = rp['vector']
    sd = vplib.subdir('c15r')
    check_no_outer_repo(sd)
    binary = vplib.build_actionlint()
    base_diags = baseline(binary, make_layout(os.path.join(sd, 'L0'), None, None))
    base = make_layout(os.path.join(sd, 'L1'), v['cfg'], v['cfgb'], v.get('git', 'dir'))
    r = execute(binary, v, base, rp['mode'])
    print('cwd', r['cwd'])
    print('argv', r['argv'])
    if v['cfg']['k'] != 'none':
        print('config (%s):\n%s' % (v['cfg']['src'], render_cfg(v['cfg'])))
    print(r['stdout'][:3000])
    print('exit status', r['rc'], 'accepted', v['exits'])
    verdict = judge(v, r, base, base_diags, rp['mode'])
    if verdict:
        print('still violated: site=%s %s' % (verdict[1], verdict[2]))
        return 1
    print('property holds on this input')
    return 0
