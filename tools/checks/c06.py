"""C06 - unknown (any) types never cause a diagnostic.

E: TLC checks ExprSema.tla: for every generated triple (expression e, environment G, single-step
   loosening G' of G -- one type occurrence replaced by `any`, or one closed object opened -- or the
   literal of fromJSON('...') replaced by an expression) the design (= the code as read) satisfies
   any-monotonicity (accepted under G => accepted under G', also at a template position), the type
   of an accepted expression only loosens (A.6 preorder), a diagnostic only appears where a masking
   one went away.  The deviation FilterAnyProp (fixed in the code) stays named but disabled: a guard run
   requires TLC to find its counterexample, and real outputs that equal the model with it are labelled
   as its regression.
G: every triple of the state space is dumped with the predicted diagnostics (class, token index)
   and executed on the real ExprSemanticsChecker (environments installed through Update*); triples
   whose real outputs differ from the prediction or break the relation are judged by TLC
   (ExprSemaTrace: PropOK on the two real outputs decides, ModelOK is drift only).  A sample of the
   triples whose environments can be written as matrix literals is rendered to workflows (literal
   row -> `${{ fromJSON(vars.X) }}`, include entry -> expression) and linted; so are hand-written
   definition pairs (workflow_dispatch / workflow_call input typed vs. untyped, fromJSON literal vs.
   fromJSON(env.X), step id literal vs. expression, callee input typed vs. untyped) with the
   expression at template, `if`, env, bool/number-typed and reusable-workflow `with:` positions.
T: random deeper expressions / environments / loosenings (and all their sub-expressions) executed
   on the real checker and validated by TLC.
"""
import collections
import json
import os
import random

import vplib
from vplib import Inconclusive

LEVEL = 'model_checking'

SLOTS = ['matrix', 'steps', 'needs', 'inputs', 'secrets', 'jobs', 'dinputs']
UNSET = {'k': 'unset'}
ANY = {'k': 'any'}
STRICT = {'k': 'strict'}
TMPL_BAD = ('obj', 'arr', 'null')


# ------------------------------------------------------------------------------------ helpers

def iter_dump(path, var='tc'):
    pre = '/\\ %s = "' % var
    pre2 = '%s = "' % var
    with open(path, encoding='utf-8') as f:
        for line in f:
            if line.startswith(pre):
                yield json.loads(json.loads(line[len(pre) - 1:]))
            elif line.startswith(pre2):
                yield json.loads(json.loads(line[len(pre2) - 1:]))


def iter_jsonl(path):
    with open(path) as f:
        for line in f:
            line = line.strip()
            if line:
                yield json.loads(line)


def eset(errs):
    return frozenset((e['c'], e['p']) for e in errs)


def elist(s):
    return [{'c': c, 'p': p} for c, p in sorted(s, key=lambda x: (x[1], x[0]))]


def accepted(errs, kind, tmpl):
    return not errs and not (tmpl and kind in TMPL_BAD)


def relation_holds(a, ka, b, kb):
    """the property on two real outputs (pre-filter only; TLC's PropOK decides)"""
    return ((not accepted(a, ka, False) or accepted(b, kb, False)) and
            (not accepted(a, ka, True) or accepted(b, kb, True)))


def parse_mism(out):
    import re
    m = re.search(r'<<\s*"MISM",\s*(\d+),\s*<<(.*?)>>,\s*<<(.*?)>>,\s*<<(.*?)>>\s*>>', out, re.S)
    if not m:
        raise Inconclusive('trace validation produced no verdict:\n' + out[-2000:])

    def ints(body):
        body = body.strip()
        return [int(x) for x in body.replace('\n', ' ').split(',') if x.strip()] if body else []
    return int(m.group(1)), ints(m.group(2)), ints(m.group(3)), ints(m.group(4))


def validate(ck, records, label, name):
    """records -> ExprSemaTrace; returns (mism, drift, masked) as sets of 0-based indices"""
    if not records:
        return set(), set(), set()
    text = ''.join(json.dumps(r, separators=(',', ':')) + '\n' for r in records)
    t = vplib.run_tlc('ExprSemaTrace', 'ExprSemaTrace.cfg', workers=1, files={'trace.ndjson': text}, timeout=3000,
                      name=name)
    ck.add_tlc('ExprSemaTrace: %d recorded executions (%s)' % (len(records), label), t)
    n, mism, drift, masked = parse_mism(t.out)
    if n != len(records):
        raise Inconclusive('trace validation read %d of %d records' % (n, len(records)))
    if len(mism) >= 20000 or len(drift) >= 20000:
        ck.note('%s: more than 20000 rejected records, only the first 20000 are listed' % label)
    return {i - 1 for i in mism}, {i - 1 for i in drift}, {i - 1 for i in masked}


class Findings:
    """violations grouped by site; only the smallest inputs of each site are emitted"""

    def __init__(self):
        self.by_site = {}

    def add(self, site, size, what, replay):
        self.by_site.setdefault(site, []).append((size, what, replay))

    def emit(self, ck, per_site=12):
        for site, items in sorted(self.by_site.items()):
            items.sort(key=lambda x: x[0])
            for size, what, replay in items[:per_site]:
                ck.violation(site, what + ' [%d inputs of this site in this run]' % len(items), replay)


def new_classes(a, b):
    return sorted({c for c, _ in (b - a)})


# ------------------------------------------------------------------------------------ G: API level

def api_part(ck, sd, tier, rng, finds):
    cfg = 'ExprSema_quick.cfg' if tier == 'quick' else 'ExprSema_thorough.cfg'
    r = vplib.run_tlc('ExprSema', cfg, dump='vectors', timeout=3400, heap='3g' if tier == 'quick' else '6g')
    ck.add_tlc('ExprSema %s: any-monotonicity, template monotonicity, type monotonicity (A.6), masking, deviation '
               'containment over (e, G, G\') triples' % tier, r)
    if r.violated:
        raise Inconclusive('specification ExprSema.tla violates its own invariant %s (model level only):\n%s'
                           % (r.violated, r.out[-3000:]))
    dump = os.path.join(r.dir, 'vectors.dump')
    pairs = {}
    n = 0
    with open(os.path.join(sd, 'in.jsonl'), 'w') as f:
        for v in iter_dump(dump):
            if 'fam' in v:
                pairs[v['i']] = {'i': v['i'], 'fam': v['fam'], 'g1': v['g1'], 'g2': v['g2']}
            f.write(json.dumps({'id': n, 'i': v['i'], 't1': v['t1'], 't2': v['t2']}, separators=(',', ':')) + '\n')
            n += 1
    if n != r.distinct:
        raise Inconclusive('dump has %d vectors, TLC reported %d states' % (n, r.distinct))
    vplib.write_jsonl(os.path.join(sd, 'pairs.jsonl'), list(pairs.values()))
    vplib.run_harness(['sema-vectors', os.path.join(sd, 'pairs.jsonl'), os.path.join(sd, 'in.jsonl'),
                       os.path.join(sd, 'out.jsonl')], timeout=3000)
    as_read = as_regress = nontrivial = mutated = 0
    judge = []          # (vector, real) to be judged by TLC
    sample_p = min(1.0, (6000 if tier == 'quick' else 30000) / max(n, 1))
    lintable = []
    lint_p = min(0.2, 40000 / max(n, 1))
    for v, o in zip(iter_dump(dump), iter_jsonl(os.path.join(sd, 'out.jsonl'))):
        r1, r2 = o['r1'], o['r2']
        for rr in (r1, r2):
            if rr.get('fail') or rr['other']:
                raise Inconclusive('observable not understood for %r: %s %r' % (v['t1'], rr.get('fail'), rr['other'][:2]))
        if r1.get('mut') or r2.get('mut'):
            mutated += 1
        a, b = eset(r1['errs']), eset(r2['errs'])
        if v['p1'] or v['p2']:
            nontrivial += 1
        same_read = (a == eset(v['p1']) and b == eset(v['p2']) and r1['k'] == v['k1'] and r2['k'] == v['k2'])
        same_int = ('q1' in v and a == eset(v['q1']) and b == eset(v['q2']) and r1['k'] == v['j1'] and r2['k'] == v['j2'])
        if same_read:
            as_read += 1
        elif same_int:
            as_regress += 1      # equals the model with the disabled deviation FilterAnyProp
        holds = relation_holds(a, r1['k'], b, r2['k'])
        if not (same_read or same_int) or not holds or rng.random() < sample_p:
            judge.append((v, r1, r2))
        p = pairs[v['i']]
        if p['fam'] in ('acc', 'use') and v['t2'] == '' and rng.random() < lint_p:
            lintable.append((v, r1, r2))
    ck.cov['evaluations'] += 2 * n
    ck.cov['traces_validated_against_impl'] += n
    ck.cov['distinct_nontrivial'] += nontrivial
    ck.cov['vectors'] = n
    ck.cov['environment_pairs'] = len(pairs)
    ck.cov['vectors_equal_to_model_of_code_as_read'] = as_read
    ck.cov['vectors_equal_to_model_with_disabled_deviation_FilterAnyProp'] = as_regress
    if as_regress:
        ck.note('regression: %d vectors behave like the model with the deviation FilterAnyProp, which is fixed in the '
                'code (checkArrayDeref: `.*` on a closed object whose properties are typed any)' % as_regress)
    if mutated:
        ck.cov['executions_that_mutated_the_installed_environment'] = mutated
        ck.note('C09 topic, observed here: %d executions changed the type value installed in the environment '
                '(checkArrayDeref sets ArrayType.Deref in place); the model treats types as values' % mutated)
    # ---- judged by TLC
    records = []
    for v, r1, r2 in judge:
        rec = {'a': r1['errs'], 'b': r2['errs'], 'ka': r1['k'], 'kb': r2['k'], 'mk': 'pred',
               'p1': v['p1'], 'p2': v['p2'], 'k1': v['k1'], 'k2': v['k2'],
               'q1': v.get('q1', v['p1']), 'q2': v.get('q2', v['p2']), 'j1': v.get('j1', v['k1']), 'j2': v.get('j2', v['k2'])}
        records.append(rec)
    mism, drift, masked = validate(ck, records, 'vectors whose real output differs from the prediction or breaks the '
                                   'relation + a sample', 'trace-api')
    for i in sorted(mism):
        v, r1, r2 = judge[i]
        p = pairs[v['i']]
        a, b = eset(r1['errs']), eset(r2['errs'])
        t2 = v['t2'] or v['t1']
        cls = new_classes(a, b) or ['template-type']
        regress = ('q1' in v and a == eset(v['q1']) and b == eset(v['q2']))
        finds.add('api:' + '+'.join(cls), len(v['t1']),
                  ('[regression of the fixed deviation FilterAnyProp] ' if regress else '') +
                  'expression `%s` is accepted under the environment G (type %s) but %s under the loosened G\' %s'
                  % (v['t1'], r1['k'], ('`%s` is rejected with %s' % (t2, sorted(b))) if b else
                     'evaluates to type %s (rejected at a template position)' % r2['k'], loosening_text(p, v)),
                  {'kind': 'api', 't1': v['t1'], 't2': t2, 'g1': p['g1'], 'g2': p['g2'], 'fam': p['fam'],
                   'new_classes': cls, 'observed1': r1['errs'], 'observed2': r2['errs']})
    only_drift = sorted(drift - mism)
    if only_drift:
        v, r1, r2 = judge[only_drift[0]]
        ck.cov['model_drift_vectors'] = len(only_drift)
        ck.note('model drift: %d vectors satisfy the property but the real diagnostics differ from both model variants, '
                'e.g. `%s` / `%s` under %s: real %s / %s, model %s / %s'
                % (len(only_drift), v['t1'], v['t2'] or v['t1'], loosening_text(pairs[v['i']], v), r1['errs'], r2['errs'], v['p1'], v['p2']))
    ck.cov['records_with_masked_new_diagnostic'] = len(masked - mism)
    if judge:
        v, r1, r2 = judge[len(judge) // 2]
        ck.sample({'expression': v['t1'], 'expression2': v['t2'], 'pair': pairs[v['i']], 'predicted': [v['p1'], v['p2']],
                   'real': [r1['errs'], r2['errs']]})
    return pairs, lintable


def loosening_text(p, v):
    if v['t2']:
        return '(fromJSON literal replaced by an expression)'
    for s in SLOTS:
        if p['g1'][s] != p['g2'][s]:
            return '(%s: %s -> %s)' % (s, tstr(p['g1'][s]), tstr(p['g2'][s]))
    return ''


def tstr(t):
    k = t['k']
    if k == 'obj':
        body = '{' + '; '.join('%s: %s' % (p['n'], tstr(p['t'])) for p in t['props']) + '}'
        m = t['m']['k']
        return body if m == 'strict' else body + ('+any' if m == 'any' else '=>' + tstr(t['m']))
    if k == 'arr':
        return 'array<%s>' % tstr(t['elem'])
    return k


# ------------------------------------------------------------------------------------ T: random

PROPS = ['a', 'b']
EPROPS = ['a', 'b', 'c']
VARS = ['matrix', 'steps', 'needs', 'inputs', 'secrets', 'jobs', 'github', 'env']
FUNCS1 = ['toJSON', 'fromJSON', 'join']
FUNCS2 = ['contains', 'startsWith', 'join', 'endsWith']


def rnd_type(rng, depth):
    r = rng.random()
    if depth == 0 or r < 0.35:
        return {'k': rng.choice(['any', 'null', 'number', 'bool', 'string', 'string', 'any'])}
    if r < 0.75:
        return rnd_obj(rng, depth)
    return {'k': 'arr', 'elem': rnd_type(rng, depth - 1), 'deref': False}


def rnd_obj(rng, depth):
    props = [{'n': n, 't': rnd_type(rng, depth - 1)} for n in PROPS if rng.random() < 0.6]
    m = rng.choice([STRICT, STRICT, ANY, {'k': 'string'}])
    if rng.random() < 0.1 and depth > 1:
        m = rnd_obj(rng, depth - 1)
    return {'k': 'obj', 'props': props, 'm': m}


def loosen1(t):
    """all single-step loosenings of a type (input generation; TLC re-checks G [= G' on every record)"""
    out = []
    if t['k'] != 'any':
        out.append(dict(ANY))
    if t['k'] == 'obj':
        if t['m']['k'] == 'strict':
            out.append(dict(t, m=dict(ANY)))
        else:
            out += [dict(t, m=u) for u in loosen1(t['m'])]
        for i, p in enumerate(t['props']):
            for u in loosen1(p['t']):
                ps = list(t['props'])
                ps[i] = {'n': p['n'], 't': u}
                out.append(dict(t, props=ps))
    elif t['k'] == 'arr':
        out += [dict(t, elem=u) for u in loosen1(t['elem'])]
    return out


def rnd_expr(rng, depth):
    r = rng.random()
    if depth == 0 or r < 0.12:
        q = rng.random()
        if q < 0.7:
            return {'k': 'var', 'n': rng.choice(VARS)}
        return rng.choice([{'k': 'str', 'v': 's'}, {'k': 'str', 'v': 'a'}, {'k': 'num', 'v': '1'}, {'k': 'bool', 'v': 'true'},
                           {'k': 'null'}])
    d = depth - 1
    if r < 0.52:
        recv = rnd_expr(rng, d)
        if recv['k'] == 'num':          # `1.a` lexes as a broken float
            recv = {'k': 'var', 'n': rng.choice(VARS)}
        if r < 0.42:
            return {'k': 'prop', 'e': recv, 'p': rng.choice(EPROPS)}
        return {'k': 'star', 'e': recv}
    if r < 0.64:
        i = rng.choice([{'k': 'str', 'v': 'a'}, {'k': 'str', 'v': 'c'}, {'k': 'num', 'v': '1'}, rnd_expr(rng, min(d, 1))])
        return {'k': 'idx', 'e': rnd_expr(rng, d), 'i': i}
    if r < 0.69:
        return {'k': 'not', 'e': rnd_expr(rng, d)}
    if r < 0.78:
        return {'k': 'cmp', 'op': rng.choice(['==', '<', '!=', '>=']), 'l': rnd_expr(rng, d), 'r': rnd_expr(rng, d)}
    if r < 0.87:
        return {'k': 'log', 'op': rng.choice(['&&', '||']), 'l': rnd_expr(rng, d), 'r': rnd_expr(rng, d)}
    q = rng.random()
    if q < 0.3:
        return {'k': 'call', 'f': rng.choice(FUNCS1), 'a': [rnd_expr(rng, d)]}
    if q < 0.65:
        return {'k': 'call', 'f': rng.choice(FUNCS2), 'a': [rnd_expr(rng, d), rnd_expr(rng, d)]}
    if q < 0.85:
        n = rng.choice([1, 2, 2, 3])
        h = rng.choice([[0], [0, 1], [1], []])
        return {'k': 'call', 'f': 'format', 'a': [{'k': 'fmt', 'v': ''.join('{%d}' % i for i in h) or 'x', 'h': h}] +
                [rnd_expr(rng, d) for _ in range(n - 1)]}
    return {'k': 'call', 'f': 'fromJSON', 'a': [{'k': 'json', 'jv': rng.choice(JLITS)}]}


def jobj(*ps):
    return {'k': 'jobj', 'props': [{'n': n, 'v': v} for n, v in ps]}


JNUM, JSTR, JNULL = {'k': 'jnum'}, {'k': 'jstr'}, {'k': 'jnull'}
JLITS = [JNUM, JSTR, JNULL, {'k': 'jarr', 'items': []}, {'k': 'jarr', 'items': [JSTR]}, jobj(), jobj(('a', JNUM)),
         jobj(('a', JNUM), ('b', JSTR)), jobj(('a', jobj(('a', JSTR)))), {'k': 'jarr', 'items': [jobj(('a', JNUM))]},
         {'k': 'jarr', 'items': [jobj(('a', JNUM)), jobj(('b', JSTR))]}, {'k': 'jbroken'}]


def jtext(v):
    k = v['k']
    if k == 'jarr':
        return '[' + ','.join(jtext(x) for x in v['items']) + ']'
    if k == 'jobj':
        return '{' + ','.join('"%s":%s' % (p['n'], jtext(p['v'])) for p in v['props']) + '}'
    return {'jbool': 'true', 'jnum': '1', 'jstr': '"x"', 'jnull': 'null'}.get(k, '{')


def need_par(ctx, c):
    if ctx == 'post':
        return c['k'] in ('not', 'cmp', 'log')
    return c['k'] in ('cmp', 'log')


def render(e):
    """the rendering convention of ExprSema!Render (TLC checks the text of every record against it)"""
    def w(ctx, c):
        return '(' + render(c) + ')' if need_par(ctx, c) else render(c)
    k = e['k']
    if k == 'var':
        return e['n']
    if k in ('str', 'fmt'):
        return "'" + e['v'] + "'"
    if k == 'json':
        return "'" + jtext(e['jv']) + "'"
    if k in ('num', 'bool'):
        return e['v']
    if k == 'null':
        return 'null'
    if k == 'prop':
        return w('post', e['e']) + '.' + e['p']
    if k == 'star':
        return w('post', e['e']) + '.*'
    if k == 'idx':
        return w('post', e['e']) + '[' + render(e['i']) + ']'
    if k == 'not':
        return '!' + w('not', e['e'])
    if k in ('cmp', 'log'):
        return w('bin', e['l']) + ' ' + e['op'] + ' ' + w('bin', e['r'])
    return e['f'] + '(' + ', '.join(render(a) for a in e['a']) + ')'


def subexprs(e):
    out = [e]
    for key in ('e', 'i', 'l', 'r'):
        if key in e and isinstance(e[key], dict):
            out += subexprs(e[key])
    for a in e.get('a', []) if e['k'] == 'call' else []:
        out += subexprs(a)
    return out


def swap_literal(e, start=0):
    """e with every fromJSON('<literal>') replaced by an expression: fromJSON(env.x) (unknown value) or, for every
    other object literal, github.event (an open object); None if there is no literal"""
    hits = [start]

    def go(x):
        if x['k'] == 'call' and x['f'] == 'fromJSON' and x['a'][0]['k'] == 'json':
            hits[0] += 1
            if x['a'][0]['jv']['k'] == 'jobj' and hits[0] % 2 == 0:
                return {'k': 'prop', 'e': {'k': 'var', 'n': 'github'}, 'p': 'event'}
            return {'k': 'call', 'f': 'fromJSON', 'a': [{'k': 'prop', 'e': {'k': 'var', 'n': 'env'}, 'p': 'x'}]}
        y = dict(x)
        for key in ('e', 'i', 'l', 'r'):
            if key in y and isinstance(y[key], dict):
                y[key] = go(y[key])
        if y['k'] == 'call':
            y['a'] = [go(a) for a in y['a']]
        return y
    r = go(e)
    return r if hits[0] > start else None


def random_part(ck, sd, tier, rng, finds):
    n = 4000 if tier == 'quick' else 30000
    recs = []
    seen = set()
    while len(recs) < n:
        g1 = {s: dict(UNSET) for s in SLOTS}
        for s in rng.sample(SLOTS, rng.choice([1, 2, 3])):
            g1[s] = rnd_obj(rng, 3)
        e = rnd_expr(rng, rng.choice([3, 4, 4, 5]))
        if len(render(e)) > 160:
            continue
        g2 = dict(g1)
        e2 = None
        if rng.random() < 0.15:
            e2 = swap_literal(e, rng.choice([0, 1]))
        if e2 is None:
            used = [s for s in SLOTS if g1[s]['k'] != 'unset']
            s = rng.choice(used)
            opts = [u for u in loosen1(g1[s]) if u['k'] == 'obj']
            if not opts:
                continue
            g2[s] = rng.choice(opts)
            subs = subexprs(e)
            for x in subs:
                t = render(x)
                key = (t, json.dumps(g1, sort_keys=True), json.dumps(g2[s], sort_keys=True), s)
                if key in seen or x['k'] in ('str', 'num', 'bool', 'null', 'fmt', 'json'):
                    continue
                seen.add(key)
                recs.append({'t1': t, 't2': '', 'e1': x, 'e2': {'k': 'same'}, 'g1': g1, 'g2': g2})
        else:
            recs.append({'t1': render(e), 't2': render(e2), 'e1': e, 'e2': e2, 'g1': g1, 'g2': g2})
    vplib.write_jsonl(os.path.join(sd, 'rin.jsonl'), [{'id': i, 'i': 0, 't1': x['t1'], 't2': x['t2'], 'g1': x['g1'], 'g2': x['g2']}
                                                      for i, x in enumerate(recs)])
    open(os.path.join(sd, 'nopairs.jsonl'), 'w').close()
    vplib.run_harness(['sema-vectors', os.path.join(sd, 'nopairs.jsonl'), os.path.join(sd, 'rin.jsonl'),
                       os.path.join(sd, 'rout.jsonl')], timeout=3000)
    outs = vplib.read_jsonl(os.path.join(sd, 'rout.jsonl'))
    records = []
    for x, o in zip(recs, outs):
        for rr in (o['r1'], o['r2']):
            if rr.get('fail') or rr['other']:
                raise Inconclusive('observable not understood for %r: %s %r' % (x['t1'], rr.get('fail'), rr['other'][:2]))
        records.append(dict(x, a=o['r1']['errs'], b=o['r2']['errs'], ka=o['r1']['k'], kb=o['r2']['k'], mk='tree'))
    mism, drift, masked = validate(ck, records, 'random expressions of depth <= 5 with all sub-expressions, random '
                                   'environments of depth <= 3, random single-step loosening', 'trace-random')
    for i in sorted(mism):
        x = records[i]
        a, b = eset(x['a']), eset(x['b'])
        cls = new_classes(a, b) or ['template-type']
        finds.add('api:' + '+'.join(cls), len(x['t1']),
                  'expression `%s` is accepted under G but `%s` is rejected with %s (type %s -> %s) under the loosened G\''
                  % (x['t1'], x['t2'] or x['t1'], sorted(b), x['ka'], x['kb']),
                  {'kind': 'api', 't1': x['t1'], 't2': x['t2'] or x['t1'], 'g1': x['g1'], 'g2': x['g2'], 'fam': 'random',
                   'new_classes': cls, 'observed1': x['a'], 'observed2': x['b']})
    only_drift = sorted(drift - mism)
    ck.cov['random_records'] = len(records)
    ck.cov['random_records_accepted_under_G'] = sum(1 for x in records if not x['a'])
    ck.cov['random_records_model_drift'] = len(only_drift)
    ck.cov['random_records_with_masked_new_diagnostic'] = len(masked - mism)
    if only_drift:
        x = records[only_drift[0]]
        ck.note('model drift (random part): %d of %d records satisfy the property but differ from both model variants '
                '(in-place Deref mutation, functions/operators outside the model), e.g. `%s`: real %s / %s'
                % (len(only_drift), len(records), x['t1'], x['a'], x['b']))
    ck.cov['evaluations'] += 2 * len(records)
    ck.cov['traces_validated_against_impl'] += len(records)
    ck.cov['distinct_nontrivial'] += sum(1 for x in records if x['a'] or x['b'])
    return records


# ------------------------------------------------------------------------------------ G: lint level

ANYX = '${{ fromJSON(vars.%s) }}'


def literal(t, name, nested):
    """a YAML flow literal whose checkRawYAMLValue type is t; None if t cannot be written"""
    k = t['k']
    if k == 'any':
        return ('"' + ANYX % name + '"') if nested else None
    if k == 'number':
        return '1'
    if k == 'string':
        return 'x'
    if k == 'bool':
        return 'true'
    if k == 'null':
        return 'null'
    if k == 'arr':
        if t['elem']['k'] == 'any':
            return '[]'
        x = literal(t['elem'], name, True)
        return None if x is None else '[' + x + ']'
    if k == 'obj':
        if t['m']['k'] != 'strict':
            return None
        parts = []
        for p in t['props']:
            x = literal(p['t'], name + p['n'].upper(), True)
            if x is None:
                return None
            parts.append('%s: %s' % (p['n'], x))
        return '{' + ', '.join(parts) + '}'
    return None


def matrix_def(t, variant):
    """lines of a `matrix:` body giving the matrix context the type t; None if not expressible"""
    if t['k'] != 'obj' or t['m']['k'] not in ('strict', 'any'):
        return None
    lines = []
    for p in t['props']:
        if p['t']['k'] == 'any':
            row = (ANYX % p['n'].upper()) if variant % 2 == 0 else '["' + ANYX % p['n'].upper() + '"]'
        else:
            x = literal(p['t'], p['n'].upper(), True)
            if x is None:
                return None
            row = '[' + x + ']'
        lines.append('%s: %s' % (p['n'], row))
    # an include element given by an expression opens the object; the closed variant keeps the line
    lines.append('include: [{zz: 1}, "' + ANYX % 'I' + '"]' if t['m']['k'] == 'any' else 'include: [{zz: 1}]')
    return lines


CALLEE = '''on:
  workflow_call:
    inputs:
      s:
        type: string
      n:
        type: number
      b:
        type: boolean
jobs:
  c:
    runs-on: ubuntu-latest
    steps:
      - run: echo
'''
CALLEE_ANY = CALLEE.replace('        type: string\n', '        description: untyped\n')


class Doc:
    def __init__(self):
        self.lines = []
        self.sites = []

    def add(self, text):
        self.lines.append(text)

    def site(self, prefix, expr, suffix='', kind='tmpl'):
        """a line `prefix${{ expr }}suffix` (or the bare expression for kind 'bare')"""
        if kind == 'bare':
            self.lines.append(prefix + expr)
            col = len(prefix) + 1
        else:
            self.lines.append(prefix + '${{ ' + expr + ' }}' + suffix)
            col = len(prefix) + 5
        self.sites.append({'line': len(self.lines), 'col': col, 'expr': expr, 'kind': kind})

    def text(self):
        return '\n'.join(self.lines) + '\n'


def plain_ok(expr):
    return expr[0].isalpha() or expr[0] == '('


def use_sites(d, expr, ind, step_ctx=True):
    """the expression at the positions where its evaluated type matters"""
    d.add(ind + '- run: echo')
    d.site(ind + '  name: ', expr)
    d.add(ind + '- run: echo')
    d.site(ind + '  name: pre ', expr, ' post')
    d.add(ind + '- run: echo')
    d.add(ind + '  env:')
    d.site(ind + '    X: ', expr)
    if plain_ok(expr):
        d.add(ind + '- run: echo')
        d.site(ind + '  if: ', expr, kind='bare')
    d.add(ind + '- run: echo')
    d.site(ind + '  if: ', expr)
    d.add(ind + '- run: echo')
    d.site(ind + '  continue-on-error: ', expr)
    d.add(ind + '- run: echo')
    d.site(ind + '  timeout-minutes: ', expr)
    d.add(ind + '- uses: actions/checkout@v4')
    d.add(ind + '  with:')
    d.site(ind + '    ref: ', expr)


def call_sites(d, expr, ind):
    d.add(ind + 'uses: ./.github/workflows/callee.yml')
    d.add(ind + 'with:')
    d.site(ind + '  s: ', expr)
    d.site(ind + '  n: ', expr)
    d.site(ind + '  b: ', expr)


def matrix_doc(mlines, expr):
    d = Doc()
    d.add('on: push')
    d.add('jobs:')
    d.add('  j:')
    d.add('    strategy:')
    d.add('      matrix:')
    for ln in mlines:
        d.add('        ' + ln)
    d.site('    runs-on: ', expr)
    d.add('    steps:')
    use_sites(d, expr, '      ')
    d.add('  k:')
    d.add('    strategy:')
    d.add('      matrix:')
    for ln in mlines:
        d.add('        ' + ln)
    call_sites(d, expr, '    ')
    return d


ROOT_EXPRS = ['R', 'R.a', 'R.x', 'R[0]', "R['a']", 'R.*', 'R.*.a', 'R.a.b', '!R', 'R == 1', "R == 's'", 'R < 1', 'R == null',
              "contains(R, 's')", "startsWith(R, 's')", 'join(R)', "join(R, ',')", "format('{0}', R)", 'toJSON(R)', 'fromJSON(R)',
              "R && 's'", 'R || 1', 'github[R]', 'R[github.ref]', 'R == github', "format(R, 's')", 'R.a == R.b',
              'contains(R.*, 1)', '(R || R.a).a']


def hand_docs(tier='quick'):
    """definition pairs written by hand: (name, doc1, doc2, callee1, callee2)"""
    out = []

    def both(name, build, callee1=CALLEE, callee2=CALLEE):
        for e in ROOT_EXPRS:
            d1, d2 = build(0, e), build(1, e)
            if d1 is not None:
                out.append((name, d1, d2, callee1, callee2))

    # include entry literal -> expression (element and whole section)
    for inc1, inc2, tag in [('include: [{b: {x: 1}}]', 'include: ["' + ANYX % 'I' + '"]', 'include-element'),
                            ('include: [{b: {x: 1}}]', 'include: ' + ANYX % 'I', 'include-section'),
                            ('include: [{b: [1]}]', 'include: ["' + ANYX % 'I' + '"]', 'include-element-arr')]:
        for root in ('matrix.b', 'matrix', 'matrix.a'):
            both('matrix-' + tag, lambda v, e, i1=inc1, i2=inc2, r=root:
                 matrix_doc(['a: [{x: 1}]', i2 if v else i1], e.replace('R', r)))
    # matrix row literal -> expression, hand-picked shapes
    for row1, tag in [('a: [{x: 1}]', 'obj'), ('a: [[1]]', 'arr'), ('a: [1]', 'num'), ('a: [x]', 'str'), ('a: [null]', 'null'),
                      ('a: [true]', 'bool'), ('a: [{x: {a: 1}}]', 'obj2'), ('a: [[{a: 1}]]', 'arrobj')]:
        for row2 in ('a: ' + ANYX % 'A', 'a: ["' + ANYX % 'A' + '"]'):
            for root in ('matrix.a', 'matrix'):
                both('matrix-row-' + tag, lambda v, e, r1=row1, r2=row2, r=root:
                     matrix_doc([r2 if v else r1, 'b: ' + ANYX % 'B', 'include: [{zz: 1}]'], e.replace('R', r)))

    # workflow_dispatch input typed vs untyped
    def dispatch(ty, dflt=None, also_call=None):
        def build(v, e):
            d = Doc()
            d.add('on:')
            if also_call is not None:
                # both triggers: UpdateInputs (workflow_call) then UpdateDispatchInputs merge into one `inputs`
                d.add('  workflow_call:')
                for ln in also_call:
                    d.add('    ' + ln)
            d.add('  workflow_dispatch:')
            d.add('    inputs:')
            d.add('      x:')
            d.add('        description: d' if v else '        type: ' + ty)
            if ty == 'choice':
                d.add('        options: [p, q]' if not v else '        required: false')
            if dflt is not None:
                d.add('        default: ' + dflt)
            d.add('jobs:')
            d.add('  j:')
            d.site('    runs-on: ', e)
            d.site('    env: ', e)                  # a position that needs an object
            d.add('    steps:')
            use_sites(d, e, '      ')
            d.add('  k:')
            call_sites(d, e, '    ')
            return d
        return build
    for ty in ('string', 'boolean', 'number', 'choice', 'environment'):
        for dflt in (None, 'x', '5', 'true'):
            for root in ('inputs.x', 'inputs'):
                if dflt is not None and root == 'inputs' and ty not in ('number', 'boolean'):
                    continue
                both('dispatch-input-%s%s' % (ty, '' if dflt is None else '-default-' + dflt),
                     lambda v, e, b=dispatch(ty, dflt), r=root: b(v, e.replace('R', r)))
    # both workflow_call and workflow_dispatch: the dispatch input loosened while workflow_call contributes inputs
    for call in (['inputs:', '  w:', '    type: string'], ['inputs:', '  x:', '    type: number'], ['secrets: {}']):
        for ty in ('string', 'number', 'boolean'):
            for root in ('inputs.x', 'inputs.w', 'inputs'):
                both('both-triggers-' + ty, lambda v, e, b=dispatch(ty, None, call), r=root: b(v, e.replace('R', r)))

    # workflow_call input typed vs untyped (the parser demands `type`; only expression diagnostics are compared)
    def wcall(ty, dflt=None):
        def build(v, e):
            d = Doc()
            d.add('on:')
            d.add('  workflow_call:')
            d.add('    inputs:')
            d.add('      x:')
            d.add('        description: d' if v else '        type: ' + ty)
            if dflt is not None:
                d.add('        default: ' + dflt)
            # typed defaults of later inputs may refer to the input
            d.add('      y:')
            d.add('        type: boolean')
            d.site('        default: ', e)
            d.add('      z:')
            d.add('        type: number')
            d.site('        default: ', e)
            d.add('jobs:')
            d.add('  j:')
            d.site('    runs-on: ', e)
            d.site('    env: ', e)
            d.add('    steps:')
            use_sites(d, e, '      ')
            d.add('  k:')
            call_sites(d, e, '    ')
            return d
        return build
    for ty in ('string', 'boolean', 'number'):
        for dflt in (None, 'x', '5', 'true'):
            both('call-input-%s%s' % (ty, '' if dflt is None else '-default-' + dflt),
                 lambda v, e, b=wcall(ty, dflt): b(v, e.replace('R', 'inputs.x')))

    # fromJSON literal -> fromJSON(env.X)
    for lit in ('{"a":1}', '[{"a":1}]', '{"a":{"b":"x"}}', '[1,2]', '"s"', 'null', '{"a":1,"b":2}', '[]'):
        def build(v, e, lit=lit):
            root = 'fromJSON(env.X)' if v else "fromJSON('%s')" % lit
            d = Doc()
            d.add('on: push')
            d.add('jobs:')
            d.add('  j:')
            d.add('    runs-on: ubuntu-latest')
            d.add('    env:')
            d.add('      X: x')
            d.add('    steps:')
            use_sites(d, e.replace('R', root), '      ')
            return d
        both('fromjson-literal', build)

    # A definition "given by an expression" comes in four shapes: the whole scalar is one placeholder, text before
    # or after a placeholder, several placeholders.  (Matrix rows, include sections/elements and the matrix itself
    # only exist in the whole-scalar shape: the parser rejects the others.)
    def shapes(head, tail):
        """the text head+tail written as: `${{ 'ht' }}`, h${{ 't' }}, ${{ 'h' }}t, ${{ 'h' }}${{ 't' }}"""
        return ["${{ '%s%s' }}" % (head, tail), "%s${{ '%s' }}" % (head, tail), "${{ '%s' }}%s" % (head, tail),
                "${{ '%s' }}${{ '%s' }}" % (head, tail)]

    # step id literal -> expression (the steps object is opened)
    def steps(v, e, idtext):
        d = Doc()
        d.add('on: push')
        d.add('jobs:')
        d.add('  j:')
        d.add('    runs-on: ubuntu-latest')
        d.add('    steps:')
        d.add('      - run: echo')
        d.add('        id: ' + (idtext if v else 's1'))
        use_sites(d, e, '      ')
        return d
    for k, idtext in enumerate(shapes('s', '1')):
        for root in ('steps.s1', 'steps.s1.outputs', 'steps.s1.outputs.x', 'steps', 'steps.s1.conclusion'):
            both('step-id-shape%d' % k, lambda v, e, r=root, t=idtext: steps(v, e.replace('R', r), t))

    # (`uses:` given by an expression turns the closed outputs object of a known action / local callee into
    # {string => string}; that is not a loosening in the sense of A.6 -- a dynamic index of a closed object is any,
    # of a string map it is string -- so it is deliberately not part of this check.)

    # matrix value literal -> expression: the whole-scalar shape has the type of the expression (any here), the mixed
    # shapes are strings like the literal they replace
    for k, text in enumerate(['"' + ANYX % 'A' + '"', '"x${{ vars.Y }}"', '"${{ vars.X }}y"', '"${{ vars.X }}${{ vars.Y }}"']):
        for lit1, tmpl, tag in [('x', '[%s]', 'str'), ('x', '[{x: %s}]', 'objstr'), ('x', '[[%s]]', 'arrstr')]:
            for root in ('matrix.a', 'matrix'):
                both('matrix-value-%s-shape%d' % (tag, k), lambda v, e, a1=tmpl % lit1, a2=tmpl % text, r=root:
                     matrix_doc(['a: ' + (a2 if v else a1), 'include: [{zz: 1}]'], e.replace('R', r)))

    def both_with(name, exprs, build):
        for e in exprs:
            out.append((name, build(0, e), build(1, e), CALLEE, CALLEE))

    # MERGE sites, lint level.  `include` lists of 2 and 3 elements, each defining its own key, written as a literal
    # mapping or as ${{ fromJSON('<literal>') }} (merged into the matrix type); the loosening replaces ONE element, at
    # each position, by an expression of unknown type (which opens the matrix).  Whatever follows it in the list, the
    # key only that element could supply must stay accepted.
    inc_exprs = ['matrix.b', 'matrix.c', 'matrix.d', 'matrix.os', 'matrix.zz', 'matrix.*', "matrix['b']", "matrix['d']",
                 'toJSON(matrix)', 'matrix.b == 1', 'matrix.c.x']
    keys = ['b', 'c', 'd']

    def inc_elem(form, k):
        return '{%s: 1}' % k if form == 'map' else "${{ fromJSON('{\"%s\":1}') }}" % k
    import itertools
    for n in (2, 3):
        for forms in itertools.product(('map', 'json'), repeat=n):
            for pos in range(n):
                def build(v, e, forms=forms, pos=pos, n=n):
                    lines = ['os: [x]', 'include:']
                    for i in range(n):
                        lines.append('  - ' + (ANYX % 'I' if (v and i == pos) else inc_elem(forms[i], keys[i])))
                    return matrix_doc(lines, e)
                both_with('include-list%d-pos%d' % (n, pos), inc_exprs, build)

    # The same with ONE key defined by every element (object values with different members): an element of unknown type
    # may define that key with any value, so what the replaced literal contributed (matrix.a.x) must stay accepted.
    same_exprs = ['matrix.a.x', 'matrix.a.y', 'matrix.a.z', 'matrix.a', 'matrix.a.*', 'matrix.a == github.event', 'matrix.a.x.w']
    members = ['x', 'y', 'z']

    def same_elem(form, m):
        return '{a: {%s: 1}}' % m if form == 'map' else "${{ fromJSON('{\"a\":{\"%s\":1}}') }}" % m
    for n in (2, 3):
        for forms in itertools.product(('map', 'json'), repeat=n):
            for pos in range(n):
                def build(v, e, forms=forms, pos=pos, n=n):
                    lines = ['os: [x]', 'include:']
                    for i in range(n):
                        lines.append('  - ' + (ANYX % 'I' if (v and i == pos) else same_elem(forms[i], members[i])))
                    return matrix_doc(lines, e)
                both_with('include-samekey%d-pos%d' % (n, pos), same_exprs, build)

    # Rows in list form mixing statically typed elements; the loosening replaces ONE element, at each position of rows
    # of length 2 and 3, by a ${{ }} element of unknown type.  The row is then unknown as a whole: every use the
    # replaced element allowed (property, index, filter, comparison with object/array, array parameter) stays accepted.
    row_exprs = ['matrix.cfg.name', 'matrix.cfg[0]', 'matrix.cfg.*', 'matrix.cfg == github.event', "matrix.cfg == fromJSON('[1]')",
                 'join(matrix.cfg)', 'contains(matrix.cfg, 1)', 'matrix.cfg.name.x', 'matrix.cfg < 1', "startsWith(matrix.cfg, 'x')"]
    lits2 = ['x', '1', 'true', 'null', '{name: x}', '[1]']
    lits3 = ['x', '1', '{name: x}', '[1]'] if tier == 'thorough' else ['x', '{name: x}', '[1]']
    for n, lits in ((2, lits2), (3, lits3)):
        for elems in itertools.product(lits, repeat=n):
            if any(elems.count(x) > 1 for x in ('true', 'null')):
                continue        # the matrix rule reports duplicate values
            for pos in range(n):
                def build(v, e, elems=elems, pos=pos):
                    # distinct values per position (x -> p, q, r; 1 -> 1, 2, 3)
                    names = 'pqr'
                    vals = [{'x': names[i], '1': str(i + 1), '{name: x}': '{name: %s}' % names[i], '[1]': '[%d]' % (i + 1)}.get(x, x)
                            for i, x in enumerate(elems)]
                    row = [('"' + ANYX % 'U' + '"') if (v and i == pos) else x for i, x in enumerate(vals)]
                    return matrix_doc(['cfg: [' + ', '.join(row) + ']', 'include: [{zz: 1}]'], e)
                both_with('row%d-pos%d' % (n, pos), row_exprs, build)

    # Whole-section forms: `include:`, `exclude:`, a whole row and the whole `matrix:` given as ONE expression whose
    # static type walks down the loosening order (array<{k: string}> -> array<{k: any}> -> array<any> -> any),
    # combined with 0, 1, 2 static rows.  The definition line is itself a site (the section demands an array/object
    # there); the uses are a key only the expression side defines, the row keys, `.*`.
    def section_doc(mlines, e, whole_matrix=None):
        d = Doc()
        d.add('on: push')
        d.add('jobs:')
        d.add('  j:')
        d.add('    strategy:')
        if whole_matrix is not None:
            d.site('      matrix: ', whole_matrix)
        else:
            d.add('      matrix:')
            for ln in mlines:
                if isinstance(ln, tuple):
                    d.site('        ' + ln[0], ln[1])
                else:
                    d.add('        ' + ln)
        d.site('    runs-on: ', e)
        d.add('    steps:')
        use_sites(d, e, '      ')
        return d

    def chain_pairs(chain):
        return [(a, b) for a in chain for b in chain if a[1] < b[1]]
    unknown_arr = [('A2', 2, 'fromJSON(vars.X).*'), ('A2b', 2, 'github.event.client_payload.targets.*'), ('A2c', 2, "fromJSON('[]')")]
    rowsets = [[], ['os: [x]'], ['os: [x]', 'ver: [1]']]
    sec_exprs = ['matrix.arch', 'matrix.os', 'matrix.ver', 'matrix.*', 'matrix.zz', 'matrix', 'matrix.arch.x', "matrix['arch']"]
    inc_chain = [('A0', 0, "fromJSON('[{\"arch\":\"x\"}]')"), ('A1', 1, "fromJSON('[{\"arch\":\"x\"},{\"arch\":{}}]')")] + \
        unknown_arr + [('A3', 3, 'fromJSON(vars.X)')]
    for a, b in chain_pairs(inc_chain):
        for rows in rowsets:
            both_with('section-include-%s-%s' % (a[0], b[0]), sec_exprs,
                      lambda v, e, a=a, b=b, rows=rows: section_doc(rows + [('include: ', (b if v else a)[2])], e))
    exc_chain = [('E0', 0, "fromJSON('[{\"os\":\"x\"}]')"), ('E1', 1, "fromJSON('[{\"os\":\"x\"},{\"os\":{}}]')")] + \
        [('E' + n[1:], l, t) for n, l, t in unknown_arr] + [('E3', 3, 'fromJSON(vars.X)')]
    for a, b in chain_pairs(exc_chain):
        for rows in rowsets[1:]:
            both_with('section-exclude-%s-%s' % (a[0], b[0]), sec_exprs[:5],
                      lambda v, e, a=a, b=b, rows=rows: section_doc(rows + [('exclude: ', (b if v else a)[2])], e))
    row_chain = [('R0', 0, "fromJSON('[\"x\"]')"), ('R0b', 0, "fromJSON('[{\"name\":\"x\"}]')"),
                 ('R1', 1, "fromJSON('[{\"name\":\"x\"},{\"name\":{}}]')")] + \
        [('R' + n[1:], l, t) for n, l, t in unknown_arr] + [('R3', 3, 'fromJSON(vars.X)')]
    row_uses = ['matrix.os', 'matrix.os.name', 'matrix.os[0]', 'matrix.os.*', 'matrix.*', 'matrix.ver', 'join(matrix.os)',
                "startsWith(matrix.os, 'x')", 'matrix.os.name.x']
    for a, b in chain_pairs(row_chain):
        if a[0] == 'R0' and b[0] == 'R1':
            continue        # array<string> and array<{name: any}> are unrelated
        for rows in ([], ['ver: [1]'], ['ver: [1]', 'arch: [{x: 1}]']):
            both_with('section-row-%s-%s' % (a[0], b[0]), row_uses,
                      lambda v, e, a=a, b=b, rows=rows: section_doc(rows + [('os: ', (b if v else a)[2])], e))
    mat_chain = [('M0', 0, "fromJSON('{\"os\":[\"x\"],\"include\":[{\"arch\":\"x\"}]}')"),
                 ('M1', 1, "fromJSON('{\"os\":[\"x\"],\"include\":[{\"arch\":\"x\"},{\"arch\":{}}]}')"),
                 ('M3', 3, 'fromJSON(vars.M)')]
    # (an `include` member typed array<any> inside the object cannot be written except as the literal `[]`, which is
    # known to add no key; the diagnostic for matrix.arch is right there, so that form is not a loosening)
    mat_uses = ['matrix.arch', 'matrix.os', 'matrix.os[0]', 'matrix.*', 'matrix.zz', 'matrix', 'matrix.arch.x']
    for a, b in chain_pairs(mat_chain) + [(('M0n', 0, "fromJSON('{\"os\":[\"x\"]}')"), mat_chain[-1])]:
        both_with('section-matrix-%s-%s' % (a[0], b[0]), mat_uses,
                  lambda v, e, a=a, b=b: section_doc([], e, whole_matrix=(b if v else a)[2]))

    # callee input typed vs untyped, caller unchanged
    for row in ('a: [{x: 1}]', 'a: [[1]]', 'a: [1]', 'a: [x]', 'a: [null]', 'a: [true]', 'a: ' + ANYX % 'A'):
        both('callee-input', lambda v, e, r=row: matrix_doc([r, 'include: [{zz: 1}]'], e.replace('R', 'matrix.a')),
             callee1=CALLEE, callee2=CALLEE_ANY)
    return out


ALLOWED_REST = ['"type" is missing at "x" input of workflow_call event']


def lint_part(ck, sd, tier, rng, finds, pairs, lintable):
    cases = []      # (name, doc1, doc2, callee1, callee2, vector info)
    limit = 700 if tier == 'quick' else 6000
    rng.shuffle(lintable)
    for v, r1, r2 in lintable:
        if len(cases) >= limit:
            break
        p = pairs[v['i']]
        m1 = matrix_def(p['g1']['matrix'], len(cases))
        m2 = matrix_def(p['g2']['matrix'], len(cases))
        if m1 is None or m2 is None or len(m1) != len(m2):
            continue
        cases.append(('vector-matrix', matrix_doc(m1, v['t1']), matrix_doc(m2, v['t1']), CALLEE, CALLEE, (v, r1, r2)))
    nvec = len(cases)
    for name, d1, d2, c1, c2 in hand_docs(tier):
        cases.append((name, d1, d2, c1, c2, None))
    inp = []
    for i, (name, d1, d2, c1, c2, _) in enumerate(cases):
        if name.startswith('section-'):
            same_place = [(s['line'], s['col']) for s in d1.sites] == [(s['line'], s['col']) for s in d2.sites]
        else:
            same_place = [(s['line'], s['col'], s['expr']) for s in d1.sites] == [(s['line'], s['col'], s['expr']) for s in d2.sites]
        if not same_place and name != 'fromjson-literal':
            raise Inconclusive('renderer: the two variants of %s place the expression differently' % name)
        inp.append({'id': 2 * i, 'src': d1.text(), 'callee': c1, 'sites': d1.sites})
        inp.append({'id': 2 * i + 1, 'src': d2.text(), 'callee': c2, 'sites': d2.sites})
    vplib.write_jsonl(os.path.join(sd, 'lin.jsonl'), inp)
    vplib.run_harness(['sema-lint', os.path.join(sd, 'lin.jsonl'), os.path.join(sd, 'lout.jsonl'), vplib.subdir('c06-proj')],
                      timeout=3000)
    outs = vplib.read_jsonl(os.path.join(sd, 'lout.jsonl'))
    records, origin = [], []
    render_drift = 0
    for i, (name, d1, d2, c1, c2, vec) in enumerate(cases):
        o1, o2 = outs[2 * i], outs[2 * i + 1]
        for o, d in ((o1, d1), (o2, d2)):
            if o.get('fail') or o['other']:
                raise Inconclusive('lint observable not understood (%s): %s %r\n%s' % (name, o.get('fail'), o['other'][:2], d.text()))
        rest1 = sorted((x['kind'], x['msg']) for x in o1['rest'])
        rest2 = sorted((x['kind'], x['msg']) for x in o2['rest'] if not any(a in x['msg'] for a in ALLOWED_REST))
        extra = list((collections.Counter(rest2) - collections.Counter(rest1)).elements())
        if extra:
            # the definition given by an expression must itself be clean, otherwise the rendering is not a loosening
            raise Inconclusive('rendered pair %s: the expression variant has diagnostics outside the expression sites that '
                               'the literal variant has not: %r\n%s' % (name, extra, d2.text()))
        if vec is not None:
            v, r1, r2 = vec
            # binding of the renderer: the sema diagnostics at the first template site = those of the API-level run
            for o, rr in ((o1, r1), (o2, r2)):
                got = frozenset((e['c'], e['p']) for e in o['sites'][1] if e['p'] >= 0)
                if got != eset(rr['errs']):
                    render_drift += 1
        for si, s in enumerate(d1.sites):
            records.append({'a': o1['sites'][si], 'b': o2['sites'][si], 'ka': 'any', 'kb': 'any', 'mk': 'none'})
            origin.append((i, si))
    mism, drift, masked = validate(ck, records, 'expression sites of %d workflow pairs (%d from TLC vectors rendered as matrix '
                                   'literals, %d hand-written definition pairs)' % (len(cases), nvec, len(cases) - nvec), 'trace-lint')
    for j in sorted(mism):
        i, si = origin[j]
        name, d1, d2, c1, c2, vec = cases[i]
        s = d1.sites[si]
        a, b = eset(records[j]['a']), eset(records[j]['b'])
        cls = new_classes(a, b)
        finds.add('lint:%s:%s' % (name, '+'.join(cls)), len(d1.text()) + len(s['expr']),
                  '`%s` at line %d (%s position) is accepted with the literal definition but reported %s when the definition '
                  'is given by an expression:\n%s' % (s['expr'], s['line'], s['kind'], sorted(b), d2.text()),
                  {'kind': 'lint', 'name': name, 'src1': d1.text(), 'src2': d2.text(), 'callee1': c1, 'callee2': c2,
                   'sites': d2.sites, 'sites1': d1.sites, 'site_index': si, 'new_classes': cls, 'expr': s['expr']})
    ck.cov['lint_workflow_pairs'] = len(cases)
    ck.cov['lint_sites'] = len(records)
    ck.cov['lint_sites_accepted_with_literal'] = sum(1 for x in records if not x['a'])
    ck.cov['lint_sites_with_masked_new_diagnostic'] = len(masked - mism)
    if render_drift:
        ck.cov['lint_renderings_not_matching_api_run'] = render_drift
        ck.note('%d of %d vector renderings report other sema diagnostics at the template site than the API-level run of '
                'the same vector (the literal does not produce exactly the environment of the vector)' % (render_drift, 2 * nvec))
    ck.cov['evaluations'] += 2 * len(cases)
    ck.cov['traces_validated_against_impl'] += len(records)
    ck.cov['distinct_nontrivial'] += sum(1 for x in records if x['a'] or x['b'])
    if cases:
        ck.sample({'workflow_literal': cases[0][1].text(), 'workflow_expression': cases[0][2].text()})


# ------------------------------------------------------------------------------------ entry points

def run(ck, tier):
    sd = vplib.subdir('c06')
    rng = random.Random(vplib.seed())
    finds = Findings()
    pairs, lintable = api_part(ck, sd, tier, rng, finds)
    lint_part(ck, sd, tier, rng, finds, pairs, lintable)
    recs = random_part(ck, sd, tier, rng, finds)
    if tier == 'thorough':
        # binding self-test: a record claiming a new diagnostic under G' must be rejected
        good = [dict(x) for x in recs[:50] if not x['a'] and not x['b']][:5]
        if len(good) < 3:
            raise Inconclusive('binding self-test: no accepted records to corrupt')
        good[2]['b'] = [{'c': 'prop-undef', 'p': 0}]
        mism, drift, _ = validate(ck, good, 'binding self-test', 'trace-selftest')
        ck.cov['binding_selftest'] = 'rejected' if mism == {2} and 2 in drift else 'NOT rejected: %r %r' % (mism, drift)
        if mism != {2}:
            raise Inconclusive('binding self-test failed: corrupted record not rejected')
        # guard of the E layer: on the model WITH the disabled deviation FilterAnyProp TLC must find the
        # counterexample to any-monotonicity
        t = vplib.run_tlc('ExprSema', 'ExprSema_asread.cfg', timeout=1200, name='asread')
        ck.add_tlc('ExprSema guard: any-monotonicity of the model with the disabled deviation FilterAnyProp (must be violated)', t)
        ck.cov['model_with_disabled_deviation'] = 'violates any-monotonicity (as expected)' if t.violated == 'AnyMonoAsRead' \
            else 'NOT violated: %r' % t.violated
        if t.violated != 'AnyMonoAsRead':
            raise Inconclusive('E self-test failed: TLC finds no counterexample to any-monotonicity on the model with the '
                               'deviation FilterAnyProp')
    finds.emit(ck)
    ck.cov['rule'] = ('every state of the TLC generator = one triple (expression, environment, single-step loosening): access '
                      'chains of length <= 3 over 5-6 operators on a context variable of every small object type, one- and '
                      'two-level consumers (operators, contains/startsWith/format/join/toJSON/fromJSON) of a property of every '
                      'small type, the six installable contexts incl. inputs/dispatch merge, fromJSON literal vs expression, || and && of two object literals with one operand replaced by an open object / unknown value; '
                      'each executed on the real checker under both environments; non-trivial = a diagnostic is predicted '
                      'under one of them; plus workflow renderings linted and random deeper triples validated by TLC')
    ck.cov['exhaustive'] = True
    ck.assumptions += [
        'the property is judged as acceptance: a diagnostic-free expression stays diagnostic-free (diagnostics may legitimately '
        'change when the expression was already rejected, because a reported operand is typed any and masks later reports)',
        'context availability (C12) is switched off at API level (every context allowed); property names a, b, c / x stand for all',
        'Update* takes object types, so the type of a context variable itself is never replaced by any',
        'lint level: only diagnostics of rule "expression" are compared; the definition change itself must not change any other diagnostic',
        'message classes are recognised by anchor phrases; an unknown message makes the check inconclusive']


def replay(path):
    rp = json.load(open(path))['replay']
    sd = vplib.subdir('c06r')

    class _Ck:
        cov = {'tlc_runs': []}

        def add_tlc(self, *a):
            pass

        def note(self, s):
            print('note:', s)
    if rp['kind'] == 'api':
        vplib.write_jsonl(os.path.join(sd, 'i.jsonl'), [{'id': 0, 'i': 0, 't1': rp['t1'], 't2': rp['t2'], 'g1': rp['g1'], 'g2': rp['g2']}])
        open(os.path.join(sd, 'np.jsonl'), 'w').close()
        vplib.run_harness(['sema-vectors', os.path.join(sd, 'np.jsonl'), os.path.join(sd, 'i.jsonl'), os.path.join(sd, 'o.jsonl')])
        o = vplib.read_jsonl(os.path.join(sd, 'o.jsonl'))[0]
        print('`%s` under G : %s type %s' % (rp['t1'], o['r1']['errs'], o['r1']['k']))
        print('`%s` under G\': %s type %s' % (rp['t2'], o['r2']['errs'], o['r2']['k']))
        if o['r1'].get('fail') or o['r2'].get('fail') or o['r1']['other'] or o['r2']['other']:
            print('observable not understood')
            return 2
        rec = {'a': o['r1']['errs'], 'b': o['r2']['errs'], 'ka': o['r1']['k'], 'kb': o['r2']['k'], 'mk': 'none'}
    else:
        inp = [{'id': 0, 'src': rp['src1'], 'callee': rp['callee1'], 'sites': rp['sites1']},
               {'id': 1, 'src': rp['src2'], 'callee': rp['callee2'], 'sites': rp['sites']}]
        vplib.write_jsonl(os.path.join(sd, 'i.jsonl'), inp)
        vplib.run_harness(['sema-lint', os.path.join(sd, 'i.jsonl'), os.path.join(sd, 'o.jsonl'), vplib.subdir('c06r-proj')])
        o1, o2 = vplib.read_jsonl(os.path.join(sd, 'o.jsonl'))
        si = rp['site_index']
        print(rp['src2'])
        print('site %d literal   : %s' % (si, o1['sites'][si]))
        print('site %d expression: %s' % (si, o2['sites'][si]))
        rec = {'a': o1['sites'][si], 'b': o2['sites'][si], 'ka': 'any', 'kb': 'any', 'mk': 'none'}
    mism, _, _ = validate(_Ck(), [rec], 'replay', 'trace-replay')
    print('property violated' if mism else 'property holds')
    return 1 if mism else 0
