"""C07 - diagnostics point at the exact source position.

E: TLC checks Position.tla for every parameter value of each configuration: the arithmetic of the code (state
   machine: scalar column, +1 for a quoted scalar, `${{` offsets accumulated over earlier placeholders and literal
   text, lexer column -> file column, bare `if:` condition, glob column, node position of keys / values) gives
   exactly the TRUTH read off the rendered text (Exact), the truth moves by exactly k when k blanks are put in
   front of the construct or k lines above it (ShiftLaw), and lies inside the file (InFile).
G: every state of these runs is dumped: diagnostic class (catalogue of 102 classes: lexer / parser / semantic /
   untrusted / availability errors inside ${{ }} and bare `if:` conditions, unknown / duplicate keys, value errors
   of ids, shell names, permissions, runner labels, cron, events, matrix, needs, actions ..., characters of filter
   patterns) x placement (slot, quoting, block / flow, indentation unit, sequence indentation, nesting depth,
   prefix length, earlier placeholders, blanks after `${{`, blanks at the start / inside / at the end of a quoted
   scalar, negated `!pattern` form of filter patterns, k inserted blanks, k inserted lines, `---`) with the abstract
   document and the predicted (line, col).  The harness renders the document with the general renderer
   (render.go, compared node by node with yaml.v3; token position, quoting, line text and line count must agree
   with the layout TLC computed, otherwise the check is inconclusive), runs the real Linter.Lint and the
   diagnostic of the class must be reported exactly at the predicted position, and nowhere else.
   Shift relation, between two real outputs: within every group of vectors that differ only in what is put in
   front of / above the construct (blanks, lines, prefix text, indentation, `---`), the reported position moves
   against the group's reference exactly as the truth moves.
   Two rules on one scalar: the slots filter / types / matrixdup2 and the classes *-expr put a construct diagnosed by
   RuleGlob / RuleEvents / RuleMatrix / RuleDeprecatedCommands / RuleIfCond next to one diagnosed by RuleExpression
   in the same scalar, so that a rule that disturbs the node position another rule reports later is seen.
   Chosen positions: diagnostics whose position is chosen among candidates (later of two exclusive filter keys, first
   job of a needs cycle, second of two equal values / keys / ids) are also generated in WRAPPED flow collections whose
   continuation line is indented less than the first entry (line order and column order disagree), and the earlier
   occurrence named in the message ("previously defined at line:L,col:C") must be the one TLC marked.
   Every diagnostic of every run (and of the repository's own test workflows): 1 <= line <= number of lines,
   col >= 1, unless it is the YAML-level syntax error.
"""
import json
import os
import re

import vplib
from vplib import Inconclusive

LEVEL = 'model_checking'

PLANS = {
    'quick': [
        ('Position_arith_q.cfg', 'offset arithmetic: 4 classes x 12 slots x quoting x prefix 0..5 x earlier 0..3 x blanks 0..2'),
        ('Position_classes_q.cfg', 'all 27 expression classes x slots x quoting x block/flow'),
        ('Position_kv_q.cfg', '71 key / value / glob classes (every parser diagnostic about a key or one-line value) x quoting x style x indentation x shifts k=1..3'),
        ('Position_layout_q.cfg', 'expressions x indentation unit x sequence indentation x depth x style x shifts'),
    ],
    'thorough': [
        ('Position_arith_t.cfg', 'offset arithmetic: all 27 expression classes x 12 slots x quoting x block/flow x prefix 0..5 '
                                 'x earlier 0..3 x blanks 0..2 x depth'),
        ('Position_kv_t.cfg', '71 key / value / glob classes x quoting x style x 5 indentation units x --- x shifts k=1..3'),
        ('Position_layout_t.cfg', 'expressions x 5 indentation units x sequence indentation x depth 0..2 x style x --- x '
                                  'shifts k=1..3'),
    ],
}

SLOT_SITE = {'ifb': 'if-cond-bare', 'jobifb': 'if-cond-bare', 'ifw': 'if-cond-wrapped', 'matrix': 'matrix-value', 'env': 'env-value',
             'runname': 'run-name', 'stepname': 'step-name', 'run': 'run-script', 'with': 'with-input',
             'timeout': 'timeout-minutes', 'filter': 'filter-value', 'types': 'activity-type-value',
             'matrixdup2': 'matrix-value'}      # site = code path: both matrix slots go through checkRawYAMLString

# parameters that only put something in front of / above the construct
SHIFT_PARAMS = ('gap', 'kl', 'plen', 'ind', 'seqind', 'docstart', 'pad', 'neg', 'wrap')


def site_of(v):
    p = v['p']
    q = 'plain' if p['quote'] == 'plain' else 'quoted'
    if v['fam'] in ('tok', 'ph'):
        return '%s-%s' % (SLOT_SITE[p['slot']], q)
    return '%s-%s' % (v['cls'], q)


def is_yaml_error(d):
    return d['kind'] == 'syntax-check' and 'could not parse as YAML' in d['msg']


def bounds_bad(diags, nlines):
    nlines = max(nlines, 1)       # an empty file counts as one (empty) line: 1:1 is the only position it has
    return [d for d in diags if not is_yaml_error(d) and not (1 <= d['line'] <= nlines and d['col'] >= 1)]


def positions(v, o):
    """positions at which the real linter reports the diagnostic class of the vector"""
    return sorted({(d['line'], d['col']) for d in o['diags'] if d['kind'] == v['kind'] and v['phrase'] in d['msg']})


def show(o, limit=4):
    return '; '.join('%d:%d [%s] %s' % (d['line'], d['col'], d['kind'], d['msg'][:90]) for d in o['diags'][:limit])


def generate(ck, cfg, label):
    r = vplib.run_tlc('Position', cfg, dump='vectors', timeout=3000)
    ck.add_tlc('Position %s' % label, r)
    if r.violated:
        raise Inconclusive('Position.tla violates its own invariant %s under %s (model level: arithmetic and truth of the '
                           'specification disagree)' % (r.violated, cfg))
    vs = vplib.read_dump_json(os.path.join(r.dir, 'vectors.dump'))
    if len(vs) != r.distinct:
        raise Inconclusive('dump has %d states, TLC reported %d (%s)' % (len(vs), r.distinct, cfg))
    return [v for v in vs if v.get('prop') == 'C07']


def execute(sd, vecs, name='vec'):
    fi, fo = os.path.join(sd, name + '-in.jsonl'), os.path.join(sd, name + '-out.jsonl')
    vplib.write_jsonl(fi, [{'id': i, 'doc': v['doc'], 'p': v['p'], 'sc': v['sc'], 'nlines': v['nlines'], 'tline': v['tline']}
                           for i, v in enumerate(vecs)])
    vplib.run_harness(['position-run', fi, fo], timeout=3000)
    outs = vplib.read_jsonl(fo)
    if len(outs) != len(vecs) or any(o['id'] != i for i, o in enumerate(outs)):
        raise Inconclusive('harness returned %d records for %d vectors' % (len(outs), len(vecs)))
    return outs


def expected(v):
    """the predicted positions: the target and, in the slots that hold the construct twice, its companion"""
    e = {(v['exp']['line'], v['exp']['col'])}
    if v.get('exp2') and v['exp2']['line'] > 0:
        e.add((v['exp2']['line'], v['exp2']['col']))
    return sorted(e)


_NAMED = re.compile(r'line:(\d+),col:(\d+)')


def named_wrong(v, o):
    """positions of an earlier occurrence named inside the message ("previously defined at line:L,col:C") that are
    not the occurrence TLC marked; [] if the message names none or the right one"""
    pv = v.get('prev')
    if not pv or pv['line'] <= 0:
        return []
    bad = []
    for d in o['diags']:
        if d['kind'] == v['kind'] and v['phrase'] in d['msg']:
            bad += [(int(a), int(b)) for a, b in _NAMED.findall(d['msg']) if (int(a), int(b)) != (pv['line'], pv['col'])]
    return bad


def judge(v, o):
    """-> ('ok' | 'undiagnosed' | 'wrong', positions) for one vector against the TLC prediction"""
    pos = positions(v, o)
    if not pos:
        return 'undiagnosed', pos
    return ('ok' if pos == expected(v) else 'wrong'), pos


def deltas_of(v, pos):
    e = expected(v)
    if len(e) == len(pos):
        return {'%d,%d' % (a - x, b - y) for (a, b), (x, y) in zip(pos, e)}
    return {'%d,%d' % (a - e[0][0], b - e[0][1]) for a, b in pos}


def slim(v):
    return {k: v[k] for k in ('cls', 'fam', 'kind', 'phrase', 'p', 'doc', 'exp', 'exp2', 'prev', 'sc', 'nlines', 'tline')}


def light(v):
    """what is kept of a vector once it has been run (documents and sources only for the examples of violations)"""
    return {k: v[k] for k in ('cls', 'fam', 'kind', 'phrase', 'p', 'exp', 'exp2')}


def run(ck, tier):
    sd = vplib.subdir('c07')
    seen = set()
    wrong = {}       # site -> {'n', 'deltas', 'classes', 'ex': (vector, out, positions)}
    bounds = {}      # site -> {'n', 'ex': (vector, out, bad)}
    named = {}       # site -> {'n', 'ex': (vector, out, wrongly named positions)}
    judged, undiag = {}, {}
    pairs = set()
    vecs, res, keep = [], [], {}      # light vectors, (verdict, positions), full (vector, out) of the first vectors
    selftest = None
    for n, (cfg, label) in enumerate(PLANS[tier]):
        part = []
        for v in generate(ck, cfg, label):
            k = json.dumps(v['p'], sort_keys=True)
            if k not in seen:
                seen.add(k)
                part.append(v)
        part.sort(key=lambda v: json.dumps(v['p'], sort_keys=True))
        outs = execute(sd, part, 'vec%d' % n)
        for v, o in zip(part, outs):
            if o['err']:
                raise Inconclusive('vector could not be materialised (%s, %s): %s\n%s'
                                   % (v['cls'], json.dumps(v['p']), o['err'], o['src']))
            i = len(vecs)
            bad = bounds_bad(o['diags'], o['nlines'])
            if bad:
                b = bounds.setdefault('bounds:' + site_of(v), {'n': 0, 'ex': (slim(v), o, bad)})
                b['n'] += 1
            verdict, pos = judge(v, o)
            vecs.append(light(v))
            res.append((verdict, pos))
            cs = (v['cls'], v['p']['slot'])
            pairs.add(cs)
            if verdict == 'undiagnosed':
                undiag.setdefault(cs, (slim(v), o))
                continue
            judged[cs] = judged.get(cs, 0) + 1
            if verdict == 'ok' and (selftest is None or (selftest[0]['p']['earlier'] == 0 and v['p']['earlier'] > 0)):
                selftest = (slim(v), o, pos)
            nb = named_wrong(v, o)
            if nb:
                w = named.setdefault('named:' + site_of(v), {'n': 0, 'ex': (slim(v), o, nb)})
                w['n'] += 1
            if verdict == 'wrong':
                w = wrong.setdefault(site_of(v), {'n': 0, 'deltas': set(), 'classes': set(), 'ex': (slim(v), o, pos)})
                w['n'] += 1
                w['classes'].add(v['cls'])
                w['deltas'] |= deltas_of(v, pos)
            # the shift relation needs the source of both runs only for its report: keep the text, not the document
            keep[i] = o['src']
        del part, outs

    # ---- shift relation between two real outputs
    groups = {}
    for i, v in enumerate(vecs):
        ident = json.dumps({k: x for k, x in v['p'].items() if k not in SHIFT_PARAMS}, sort_keys=True)
        groups.setdefault(ident, []).append(i)
    shift_bad = {}
    npairs = 0
    for ident, idx in groups.items():
        idx = [i for i in idx if len(res[i][1]) == len(expected(vecs[i]))]
        if len(idx) < 2:
            continue
        r0 = idx[0]
        for i in idx[1:]:
            npairs += 1
            want = tuple((a - x, b - y) for (a, b), (x, y) in zip(expected(vecs[i]), expected(vecs[r0])))
            got = tuple((a - x, b - y) for (a, b), (x, y) in zip(res[i][1], res[r0][1]))
            if len(want) == 1:
                want, got = want[0], got[0]
            if want != got:
                shift_bad.setdefault('shift:' + site_of(vecs[i]), []).append((r0, i, want, got))

    # ---- the repository's own workflows: bounds of every diagnostic
    file_bad, nfiles, nfdiags = files_part(sd)

    for site, w in sorted(wrong.items()):
        v, o, pos = w['ex']
        deltas = ' '.join(sorted(w['deltas']))
        ck.violation(site,
                     '%s: the %s diagnostic is not reported at the position of the offending token for %d of the generated '
                     'placements (line,col differences observed - expected: %s; classes: %s), e.g. expected %d:%d, reported at %s:\n%s'
                     % (site, v['cls'], w['n'], deltas, ', '.join(sorted(w['classes'])),
                        expected(v)[0][0], expected(v)[0][1], pos, o['src']),
                     {'kind': 'exact', 'deltas': deltas, 'count': w['n'], 'classes': sorted(w['classes']), 'vector': v,
                      'src': o['src'], 'observed_positions': pos, 'observed': o['diags']})
    for site, w in sorted(named.items()):
        v, o, nb = w['ex']
        ck.violation(site,
                     '%s: the message of the %s diagnostic names %s as the earlier occurrence, which is at %d:%d, in %d of the '
                     'generated placements:\n%s' % (site, v['cls'], nb, v['prev']['line'], v['prev']['col'], w['n'], o['src']),
                     {'kind': 'named', 'count': w['n'], 'vector': v, 'src': o['src'], 'named': nb, 'observed': o['diags']})
    for site, lst in sorted(shift_bad.items()):
        r0, i, want, got = lst[0]
        ck.violation(site,
                     '%s: %d pairs of placements that differ only in what is in front of / above the construct: the truth moves by '
                     '(lines, columns) %s, the report moves by %s\n--- reference, reported at %s:\n%s--- shifted, reported at %s:\n%s'
                     % (site, len(lst), want, got, res[r0][1], keep[r0], res[i][1], keep[i]),
                     {'kind': 'shift', 'count': len(lst), 'want': list(want), 'got': list(got),
                      'reference': dict(vecs[r0], src=keep[r0]), 'vector': dict(vecs[i], src=keep[i])})
    for site, b in sorted(bounds.items()):
        v, o, bad = b['ex']
        ck.violation(site, '%s: %d runs produce a diagnostic outside the file (%d lines), e.g. %d:%d [%s] %s\n%s'
                     % (site, b['n'], o['nlines'], bad[0]['line'], bad[0]['col'], bad[0]['kind'], bad[0]['msg'][:120], o['src']),
                     {'kind': 'bounds', 'count': b['n'], 'vector': v, 'src': o['src'], 'bad': bad})
    for f, n, bad in file_bad:
        ck.violation('bounds-file:' + os.path.basename(f),
                     '%s (%d lines): diagnostic outside the file: %d:%d [%s] %s'
                     % (f, n, bad[0]['line'], bad[0]['col'], bad[0]['kind'], bad[0]['msg'][:120]),
                     {'kind': 'bounds-file', 'file': os.path.relpath(f, vplib.REPO), 'bad': bad})

    missing = sorted(cs for cs in pairs if cs not in judged)
    if undiag:
        ck.cov['undiagnosed'] = ['%s/%s' % cs for cs in sorted(undiag)]
        (c, s), (v, o) = sorted(undiag.items())[0]
        ck.note('%d (class, slot) pairs have placements in which the real linter does not report the class at all (not a '
                'position question), e.g. %s in %s: %s' % (len(undiag), c, s, show(o) or 'no diagnostic'))
        ck.cov['undiagnosed_pairs'] = len(undiag)
    unmatched = [x for x in ck.violations if vplib.match_known(ck.prop, dict(x['replay'], site=x['site'])) is None]
    if missing and not unmatched:
        v, o = undiag[missing[0]]
        raise Inconclusive('catalogue class %s is never diagnosed in slot %s (message reworded or construct accepted?): %s\n%s'
                           % (missing[0][0], missing[0][1], show(o) or 'no diagnostic', o['src']))

    # ---- binding self-test: a prediction that is off by one must be rejected
    if selftest is None:
        raise Inconclusive('no vector at all was reported at the predicted position')
    fake = dict(selftest[0], exp={'line': selftest[0]['exp']['line'], 'col': selftest[0]['exp']['col'] + 1})
    ck.cov['binding_selftest'] = 'rejected' if judge(fake, selftest[1])[0] == 'wrong' else 'NOT rejected'
    if ck.cov['binding_selftest'] != 'rejected':
        raise Inconclusive('binding self-test failed: a prediction off by one column was accepted')

    n_ok = sum(1 for r in res if r[0] == 'ok')
    ck.cov['evaluations'] += len(vecs) + nfiles
    ck.cov['traces_validated_against_impl'] += sum(judged.values())
    ck.cov['distinct_nontrivial'] += sum(judged.values())
    ck.cov['vectors'] = len(vecs)
    ck.cov['exact'] = n_ok
    ck.cov['classes'] = len({v['cls'] for v in vecs})
    ck.cov['class_slot_pairs'] = len(pairs)
    ck.cov['shift_pairs_compared'] = npairs
    ck.cov['shift_groups'] = sum(1 for g in groups.values() if len(g) > 1)
    ck.cov['repository_workflows_bounds_checked'] = '%d files, %d diagnostics' % (nfiles, nfdiags)
    ck.cov['rule'] = ('every (diagnostic class, placement) of the TLC state spaces of Position.tla (%s), dumped with the abstract '
                      'document and the predicted line:col; each rendered (renderer verified against yaml.v3 and against the '
                      'layout of the specification), linted by the real Linter.Lint, compared exactly; non-trivial = vectors whose '
                      'class was diagnosed and judged (all vectors predict a diagnostic)' % '; '.join(c for c, _ in PLANS[tier]))
    ck.cov['exhaustive'] = True
    ck.sample({'class': selftest[0]['cls'], 'placement': selftest[0]['p'], 'line_text': selftest[0]['tline'],
               'predicted': selftest[0]['exp'], 'reported': selftest[2]})
    ck.assumptions += [
        'constructs are written on one line, plain or quoted without escape sequences, ASCII (the scope of the property); '
        'yaml.v3 counts columns in characters, the expression lexer in bytes - not distinguishable inside this scope',
        'the offending token of each class is the one named in the catalogue of Position.tla (first token of the offending '
        'sub-expression for semantic errors as in errorAtExpr, the unexpected character / token for syntax errors, the key or '
        'the value - quote included - for key / value errors; `needs` of an unknown job: the key of the depending job)',
        'k characters are inserted as blanks in front of the token (not in front of block mapping keys, where they would '
        'change the structure), as literal text in front of the placeholder, or as indentation; k lines as comment lines '
        'above the document or `---`',
        'diagnostics are recognised by rule name + a stable phrase of the message given in the catalogue; a class that is '
        'never diagnosed makes the check inconclusive',
    ]


def files_part(sd):
    roots = [os.path.join(vplib.REPO, 'testdata', d) for d in ('examples', 'err', 'ok')]
    roots = [r for r in roots if os.path.isdir(r)]
    if not roots:
        return [], 0, 0
    fo = os.path.join(sd, 'files-out.jsonl')
    vplib.run_harness(['position-files', fo] + roots, timeout=1200)
    bad, nd = [], 0
    outs = vplib.read_jsonl(fo)
    for o in outs:
        if o['err']:
            continue
        nd += len(o['diags'])
        b = bounds_bad(o['diags'], o['nlines'])
        if b:
            bad.append((o['file'], o['nlines'], b))
    return bad, len(outs), nd


def replay(path):
    rp = json.load(open(path))['replay']
    sd = vplib.subdir('c07r')
    if rp['kind'] == 'bounds-file':
        fo = os.path.join(sd, 'f.jsonl')
        vplib.run_harness(['position-files', fo, os.path.join(vplib.REPO, rp['file'])])
        o = vplib.read_jsonl(fo)[0]
        bad = bounds_bad(o['diags'], o['nlines'])
        print('%s: %d lines, diagnostics outside the file: %s' % (rp['file'], o['nlines'], bad))
        return 1 if bad else 0
    if rp['kind'] == 'shift':
        # relation between two real outputs: both stored texts are linted again
        vs = [rp['vector'], rp['reference']]
        fi, fo = os.path.join(sd, 'i.jsonl'), os.path.join(sd, 'o.jsonl')
        vplib.write_jsonl(fi, [{'id': i, 'src': v['src']} for i, v in enumerate(vs)])
        vplib.run_harness(['lint-batch', fi, fo])
        outs = vplib.read_jsonl(fo)
        if any(o.get('err') for o in outs):
            print('replay not applicable:', [o.get('err') for o in outs])
            return 2
        p1, p0 = positions(vs[0], {'diags': outs[0]['diags'] or []}), positions(vs[1], {'diags': outs[1]['diags'] or []})
        print(vs[1]['src'] + '  reference: reported at %s\n' % p0 + vs[0]['src'] + '  shifted: reported at %s' % p1)
        if len(p1) != len(expected(vs[0])) or len(p0) != len(expected(vs[1])):
            print('replay not applicable: the class is not reported as often as expected in both runs')
            return 2
        want = [(a - x, b - y) for (a, b), (x, y) in zip(expected(vs[0]), expected(vs[1]))]
        got = [(a - x, b - y) for (a, b), (x, y) in zip(p1, p0)]
        print('truth moves by %s, report moves by %s' % (want, got))
        return 1 if want != got else 0
    vs = [rp['vector']]
    outs = execute(sd, vs, 'replay')
    for v, o in zip(vs, outs):
        if o['err']:
            print('replay not applicable:', o['err'])
            return 2
        print(o['src'])
        print('  predicted %s for [%s] "%s"; reported at %s' % (expected(v), v['kind'], v['phrase'], positions(v, o)))
    if rp['kind'] == 'bounds':
        bad = bounds_bad(outs[0]['diags'], outs[0]['nlines'])
        print('diagnostics outside the file:', bad)
        return 1 if bad else 0
    if rp['kind'] == 'named':
        nb = named_wrong(vs[0], outs[0])
        print('earlier occurrence at %s, wrongly named: %s' % (vs[0]['prev'], nb))
        return 1 if nb else 0
    verdict, pos = judge(vs[0], outs[0])
    print('->', 'property holds' if verdict == 'ok' else 'not diagnosed' if verdict == 'undiagnosed' else 'VIOLATED')
    return 1 if verdict == 'wrong' else 0
