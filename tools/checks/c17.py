"""C17 - filter patterns are validated exactly by the documented glob syntax.

E: TLC checks Glob.tla (scanner == declarative syntax, ref => path, columns, termination) for all
   strings over the 21-symbol alphabet up to MaxLen.
G: the same run dumps every string with the predicted error list; the real ValidateRefGlob /
   ValidatePathGlob are run on every one and compared (class, column, named character).
   A sample is also pushed through Linter.Lint for all six filter keys (binds rule_glob.go).
T: random longer strings are run on the real code, recorded, and validated by TLC (GlobTrace).
"""
import json
import os
import random

import vplib
from vplib import Inconclusive

LEVEL = 'model_checking'

ALPHA = json.load(open(os.path.join(vplib.SPEC, 'glob_alphabet.json')))
BYCODE = {v: k for k, v in ALPHA.items()}
BYCODE[0xfffd] = 'bad' 
BYCODE[-1] = 'eof'
BYCODE[-2] = 'none'

# rule_glob.go: which validator each filter key of a webhook event goes to (Glob.tla, comment at WF)
FILTER_KIND = {'branches': 'ref', 'branches-ignore': 'ref', 'tags': 'ref', 'tags-ignore': 'ref',
               'paths': 'path', 'paths-ignore': 'path'}


def concrete(syms):
    # "bad" stands for an invalid UTF-8 byte; in messages it is shown as U+FFFD
    return ''.join('\ufffd' if ALPHA[x] == -100 else chr(ALPHA[x]) for x in syms)


def conv(errs):
    out = []
    for e in errs:
        if e['cls'].startswith('unknown:'):
            raise Inconclusive('observable not understood (glob message): ' + e['cls'][8:])
        out.append({'cls': e['cls'], 'col': e['col'], 'ch': BYCODE.get(e['ch'], 'U+%04X' % e['ch'])})
    return out


def norm(errs):
    return [(e['cls'], e['col'], e['ch']) for e in errs]


def run(ck, tier):
    sd = vplib.subdir('c17')
    # ---- E + vector dump
    r = vplib.run_tlc('Glob', 'Glob_quick.cfg', dump='vectors', timeout=1200)
    ck.add_tlc('Glob exhaustive MaxLen=4 (21 symbols): scanner==syntax, ref=>path, columns, termination', r)
    if r.violated:
        raise Inconclusive('specification Glob.tla violates its own invariant %s (model-level only)' % r.violated)
    if tier == 'thorough':
        r5 = vplib.run_tlc('Glob', 'Glob_thorough.cfg', timeout=3000, heap='6g')
        ck.add_tlc('Glob exhaustive MaxLen=5', r5)
        if r5.violated:
            raise Inconclusive('specification Glob.tla violates its own invariant %s at MaxLen=5' % r5.violated)
    vecs = vplib.read_dump_json(os.path.join(r.dir, 'vectors.dump'))
    if len(vecs) != r.distinct:
        raise Inconclusive('dump has %d vectors, TLC reported %d states' % (len(vecs), r.distinct))
    # character classes need longer strings than the full alphabet allows: 7 symbols up to length 6
    rc = vplib.run_tlc('Glob', 'Glob_class.cfg', dump='vectors', timeout=1200, name='class')
    ck.add_tlc('Glob exhaustive MaxLen=6 over {[ ] - a TAB LF CR}: character classes and ranges with line breaks', rc)
    if rc.violated:
        raise Inconclusive('specification Glob.tla violates its own invariant %s (class alphabet)' % rc.violated)
    seen_s = {tuple(v['s']) for v in vecs}
    vecs += [v for v in vplib.read_dump_json(os.path.join(rc.dir, 'vectors.dump')) if tuple(v['s']) not in seen_s]
    # characters that OTHER layers give a meaning to but the filter syntax does not: U+3000, and $ { } (a ${{ }} in a
    # filter is not evaluated, it is pattern text)
    ro = vplib.run_tlc('Glob', 'Glob_ordinary.cfg', dump='vectors', timeout=1200, name='ordinary')
    ck.add_tlc('Glob exhaustive MaxLen=6 over {a $ { } SP U+3000 +}: placeholder-shaped text and unicode space are pattern characters', ro)
    if ro.violated:
        raise Inconclusive('specification Glob.tla violates its own invariant %s (ordinary alphabet)' % ro.violated)
    seen_s = {tuple(v['s']) for v in vecs}
    vecs += [v for v in vplib.read_dump_json(os.path.join(ro.dir, 'vectors.dump')) if tuple(v['s']) not in seen_s]
    rl = vplib.run_tlc('Glob', 'Glob_lowbyte.cfg', dump='vectors', timeout=600, name='lowbyte')
    ck.add_tlc('Glob exhaustive MaxLen=3 with non-ASCII letters whose low byte is a ref-forbidden ASCII character', rl)
    if rl.violated:
        raise Inconclusive('specification Glob.tla violates its own invariant %s (low-byte alphabet)' % rl.violated)
    seen_s = {tuple(v['s']) for v in vecs}
    vecs += [v for v in vplib.read_dump_json(os.path.join(rl.dir, 'vectors.dump')) if tuple(v['s']) not in seen_s]
    # ---- G: API level, every vector
    vplib.write_jsonl(os.path.join(sd, 'in.jsonl'), [{'id': i, 's': concrete(v['s'])} for i, v in enumerate(vecs)])
    vplib.run_harness(['glob-vectors', os.path.join(sd, 'in.jsonl'), os.path.join(sd, 'out.jsonl')])
    outs = vplib.read_jsonl(os.path.join(sd, 'out.jsonl'))
    nontrivial = 0
    differing = []      # real outputs that differ from the prediction: judged by TLC below
    real_by_pat = {}
    for v, o in zip(vecs, outs):
        real_ref, real_path = conv(o['ref']), conv(o['path'])
        real_by_pat[tuple(v['s'])] = {'ref': real_ref, 'path': real_path}
        if v['ref'] or v['path']:
            nontrivial += 1
        if norm(v['ref']) != norm(real_ref) or norm(v['path']) != norm(real_path):
            differing.append({'s': v['s'], 'ref': real_ref, 'path': real_path})
    ck.cov['evaluations'] += 2 * len(vecs)
    ck.cov['traces_validated_against_impl'] += len(vecs)
    ck.cov['distinct_nontrivial'] += nontrivial
    ck.sample({'pattern': concrete(vecs[len(vecs) // 3]['s']), 'predicted': vecs[len(vecs) // 3]})
    # ---- G: through Linter.Lint for each filter key
    lint_part(ck, sd, vecs, real_by_pat, 3000 if tier == 'quick' else 30000)
    # ---- T: random long strings validated by TLC
    n = 20000 if tier == 'quick' else 150000
    trace = os.path.join(sd, 'trace.ndjson')
    vplib.run_harness(['glob-random', os.path.join(vplib.SPEC, 'glob_alphabet.json'), str(n), '5', '24',
                       str(vplib.seed()), trace])
    pre = ''.join(json.dumps(d) + '\n' for d in differing[:5000])
    validate_trace(ck, pre + open(trace).read(), n + len(differing[:5000]),
                   '%d vectors whose real output differs from the prediction + random strings of length 5..24' % len(differing))
    if tier == 'thorough':
        # binding self-test: a corrupted record must be rejected
        lines = open(trace).read().splitlines()[:200]
        rec = json.loads(lines[100])
        rec['ref'] = rec['ref'] + [{'cls': 'quant', 'col': 1, 'ch': 'q'}]
        lines[100] = json.dumps(rec)
        t = vplib.run_tlc('GlobTrace', 'GlobTrace.cfg', workers=1, files={'trace.ndjson': '\n'.join(lines) + '\n'},
                          name='selftest', timeout=600)
        mism, _ = parse_mism(t.out)
        ck.cov['binding_selftest'] = 'rejected' if mism == [101] else 'NOT rejected: %r' % (mism,)
        if mism != [101]:
            raise Inconclusive('binding self-test failed: corrupted record not rejected')
    ck.cov['rule'] = ('every string over the 21-symbol alphabet up to length 4 (TLC state space, dumped with the '
                      'predicted error list) run on ValidateRefGlob/ValidatePathGlob; non-trivial = at least one '
                      'predicted error; plus Linter.Lint renderings and random long strings validated by TLC')
    ck.cov['exhaustive'] = True
    ck.assumptions += ['alphabet representatives stand for their classes (ordinary a/b, non-ASCII U+00E9, control U+0001)',
                       'invalid UTF-8 and NUL bytes are outside the modelled alphabet',
                       'message classes are recognised by anchor phrases; an unknown message makes the check inconclusive']


def parse_mism(out):
    import re
    m = re.search(r'<<\s*"MISM",\s*(\d+),\s*<<(.*?)>>,\s*<<(.*?)>>\s*>>', out, re.S)
    if not m:
        raise Inconclusive('trace validation produced no verdict:\n' + out[-2000:])

    def ints(body):
        body = body.strip()
        return [int(x) for x in body.replace('\n', ' ').split(',') if x.strip()] if body else []
    return ints(m.group(2)), ints(m.group(3))


def validate_trace(ck, text, n, what):
    t = vplib.run_tlc('GlobTrace', 'GlobTrace.cfg', workers=1, files={'trace.ndjson': text}, timeout=3000)
    ck.add_tlc('GlobTrace: %d recorded executions (%s)' % (n, what), t)
    mism, drift = parse_mism(t.out)
    lines = text.splitlines()
    for idx in mism:
        rec = json.loads(lines[idx - 1])
        ck.violation('trace', 'pattern %r: the real validators return ref=%s path=%s, which the declarative syntax of '
                     'Glob.tla rejects (verdict, ref=>path or column/character rule)'
                     % (concrete(rec['s']), norm(rec['ref']), norm(rec['path'])),
                     {'kind': 'trace', 'record': rec, 'pattern': concrete(rec['s'])})
    only_drift = [i for i in drift if i not in set(mism)]
    if only_drift:
        rec = json.loads(lines[only_drift[0] - 1])
        ck.note('model drift: %d recorded executions satisfy the property but differ from the operational model '
                '(error list), e.g. %s' % (len(only_drift), json.dumps(rec)))
        ck.cov['model_drift_records'] = len(only_drift)
    ck.cov['traces_validated_against_impl'] += n
    ck.cov['evaluations'] += n
    ck.sample({'trace_record': json.loads(lines[-1])})


def yaml_quote(s, style):
    if style == 'single':
        return "'" + s.replace("'", "''") + "'"
    out = '"'
    for ch in s:
        if ch == '\\':
            out += '\\\\'
        elif ch == '"':
            out += '\\"'
        else:
            out += ch
    return out + '"'


def lint_part(ck, sd, vecs, real_by_pat, limit):
    rng = random.Random(vplib.seed())
    ok = [v for v in vecs if v['s'] and all(32 <= ALPHA[x] < 127 for x in v['s'])]
    rng.shuffle(ok)
    # always in the sample: placeholder-shaped patterns (another rule might skip "expressions") with an error
    def has_ph(v):
        t = concrete(v['s'])
        i_ = t.find('${{')
        return i_ >= 0 and t.find('}}', i_) > 0
    ph = [v for v in ok if has_ph(v) and (v['ref'] or v['path'])]
    ok = ph[:400] + [v for v in ok if not has_ph(v)][:limit]
    cases = []
    # patterns that are fine as a path and wrong as a ref (or the reverse): the same text under both kinds of
    # filter keys of one workflow, in both orders - no state may be carried from one pattern to the next
    cross = [v for v in ok if bool(v['ref']) != bool(v['path'])][:300]
    for i, v in enumerate(cross):
        pat = concrete(v['s'])
        q = yaml_quote(pat, 'single' if i % 2 else 'double')
        kp, kr = ('paths', 'paths-ignore')[i % 2], ('branches', 'branches-ignore', 'tags', 'tags-ignore')[i % 4]
        first, second = ((kp, kr), (kr, kp))[(i // 4) % 2]
        if kr.startswith('tags'):
            # tag filters exist for push only: both keys under push
            src = 'on:\n  push:\n    %s:\n      - %s\n    %s:\n      - %s\njobs:\n  j:\n    runs-on: ubuntu-latest\n    steps:\n      - run: echo\n' % (first, q, second, q)
            at = {first: 4, second: 6}
        else:
            src = ('on:\n  pull_request:\n    %s:\n      - %s\n  push:\n    %s:\n      - %s\njobs:\n  j:\n    runs-on: ubuntu-latest\n    steps:\n      - run: echo\n'
                   % (first, q, second, q))
            at = {first: 4, second: 7}
        cases.append({'v': v, 'key': '%s+%s' % (first, second), 'style': 'cross', 'src': src, 'lines': None, 'scol': 9,
                      'cross': [(FILTER_KIND[k], ln) for k, ln in at.items()]})
    for i, v in enumerate(ok):
        key = list(FILTER_KIND)[i % 6]
        style = 'single' if (i // 6) % 2 == 0 else 'double'
        indent = ' ' * (2 + (i % 3) * 2)
        pat = concrete(v['s'])
        head = 'on:\n  push:\n    %s:\n' % key
        pre = 0
        if i % 7 == 2:
            # events that are not webhook events (no filters) before the one that carries the filter
            head = 'on:\n  workflow_dispatch:\n  schedule:\n    - cron: \'0 0 * * *\'\n  push:\n    %s:\n' % key
            pre = 3
        item = '%s  - ' % indent[:4]
        q = yaml_quote(pat, style)
        tail = '\njobs:\n  j:\n    runs-on: ubuntu-latest\n    steps:\n      - run: echo\n'
        if i % 5 == 3:
            # the same pattern twice in one list and once more under a second event: every occurrence is validated
            if key.startswith('tags'):       # tag filters exist for push only
                src = head + item + q + '\n' + item + q + tail
                lines_ = [4 + pre, 5 + pre]
            else:
                src = head + item + q + '\n' + item + q + '\n  pull_request:\n    %s:\n' % key + item + q + tail
                lines_ = [4 + pre, 5 + pre, 8 + pre]
        else:
            src = head + item + q + tail
            lines_ = [4 + pre]
        cases.append({'v': v, 'key': key, 'style': style, 'src': src, 'lines': lines_, 'scol': len(item) + 1})
    vplib.write_jsonl(os.path.join(sd, 'lint_in.jsonl'), [{'id': i, 'src': c['src']} for i, c in enumerate(cases)])
    vplib.run_harness(['lint-batch', os.path.join(sd, 'lint_in.jsonl'), os.path.join(sd, 'lint_out.jsonl')])
    outs = vplib.read_jsonl(os.path.join(sd, 'lint_out.jsonl'))
    for c, o in zip(cases, outs):
        if o.get('err'):
            raise Inconclusive('Lint failed on a rendered workflow: ' + o['err'])
        # relation between two real outputs: API-level errors of this pattern vs. diagnostics of the linter
        got = sorted((d['line'], d['col']) for d in (o['diags'] or []) if d['kind'] == 'glob')
        if c.get('cross'):
            other = [d for d in (o['diags'] or []) if d['kind'] != 'glob' and not (d['kind'] == 'expression' and '${{' in c['src'])]
            if other:
                raise Inconclusive('rendered workflow has unrelated diagnostics: %r in %r' % (other[:2], c['src']))
            want = sorted((ln, c['scol'] + 1 + (e['col'] - 1 if e['col'] else 0)) for kind, ln in c['cross'] for e in real_by_pat[tuple(c['v']['s'])][kind])
            if got != want:
                ck.violation('lint:cross-kind', 'pattern %r under %s in one workflow: diagnostics at %s, the validators\' own errors for each kind '
                             'mapped by the position rule give %s' % (concrete(c['v']['s']), c['key'], got, want),
                             {'kind': 'lint', 'key': c['key'], 'style': 'cross', 'src': c['src'], 'expected_positions': want,
                              'observed_positions': got, 'pattern': concrete(c['v']['s'])})
            continue
        exp = real_by_pat[tuple(c['v']['s'])][FILTER_KIND[c['key']]]
        # (placeholder-shaped text in a filter also gets the expression rule's diagnostics: not this property's business)
        other = [d for d in (o['diags'] or []) if d['kind'] != 'glob' and not (d['kind'] == 'expression' and '${{' in c['src'])]
        if other:
            # the rendering itself must be clean apart from glob diagnostics
            raise Inconclusive('rendered workflow has unrelated diagnostics: %r in %r' % (other[:2], c['src']))
        want = sorted((ln, c['scol'] + 1 + (e['col'] - 1 if e['col'] else 0)) for e in exp for ln in c['lines'])
        if got != want:
            ck.violation('lint:%s' % c['key'],
                         'filter %s: %r: diagnostics at %s, the validator\'s own errors mapped by the position rule give %s' % (c['key'], concrete(c['v']['s']), got, want),
                         {'kind': 'lint', 'key': c['key'], 'style': c['style'], 'src': c['src'], 'expected_positions': want,
                          'observed_positions': got, 'pattern': concrete(c['v']['s'])})
    ck.cov['evaluations'] += len(cases)
    ck.cov['lint_renderings'] = len(cases)
    if cases:
        ck.sample({'workflow': cases[0]['src'], 'key': cases[0]['key']})


def replay(path):
    rp = json.load(open(path))['replay']
    sd = vplib.subdir('c17r')
    if rp['kind'] == 'lint':
        vplib.write_jsonl(os.path.join(sd, 'i.jsonl'), [{'id': 0, 'src': rp['src']}])
        vplib.run_harness(['lint-batch', os.path.join(sd, 'i.jsonl'), os.path.join(sd, 'o.jsonl')])
        o = vplib.read_jsonl(os.path.join(sd, 'o.jsonl'))[0]
        got = sorted([d['line'], d['col']] for d in (o['diags'] or []) if d['kind'] == 'glob')
        print('observed', got, 'expected', rp['expected_positions'])
        return 0 if got == [list(x) for x in rp['expected_positions']] else 1
    pat = rp['pattern']
    vplib.write_jsonl(os.path.join(sd, 'i.jsonl'), [{'id': 0, 's': pat}])
    vplib.run_harness(['glob-vectors', os.path.join(sd, 'i.jsonl'), os.path.join(sd, 'o.jsonl')])
    o = vplib.read_jsonl(os.path.join(sd, 'o.jsonl'))[0]
    print('pattern %r: real ref=%s path=%s' % (pat, conv(o['ref']), conv(o['path'])))
    rec = {'s': rp['record']['s'], 'ref': conv(o['ref']), 'path': conv(o['path'])}
    t = vplib.run_tlc('GlobTrace', 'GlobTrace.cfg', workers=1, files={'trace.ndjson': json.dumps(rec) + '\n'}, timeout=600)
    mism, drift = parse_mism(t.out)
    print('property violated' if mism else 'property holds', '(model drift)' if drift else '')
    return 1 if mism else 0
