"""C20 - shellcheck/pyflakes integration loses nothing and bounds concurrency.

E: TLC checks ProcPool.tla (one action per critical section of process.go / the rule waits /
   LintFiles) for every task layout, tool outcome pattern and Cap of the bounded universe:
   |holders| <= Cap, WaitGroup accounting, no Add after Wait, Collected (nothing in flight when
   results are returned), NoLoss, fatal <=> some tool failed, termination (liveness);
   ToolInput.tla: effective shell -> tool, Sanitize (operational == declarative).
G: the configurations (TLC's initial states), the shell combinations and the scripts are dumped
   and materialised: real workflow files, stand-in shellcheck/pyflakes processes programmed per
   task (ok / issues / empty / crash / signal / garbage / cannot start) with adversarial latency.
T: every run of the real LintFiles/LintFile is recorded through the `verif` schedule-point hooks
   (seeded delays at every point; Cap = NumCPU controlled with taskset) and TLC validates each
   recorded execution against ProcPool (ProcPoolTrace.tla), together with what the stand-in
   processes measured themselves: exactly one invocation per script, stdin bytes, maximum number
   of simultaneously alive tool processes, none alive when the call returned.
"""
import json
import os
import random
import re
import subprocess
import sys

import vplib
from vplib import Inconclusive

sys.path.insert(0, os.path.dirname(os.path.dirname(os.path.abspath(__file__))))
import tlaval  # noqa: E402

LEVEL = 'model_checking'

BAD_SC = ['empty', 'crash', 'signal', 'garbage', 'sigout', 'empty0', 'trailer', 'twoarrays']
BAD_PY = ['empty', 'signal', 'sigout']


def parse_mism(out):
    m = re.search(r'<<\s*"MISM",\s*(\d+),\s*<<(.*?)>>,\s*<<\s*>>\s*>>', out, re.S)
    if not m:
        raise Inconclusive('trace validation produced no verdict:\n' + out[-3000:])
    pairs = re.findall(r'<<\s*(\d+),\s*(\d+)\s*>>', m.group(2))
    return [(int(a), int(b)) for a, b in pairs]


def scenario_from_cfg(sid, seq, out, rng, nostart=''):
    files = []
    plan = {}
    meta = []     # per file list of [rule, outcome-class, n]
    for f, tasks in enumerate(seq, 1):
        steps = []
        row = []
        for i, t in enumerate(tasks, 1):
            tok = 'F%dT%d' % (f, i)
            rule = t['rule']
            o = out[(f, i)]
            shell = 'python' if rule == 'py' else rng.choice(['', 'bash', 'sh'])
            body = 'import os  # tok=%s' % tok if rule == 'py' else 'echo hello  # tok=%s' % tok
            n = 0
            if o == 'ok':
                conc = 'ok'
            elif o == 'issues':
                conc = 'issues'
                n = rng.randint(1, 3)
            else:
                conc = rng.choice(BAD_SC if rule == 'sc' else BAD_PY)
            if nostart == rule:
                o, conc = 'bad', 'ok'
            plan[tok] = {'outcome': conc, 'delay_ms': rng.choice([0, 1, 3, 8, 15, 25]), 'n': n}
            steps.append({'tok': tok, 'shell': shell, 'script': body})
            row.append({'id': [f, i], 'rule': rule, 'out': o, 'n': n})
        files.append({'default_shell': '', 'jobs': [{'default_shell': '', 'runs_on': '', 'steps': steps}]})
        meta.append(row)
    return {'id': sid, 'files': files, 'plan': plan, 'nostart': nostart,
            'hook_delay_us': rng.choice([0, 50, 300, 1000]), 'single': len(files) == 1 and rng.random() < 0.5}, meta


def run_scenarios(scs, cap_cpus, sd, tag):
    inp = os.path.join(sd, 'sc-%s.jsonl' % tag)
    outp = os.path.join(sd, 'out-%s.jsonl' % tag)
    vplib.write_jsonl(inp, scs)
    h = vplib.build_harness()
    cmd = [h, 'pool-run', inp, outp]
    env = dict(os.environ)
    if cap_cpus:
        cmd = ['taskset', '-c', cap_cpus] + cmd
        # more scheduler threads than CPUs: the bound on tool processes is the number of CPUs, not GOMAXPROCS
        env['GOMAXPROCS'] = '8'
    try:
        p = subprocess.run(cmd, stdout=subprocess.PIPE, stderr=subprocess.PIPE, timeout=1800, env=env)
    except subprocess.TimeoutExpired:
        raise Inconclusive('pool-run timeout')
    if p.returncode not in (0, 3):
        raise Inconclusive('pool-run failed rc=%s: %s' % (p.returncode, p.stderr.decode()[-2000:]))
    return vplib.read_jsonl(outp), p.returncode == 3


def trace_of(res, meta, sc):
    """ndjson records of one recorded run, in the vocabulary of ProcPoolTrace.tla"""
    tok2id = {}
    for f, row in enumerate(meta, 1):
        for i, t in enumerate(row, 1):
            tok2id['F%dT%d' % (f, i)] = [f, i]
    recs = [{'ev': 'config', 'run': res['id'], 'cap': res['cap'],
             'seq': [[{'id': t['id'], 'rule': t['rule'], 'out': t['out']} for t in row] for row in meta]}]
    gid_file = {}
    rw_count = {}
    for e in res['events'] or []:
        ev = e['ev']
        if ev in ('add', 'go', 'acq', 'start', 'exit', 'rel', 'done'):
            tid = tok2id.get(e.get('tok', ''))
            if tid is None:
                recs.append({'ev': 'unknown-task-' + ev})
                continue
            if ev == 'add':
                gid_file[e['gid']] = tid[0]
            r = {'ev': ev, 't': tid}
            if ev == 'exit':
                r['err'] = bool(e.get('err'))
            recs.append(r)
        elif ev == 'rwait':
            f = gid_file.get(e['gid'])
            if f is None:
                continue        # a file without tasks is not part of the model
            k = rw_count.get(f, 0)
            rw_count[f] = k + 1
            recs.append({'ev': 'rwait', 'f': f, 'rule': 'sc' if k == 0 else 'py'})
        elif ev == 'pwait':
            recs.append({'ev': 'pwait'})
        elif ev == 'ret':
            starts = [[0 for _ in row] for row in meta]
            extra = 0
            ivs = {}
            for t in res['tool'] or []:
                key = (t['tok'], t['pid'])
                if t['ev'] == 'start':
                    tid = tok2id.get(t['tok'])
                    if tid is None:
                        extra += 1
                    else:
                        starts[tid[0] - 1][tid[1] - 1] += 1
                    ivs.setdefault(key, [None, None])[0] = t['t']
                else:
                    ivs.setdefault(key, [None, None])[1] = t['t']
            alive = sum(1 for a, b in ivs.values() if b is None or b > res['t_ret'])
            pts = []
            for a, b in ivs.values():
                if a is not None:
                    pts.append((a, 1))
                    pts.append((b if b is not None else res['t_ret'], -1))
            pts.sort(key=lambda x: (x[0], x[1]))
            cur = mx = 0
            for _, d in pts:
                cur += d
                mx = max(mx, cur)
            if sc['nostart']:
                for row_i, row in enumerate(meta):
                    for j, t in enumerate(row):
                        if t['rule'] == sc['nostart'] and starts[row_i][j] == 0:
                            starts[row_i][j] = 1      # that tool cannot be started in this scenario by construction
            nd = [[len((res['diags'] or {}).get('F%dT%d' % (f, i), [])) for i, _ in enumerate(row, 1)]
                  for f, row in enumerate(meta, 1)]
            recs.append({'ev': 'ret', 'fatal': bool(res['fatal']), 'alive': alive, 'maxalive': mx, 'extra_starts': extra,
                         'starts': starts, 'ndiags': nd, 'issues': [[t['n'] for t in row] for row in meta]})
    return recs


def run(ck, tier):
    sd = vplib.subdir('c20')
    rng = random.Random(vplib.seed())
    # ------------------------------------------------------------------ E
    r = vplib.run_tlc('ProcPoolMC', 'ProcPool_quick.cfg' if tier == 'quick' else 'ProcPool_full3.cfg', timeout=3000)
    ck.add_tlc('ProcPool: 3 tasks over <=3 files x 2 rules x 3 outcomes x Cap 1..2, safety + termination', r)
    if r.violated:
        raise Inconclusive('ProcPool.tla violates %s (model level)' % r.violated)
    rb = vplib.run_tlc('ProcPoolMC', 'ProcPool_bug.cfg', timeout=600)
    ck.add_tlc('ProcPool sanity: the variant that returns before proc.wait() on a fatal error must violate Collected', rb)
    if rb.violated != 'Collected':
        raise Inconclusive('vacuity guard: the WaitOnError=FALSE variant no longer violates Collected')
    if tier == 'thorough':
        r4 = vplib.run_tlc('ProcPoolMC', 'ProcPool_thorough.cfg', timeout=3400, heap='8g')
        ck.add_tlc('ProcPool: 4 tasks, safety', r4)
        if r4.violated:
            raise Inconclusive('ProcPool.tla violates %s at 4 tasks (model level)' % r4.violated)
    rs = vplib.run_tlc('ToolInput', 'ToolInput_shell.cfg', dump='vectors', timeout=600, name='shell')
    ck.add_tlc('ToolInput: effective shell, all (step, job, workflow, runner) combinations', rs)
    rz = vplib.run_tlc('ToolInput', 'ToolInput_san.cfg', dump='vectors', timeout=600, name='san')
    ck.add_tlc('ToolInput: Sanitize, all scripts over {$,{,},LF} up to length 6', rz)
    rz2 = vplib.run_tlc('ToolInput', 'ToolInput_san2.cfg', dump='vectors', timeout=600, name='san2')
    ck.add_tlc('ToolInput: Sanitize, all scripts over {$,{,},a} up to length 5', rz2)
    for x in (rs, rz, rz2):
        if x.violated:
            raise Inconclusive('ToolInput.tla violates %s (model level)' % x.violated)
    # ------------------------------------------------------------------ G/T: process pool
    rc = vplib.run_tlc('ProcPoolMC', 'ProcPool_scen.cfg', dump='configs', timeout=600, name='scen')
    configs = []
    for st in tlaval.read_dump(os.path.join(rc.dir, 'configs.dump')):
        c = st['cfg']
        out = {tuple(k): v for k, v in c['out']}
        configs.append((c['seq'], out))
    if not configs:
        raise Inconclusive('no configurations dumped')
    rng.shuffle(configs)
    nrun = 240 if tier == 'quick' else 1500
    scs, metas = [], {}
    sid = 0
    while len(scs) < nrun:
        seq, out = configs[sid % len(configs)]
        sid += 1
        nostart = ''
        if sid % 23 == 0:
            nostart = rng.choice(['sc', 'py'])
            if not any(t['rule'] == nostart for row in seq for t in row):
                nostart = ''
        sc, meta = scenario_from_cfg(sid, seq, out, rng, nostart)
        scs.append(sc)
        metas[sid] = (sc, meta)
    groups = {'0': [], '0,1': [], '': []}
    for k, sc in enumerate(scs):
        groups[['0', '0,1', ''][k % 3]].append(sc)
    # one scenario whose first tool invocation takes 6.5 s: a slow tool is waited for, never given up on
    seq, out = next(c_ for c_ in configs if all(v == 'ok' or v == 'issues' for v in c_[1].values()))
    sid += 1
    sc, meta = scenario_from_cfg(sid, seq, out, rng)
    first_tok = sorted(sc['plan'])[0]
    sc['plan'][first_tok]['delay_ms'] = 6500
    sc['hook_delay_us'] = 0
    scs.append(sc)
    metas[sid] = (sc, meta)
    groups[''].insert(0, sc)
    all_res = []
    vplib.build_harness()
    from concurrent.futures import ThreadPoolExecutor
    with ThreadPoolExecutor(3) as ex:       # the three affinity groups are separate processes
        futs = {cpus: ex.submit(run_scenarios, g, cpus, sd, 'cap' + (cpus.replace(',', '_') or 'all')) for cpus, g in groups.items()}
    for cpus, fu in futs.items():
        res, hang = fu.result()
        all_res += res
        if hang:
            last = res[-1]
            ck.violation('pool:hang', 'scenario %d did not return within 60 s' % last['id'],
                         {'kind': 'pool', 'scenario': metas[last['id']][0], 'cpus': cpus})
    lines = []
    owner = []
    for res in all_res:
        if res.get('panic'):
            if not res['panic'].startswith('HANG'):
                ck.violation('pool:panic', 'panic in scenario %d: %s' % (res['id'], res['panic']),
                             {'kind': 'pool', 'scenario': metas[res['id']][0]})
            continue
        if res['other']:
            raise Inconclusive('unexpected diagnostics in a pool scenario: %r' % res['other'][:3])
        sc, meta = metas[res['id']]
        for rec in trace_of(res, meta, sc):
            lines.append(json.dumps(rec))
            owner.append(res['id'])
    t = vplib.run_tlc('ProcPoolTrace', 'ProcPoolTrace.cfg', workers=1, files={'trace.ndjson': '\n'.join(lines) + '\n'},
                      timeout=3000, heap='4g')
    ck.add_tlc('ProcPoolTrace: %d recorded executions (%d events) of LintFiles/LintFile with stand-in tools' % (len(all_res), len(lines)), t)
    by_id = {res['id']: res for res in all_res}
    for run_id, l in parse_mism(t.out):
        sc, meta = metas[run_id]
        rec = json.loads(lines[l - 1])
        res = by_id[run_id]
        site = 'pool:' + rec['ev']
        ck.violation(site, 'recorded execution %d is not a behaviour of ProcPool.tla: rejected at event %s (cap=%d, fatal=%s)'
                     % (run_id, json.dumps(rec), res['cap'], res['fatal']),
                     {'kind': 'pool', 'scenario': sc, 'event': rec, 'cap': res['cap'],
                      'events': [e for e in (res['events'] or [])][:400]})
    ck.cov['traces_validated_against_impl'] += len(all_res)
    ck.cov['evaluations'] += len(all_res)
    ck.cov['pool_runs'] = len(all_res)
    ck.cov['pool_events'] = len(lines)
    ck.cov['pool_runs_fatal'] = sum(1 for r_ in all_res if r_['fatal'])
    ck.cov['caps_exercised'] = sorted({r_['cap'] for r_ in all_res})
    ck.sample({'scenario': scs[0], 'first_events': (all_res[0]['events'] or [])[:12]})
    # ------------------------------------------------------------------ S: TLC behaviours forced onto the real goroutines
    gate_part(ck, sd, tier, rng)
    # ------------------------------------------------------------------ G: shell routing and stdin bytes
    tool_input_part(ck, sd, rs, [rz, rz2], tier)
    ck.cov['distinct_nontrivial'] += ck.cov['pool_runs_fatal'] + ck.cov.get('shell_vectors', 0)
    ck.cov['rule'] = ('pool: configurations = initial states of ProcPool (task layout x outcome pattern), each run with seeded '
                      'tool latencies and hook delays under Cap 1, 2 and NumCPU; shell: all 1024 (step, job, workflow, runner) '
                      'combinations; sanitize: all scripts over 4 characters up to length 6; non-trivial = fatal runs + shell vectors')
    ck.assumptions += ['stand-in processes are told what to do per task token; real shellcheck/pyflakes are not installed',
                       'interleavings of the real goroutines are sampled (seeded delays), not enumerated; the model is enumerated',
                       'Cap is runtime.NumCPU() of the linting process, set through the CPU affinity mask (taskset); the capped '
                       'groups run with GOMAXPROCS=8 (> Cap)']
    if tier == 'thorough':
        # binding self-test: drop one "rel" event -> the trace must be rejected
        k = next(i for i, ln in enumerate(lines) if '"ev": "rel"' in ln)
        first_run = owner[k]
        seg = [ln for ln, o in zip(lines, owner) if o == first_run]
        seg.remove(lines[k])
        t2 = vplib.run_tlc('ProcPoolTrace', 'ProcPoolTrace.cfg', workers=1, files={'trace.ndjson': '\n'.join(seg) + '\n'},
                           name='selftest', timeout=600)
        ok = len(parse_mism(t2.out)) == 1
        ck.cov['binding_selftest'] = 'rejected' if ok else 'NOT rejected'
        if not ok:
            raise Inconclusive('binding self-test failed: a trace without its Release event was accepted')


def read_behaviours(d):
    """behaviours written by `tlc -simulate file=beh`: list of (cfg, [last, ...])"""
    import tempfile
    out = []
    for fn in sorted(os.listdir(d)):
        if not fn.startswith('beh_'):
            continue
        txt = ''.join(l for l in open(os.path.join(d, fn)) if not l.startswith('\\*') and not l.startswith('----') and not l.startswith('===='))
        tmp = os.path.join(d, fn + '.flt')
        open(tmp, 'w').write(txt)
        states = list(tlaval.read_dump(tmp))
        if len(states) < 2:
            continue
        out.append((states[0]['cfg'], [st['last'] for st in states[1:]]))
    return out


def gate_part(ck, sd, tier, rng):
    n = 60 if tier == 'quick' else 600
    r = vplib.run_tlc('ProcPoolSim', 'ProcPoolSim.cfg', workers=1, simulate='file=beh,num=%d' % n, depth=150,
                      extra=['-seed', str(vplib.seed())], timeout=1200, name='sim')
    behs = read_behaviours(r.dir)
    if not behs:
        raise Inconclusive('TLC wrote no behaviours')
    scs, metas = [], {}
    silent = {'callback', 'edone', 'egwait', 'end', 'init'}
    for k, (cfg, lasts) in enumerate(behs):
        out = {tuple(a): b for a, b in cfg['out']}
        sid = 500000 + k
        sc, meta = scenario_from_cfg(sid, cfg['seq'], out, rng)
        for p in sc['plan'].values():
            p['gated'] = True
            p['delay_ms'] = 0
        sc['hook_delay_us'] = 0
        sc['single'] = False
        sc['schedule'] = [{'ev': l[0], 'f': l[1][0], 'i': l[1][1]} for l in lasts if l[0] not in silent]
        sc['cap'] = cfg['cap']
        scs.append(sc)
        metas[sid] = (sc, meta)
    groups = {'0': [x for x in scs if x['cap'] == 1], '0,1': [x for x in scs if x['cap'] == 2]}
    from concurrent.futures import ThreadPoolExecutor
    with ThreadPoolExecutor(2) as ex:
        futs = {cpus: ex.submit(run_scenarios, g, cpus, sd, 'gate' + cpus.replace(',', '_')) for cpus, g in groups.items() if g}
    all_res = []
    for cpus, fu in futs.items():
        res, hang = fu.result()
        all_res += res
        if hang:
            last = res[-1]
            ck.violation('gate:hang', 'gated scenario %d did not return within 60 s' % last['id'],
                         {'kind': 'pool', 'scenario': metas[last['id']][0], 'cpus': cpus})
    lines, owner = [], []
    stuck = []
    followed = 0
    for res in all_res:
        if res.get('panic'):
            if not res['panic'].startswith('HANG'):
                ck.violation('gate:panic', 'panic in gated scenario %d: %s' % (res['id'], res['panic']), {'kind': 'pool', 'scenario': metas[res['id']][0]})
            continue
        if res['other']:
            raise Inconclusive('unexpected diagnostics in a gated scenario: %r' % res['other'][:3])
        sc, meta = metas[res['id']]
        if res['cap'] != sc['cap']:
            raise Inconclusive('taskset did not give the expected capacity: %s vs %s' % (res['cap'], sc['cap']))
        if res.get('gate_stuck'):
            stuck.append((res['id'], res['gate_stuck'], res.get('gate_granted')))
        else:
            followed += 1
        for rec in trace_of(res, meta, sc):
            lines.append(json.dumps(rec))
            owner.append(res['id'])
    t = vplib.run_tlc('ProcPoolTrace', 'ProcPoolTrace.cfg', workers=1, files={'trace.ndjson': '\n'.join(lines) + '\n'},
                      timeout=3000, heap='4g', name='gatetrace')
    ck.add_tlc('ProcPoolTrace: %d TLC behaviours (simulate, depth<=150) forced onto the real goroutines through the hook gate' % len(all_res), t)
    by_id = {res['id']: res for res in all_res}
    for run_id, l in parse_mism(t.out):
        sc, meta = metas[run_id]
        rec = json.loads(lines[l - 1])
        ck.violation('gate:' + rec['ev'], 'execution %d forced along a TLC behaviour is not a behaviour of ProcPool.tla: rejected at %s'
                     % (run_id, json.dumps(rec)), {'kind': 'pool', 'scenario': sc, 'event': rec, 'cap': by_id[run_id]['cap']})
    ck.cov['gated_behaviours'] = len(all_res)
    ck.cov['gated_behaviours_followed_to_the_end'] = followed
    ck.cov['traces_validated_against_impl'] += len(all_res)
    ck.cov['evaluations'] += len(all_res)
    if stuck:
        ck.note('scheduler gate: %d of %d TLC behaviours could not be followed by the real code to the end (model allows an order the '
                'implementation does not take; not a violation), e.g. run %s stuck at %s after %s steps'
                % (len(stuck), len(all_res), stuck[0][0], stuck[0][1], stuck[0][2]))
        ck.cov['gated_behaviours_stuck'] = len(stuck)
    if followed == 0:
        raise Inconclusive('no TLC behaviour could be forced onto the real code: the gate does not bind')
    ck.sample({'gated_schedule_prefix': scs[0]['schedule'][:14]})


def tool_input_part(ck, sd, rs, rz, tier):
    shell_vecs = [v for v in vplib.read_dump_json(os.path.join(rs.dir, 'vectors.dump')) if v.get('kind') == 'shell']
    san_vecs = []
    for rzx in rz:
        san_vecs += [v for v in vplib.read_dump_json(os.path.join(rzx.dir, 'vectors.dump')) if v.get('kind') == 'sanitize']
    scs = []
    expect = {}
    sid = 100000
    # shell routing: one file per (workflow default, job default, runner) with one step per step-shell value
    by_ctx = {}
    for v in shell_vecs:
        by_ctx.setdefault((v['wf'], v['job'], v['win']), []).append(v)
    for (wf, job, win), vs in sorted(by_ctx.items(), key=lambda kv: (kv[0][0], kv[0][1], kv[0][2])):
        sid += 1
        steps = []
        plan = {}
        for k, v in enumerate(vs):
            tok = 'S%dK%d' % (sid, k)
            body = 'x = 1  # tok=%s' % tok
            steps.append({'tok': tok, 'shell': v['step'], 'script': body})
            plan[tok] = {'outcome': 'ok', 'delay_ms': 0, 'n': 0}
            setup = {'sc:bash': 'set -eo pipefail\n', 'sc:sh': 'set -e\n'}.get(v['tool'], '')
            expect[tok] = {'tool': v['tool'], 'stdin': (setup + body + '\n' + ('\n' if setup else '')) if v['tool'] != 'none' else None,
                           'vec': v}
        # a decoy job BEFORE the job under test: its runner / default shell must not leak into the next job
        dtok = 'S%dD' % sid
        dbody = 'y = 2  # tok=%s' % dtok
        decoy_win = not win
        decoy_shell = 'python' if job != 'python' else 'bash'
        decoy = {'default_shell': decoy_shell, 'runs_on': 'windows-latest' if decoy_win else '', 'steps': [{'tok': dtok, 'shell': '', 'script': dbody}]}
        plan[dtok] = {'outcome': 'ok', 'delay_ms': 0, 'n': 0}
        dtool = 'py' if decoy_shell == 'python' else 'sc:bash'
        dsetup = 'set -eo pipefail\n' if dtool == 'sc:bash' else ''
        expect[dtok] = {'tool': dtool, 'stdin': dsetup + dbody + '\n' + ('\n' if dsetup else ''),
                        'vec': {'kind': 'shell', 'step': '', 'job': decoy_shell, 'wf': wf, 'win': decoy_win, 'tool': dtool, 'decoy': True}}
        scs.append({'id': sid, 'files': [{'default_shell': wf, 'jobs': [decoy, {'default_shell': job, 'runs_on': 'windows-latest' if win else '',
                                                                                'steps': steps}]}],
                    'plan': plan, 'nostart': '', 'hook_delay_us': 0, 'single': True})
    ck.cov['shell_vectors'] = len(shell_vecs)
    # many tool callbacks at the same instant: 48 python and 24 shell steps with 25 issues each in one file - no diagnostic is lost
    sid += 1
    hsteps, hplan, hexpect = [], {}, {}
    for k in range(72):
        tok = 'H%dK%d' % (sid, k)
        py = k % 3 != 2
        hsteps.append({'tok': tok, 'shell': 'python' if py else '', 'script': ('x = %d  # tok=%s' if py else 'echo %d  # tok=%s') % (k, tok)})
        hplan[tok] = {'outcome': 'issues', 'delay_ms': 5, 'n': 25}
        hexpect[tok] = 25
    heavy_id = sid
    scs.append({'id': sid, 'files': [{'default_shell': '', 'jobs': [{'default_shell': '', 'runs_on': '', 'steps': hsteps}]}],
                'plan': hplan, 'nostart': '', 'hook_delay_us': 0, 'single': True})
    # identical scripts: every step is passed to the tool, however often the same text (after sanitising) occurs
    sid += 1
    dsteps, dplan = [], {}
    for tok, bodies in (('DUPA', ['echo same  # tok=DUPA'] * 3),
                        ('DUPB', ['echo ${{ github.sha }} # tok=DUPB', 'echo ${{ github.ref }} # tok=DUPB']),
                        ('DUPC', ['x = 1  # tok=DUPC'] * 2)):
        for b_ in bodies:
            dsteps.append({'tok': tok, 'shell': 'python' if tok == 'DUPC' else '', 'script': b_})
        dplan[tok] = {'outcome': 'ok', 'delay_ms': 0, 'n': 0}
        first = bodies[0]
        san = re.sub(r'\$\{\{.*?\}\}', lambda m_: '_' * len(m_.group(0)), first)
        expect[tok] = {'tool': 'py' if tok == 'DUPC' else 'sc:bash', 'count': len(bodies),
                       'stdin': (san + '\n') if tok == 'DUPC' else 'set -eo pipefail\n' + san + '\n\n',
                       'vec': {'kind': 'shell', 'step': '', 'job': '', 'wf': '', 'win': False, 'tool': 'dup', 'identical_scripts': len(bodies)}}
    scs.append({'id': sid, 'files': [{'default_shell': '', 'jobs': [{'default_shell': '', 'runs_on': '', 'steps': dsteps}]}],
                'plan': dplan, 'nostart': '', 'hook_delay_us': 0, 'single': True})
    # sanitize: bash and python steps, 24 scripts per file
    batch = []
    for v in san_vecs:
        batch.append(v)
    for b0 in range(0, len(batch), 24):
        sid += 1
        steps = []
        plan = {}
        for k, v in enumerate(batch[b0:b0 + 24]):
            tok = 'Z%dK%d' % (sid, k)
            py = (b0 + k) % 3 == 2
            body = '# tok=%s\n' % tok + ''.join(v['s']).replace('N', '\n') + '\n# end'
            steps.append({'tok': tok, 'shell': 'python' if py else '', 'script': body})
            plan[tok] = {'outcome': 'ok', 'delay_ms': 0, 'n': 0}
            want = '# tok=%s\n' % tok + ''.join(v['out']).replace('N', '\n') + '\n# end\n'
            expect[tok] = {'tool': 'py' if py else 'sc:bash', 'stdin': want if py else 'set -eo pipefail\n' + want + '\n', 'vec': v}
        scs.append({'id': sid, 'files': [{'default_shell': '', 'jobs': [{'default_shell': '', 'runs_on': '', 'steps': steps}]}],
                    'plan': plan, 'nostart': '', 'hook_delay_us': 0, 'single': True})
    from concurrent.futures import ThreadPoolExecutor
    nchunk = 6
    chunks = [scs[i::nchunk] for i in range(nchunk)]
    with ThreadPoolExecutor(nchunk) as ex:
        outs = list(ex.map(lambda a: run_scenarios(a[1], '', sd, 'toolinput%d' % a[0]), enumerate(chunks)))
    res = []
    for r_, hang in outs:
        res += r_
        if hang:
            raise Inconclusive('tool-input scenarios hung')
    seen = {}
    for r_ in res:
        if r_.get('panic'):
            ck.violation('toolinput:panic', r_['panic'], {'kind': 'toolinput', 'scenario': next(s for s in scs if s['id'] == r_['id'])})
            continue
        if r_['fatal']:
            raise Inconclusive('tool-input scenario failed fatally: ' + r_.get('fatal_msg', ''))
        if r_['id'] == heavy_id:
            lost = {t_: len((r_['diags'] or {}).get(t_, [])) for t_, n_ in hexpect.items() if len((r_['diags'] or {}).get(t_, [])) != n_}
            if lost:
                ck.violation('toolinput:lost-diagnostics', '72 steps x 25 issues in one file: %d steps did not get exactly 25 diagnostics, e.g. %s'
                             % (len(lost), dict(list(lost.items())[:4])), {'kind': 'toolinput', 'scenario': 'heavy', 'lost': lost})
            ck.cov['heavy_callback_diagnostics'] = sum(len(v_) for v_ in (r_['diags'] or {}).values())
        for t in r_['tool'] or []:
            if t['ev'] == 'start':
                seen.setdefault(t['tok'], []).append(t)
    # the heavy scenario once more under the race detector: the callbacks of one rule append to shared state concurrently
    hsc = next(s_ for s_ in scs if s_['id'] == heavy_id)
    vplib.write_jsonl(os.path.join(sd, 'heavy-race.jsonl'), [hsc])
    pr = vplib.run_harness(['pool-run', os.path.join(sd, 'heavy-race.jsonl'), os.path.join(sd, 'heavy-race-out.jsonl')], race=True, check=False,
                           timeout=900, env={'GORACE': 'halt_on_error=0 exitcode=0'})
    err_ = pr.stderr.decode('utf-8', 'replace')
    races = err_.count('WARNING: DATA RACE')
    if pr.returncode != 0 and not races:
        raise Inconclusive('race build of the heavy callback scenario failed rc=%s: %s' % (pr.returncode, err_[-800:]))
    if races:
        m_ = re.search(r'WARNING: DATA RACE.*?(?=\n==================|\Z)', err_, re.S)
        rep = m_.group(0)[:2500] if m_ else ''
        fn = re.findall(r'actionlint\.([A-Za-z0-9_.()*]+)\(\)', rep)
        ck.violation('toolinput:data-race', 'the race detector reports %d data race(s) while 72 tool callbacks of one file run concurrently; first: %s'
                     % (races, ' / '.join(fn[:4])), {'kind': 'toolinput', 'scenario': 'heavy-race', 'report': rep})
    ck.cov['heavy_callback_race_reports'] = races
    nshell = nsan = 0
    for tok, ex in expect.items():
        got = seen.get(tok, [])
        v = ex['vec']
        if ex['tool'] == 'none':
            nshell += 1
            if got:
                ck.violation('shell:unexpected-tool', 'step shell=%r job=%r workflow=%r windows=%r: script was passed to %s although its '
                             'effective shell is %s' % (v['step'], v['job'], v['wf'], v['win'], [g['kind'] for g in got], 'not bash/sh/python'),
                             {'kind': 'shell', 'vec': v})
            continue
        kind = 'sanitize' if v['kind'] == 'sanitize' else 'shell'
        if kind == 'shell':
            nshell += 1
        else:
            nsan += 1
        want_kind = 'py' if ex['tool'] == 'py' else 'sc'
        if len(got) != ex.get('count', 1) or any(g_['kind'] != want_kind for g_ in got):
            ck.violation('%s:invocations' % kind, 'script %r expected exactly %d %s invocation(s), observed %s (vector %s)'
                         % (tok, ex.get('count', 1), ex['tool'], [g['kind'] for g in got], json.dumps(v)), {'kind': kind, 'vec': v})
            continue
        g = got[0]
        if want_kind == 'sc':
            sh = ex['tool'].split(':')[1]
            argv = g.get('argv') or []
            if '--shell' not in argv or argv[argv.index('--shell') + 1] != sh:
                ck.violation('shell:dialect', 'shellcheck started with %s, effective shell is %s (vector %s)' % (argv, sh, json.dumps(v)),
                             {'kind': kind, 'vec': v})
        if any(g_['stdin'] != ex['stdin'] for g_ in got):
            g = next(g_ for g_ in got if g_['stdin'] != ex['stdin'])
            ck.violation('%s:stdin' % kind, 'tool input differs: expected %r, tool received %r (vector %s)'
                         % (ex['stdin'], g['stdin'], json.dumps(v)), {'kind': kind, 'vec': v, 'expected': ex['stdin'], 'observed': g['stdin']})
    ck.cov['evaluations'] += nshell + nsan
    ck.cov['traces_validated_against_impl'] += nshell + nsan
    ck.cov['sanitize_vectors'] = nsan
    ck.sample({'sanitize_vector': san_vecs[len(san_vecs) // 2]})


def replay(path):
    rp = json.load(open(path))['replay']
    sd = vplib.subdir('c20r')
    if rp['kind'] != 'pool':
        print('replay of tool-input vectors: re-run the check')
        return 1
    sc = rp['scenario']
    bad = 0
    for k in range(20):
        sc2 = dict(sc, id=sc['id'])
        res, hang = run_scenarios([sc2], rp.get('cpus', '0'), sd, 'replay%d' % k)
        if hang:
            print('hang reproduced')
            return 1
        # rebuild meta from the scenario
        meta = []
        for f, fl in enumerate(sc['files'], 1):
            row = []
            for i, s in enumerate(fl['jobs'][0]['steps'], 1):
                p = sc['plan'][s['tok']]
                rule = 'py' if s['shell'] == 'python' else 'sc'
                o = 'ok' if p['outcome'] == 'ok' else 'issues' if p['outcome'] == 'issues' else 'bad'
                if sc['nostart'] == rule:
                    o = 'bad'
                row.append({'id': [f, i], 'rule': rule, 'out': o, 'n': p['n']})
            meta.append(row)
        lines = [json.dumps(x) for x in trace_of(res[0], meta, sc)]
        t = vplib.run_tlc('ProcPoolTrace', 'ProcPoolTrace.cfg', workers=1, files={'trace.ndjson': '\n'.join(lines) + '\n'},
                          name='replay%d' % k, timeout=600)
        if parse_mism(t.out):
            bad += 1
    print('%d of 20 re-executions rejected' % bad)
    return 1 if bad else 0
