#!/usr/bin/env python3
"""setup_cmd: build the framework from files on disk only (offline).  Warms the Go build cache with the
harness (built against /repo's working tree) and checks that the specifications parse."""
import os
import subprocess
import sys

sys.path.insert(0, os.path.dirname(os.path.abspath(__file__)))
import vplib  # noqa: E402

try:
    vplib.build_harness()
    print('harness built')
except vplib.Inconclusive as e:
    print(e)
    sys.exit(1)
bad = 0
for f in sorted(os.listdir(vplib.SPEC)):
    if f.endswith('.tla'):
        p = subprocess.run(['tla-sany', f], cwd=vplib.SPEC, stdout=subprocess.PIPE, stderr=subprocess.STDOUT, text=True)
        ok = p.returncode == 0 and '*** Errors' not in p.stdout and 'Fatal errors' not in p.stdout
        print('sany %-24s %s' % (f, 'ok' if ok else 'FAILED'))
        if not ok:
            print(p.stdout[-1500:])
            bad += 1
# a specification that does not parse makes only the checks that use it inconclusive
if bad:
    print('WARNING: %d specification(s) do not parse' % bad)
sys.exit(0)
