#!/usr/bin/env python3
"""Regenerates the table of seeded changes in DESIGN.md (between the SEEDED-TABLE markers) from seeded/*/meta.json."""
import glob
import json
import os
import re

V = os.path.dirname(os.path.dirname(os.path.abspath(__file__)))
rows = []
for f in sorted(glob.glob(os.path.join(V, 'seeded', '*', 'meta.json')), key=lambda p: (re.sub(r'-.*', '', os.path.basename(os.path.dirname(p))), p)):
    m = json.load(open(f))
    name = os.path.basename(os.path.dirname(f))
    if not m.get('valid'):
        verdict = 'not a valid change any more (demo passes with it on the current tree: equivalent after later fixes)'
    else:
        caught = m.get('caught_by') or []
        sites = []
        for r in m.get('ran', []):
            if r['exit'] == 1:
                sites.append('%s `%s`' % (r['check'], '`, `'.join(s.rstrip(':') for s in r['sites'][:2])))
        verdict = '; '.join(sites) if caught else '**MISSED** by ' + ', '.join('%s (exit %s)' % (r['check'], r['exit']) for r in m.get('ran', []))
    summ = (m.get('summary') or '').replace('|', '\\|').replace('\n', ' ')
    if len(summ) > 230:
        summ = summ[:227] + '...'
    rows.append('| %s | %s | %s |' % (name, summ, verdict))
table = '| change | what (as described by its author) | last result of the checks on it |\n|--------|------|------|\n' + '\n'.join(rows)
p = os.path.join(V, 'DESIGN.md')
s = open(p).read()
a, b = '<!-- SEEDED-TABLE-BEGIN -->', '<!-- SEEDED-TABLE-END -->'
if a in s:
    s = s[:s.index(a) + len(a)] + '\n' + table + '\n' + s[s.index(b):]
    open(p, 'w').write(s)
print(len(rows), 'rows;', sum('MISSED' in r for r in rows), 'missed')
