#!/usr/bin/env python3
"""Validates mutations delivered by the independent mutation agents and records them under seeded/.

  seedtest.py <property> <mutout-dir> [check-property ...]

For every patch-i.diff in <mutout-dir>: fresh worktree of /repo HEAD under /tmp, (1) patch applies and builds,
(2) `go test .` stays green with it, (3) the demo test passes without and fails with the patch,
(4) the registered checks of the listed properties (default: the property itself, quick tier) are run with
VERIF_REPO=<worktree>; the result (caught by which check / site, or missed) goes to seeded/<property>-<i>/meta.json.
The worktree and its build output are removed afterwards.  /repo itself is never modified.
"""
import json
import os
import re
import shutil
import subprocess
import sys

V = os.path.dirname(os.path.dirname(os.path.abspath(__file__)))
ENV = dict(os.environ, GOFLAGS='-mod=mod', GOPROXY='off', GOSUMDB='off', GOTOOLCHAIN='local')


def sh(cmd, cwd=None, env=None, timeout=3600):
    p = subprocess.run(cmd, cwd=cwd, env=env or ENV, stdout=subprocess.PIPE, stderr=subprocess.STDOUT, text=True, timeout=timeout)
    return p.returncode, p.stdout


def main():
    prop, mdir = sys.argv[1], sys.argv[2]
    checks = sys.argv[3:] or [prop]
    tier = os.environ.get('SEED_TIER', 'quick')
    results = []
    for i in range(1, 10):
        patch = os.path.join(mdir, 'patch-%d.diff' % i)
        if not os.path.exists(patch):
            continue
        demo = os.path.join(mdir, 'demo-%d_test.go' % i)
        meta_in = {}
        try:
            meta_in = json.load(open(os.path.join(mdir, 'meta-%d.json' % i)))
        except Exception:
            pass
        wt = '/tmp/seed-%s-%d' % (prop, i)
        sh(['git', '-C', '/repo', 'worktree', 'remove', '--force', wt])
        shutil.rmtree(wt, ignore_errors=True)
        rc, out = sh(['git', '-C', '/repo', 'worktree', 'add', '--detach', wt, 'HEAD'])
        rec = {'property': prop, 'index': i, 'summary': meta_in.get('summary'), 'manifests_when': meta_in.get('manifests_when'),
               'files': meta_in.get('files'), 'ran': []}
        try:
            demo_name = 'zz_mutdemo_test.go'
            have_demo = os.path.exists(demo)
            if have_demo:
                shutil.copy(demo, os.path.join(wt, demo_name))
                rc, out = sh(['go', 'test', '-count=1', '-run', 'TestMutDemo', '.'], cwd=wt)
                rec['demo_passes_without'] = rc == 0
                os.remove(os.path.join(wt, demo_name))
            rc, out = sh(['git', 'apply', patch], cwd=wt)
            if rc != 0:
                # the tree moved on since the change was written (later fix: / hook commits): three-way merge
                rc, out = sh(['git', 'apply', '-3', patch], cwd=wt)
                rec['applied_three_way'] = rc == 0
                sh(['git', 'reset', '-q'], cwd=wt)
            rec['applies'] = rc == 0
            if rc != 0:
                rec['note'] = out[-500:]
                rec['valid'] = False
                print('%s-%s%d does not apply to the current tree: %s' % (prop, os.environ.get('SEED_TAG', ''), i, out[-200:]))
                results.append(rec)
                continue
            rc, out = sh(['go', 'test', '-count=1', '.'], cwd=wt)
            rec['tests_green_with_change'] = rc == 0
            if have_demo:
                shutil.copy(demo, os.path.join(wt, demo_name))
                rc, out = sh(['go', 'test', '-count=1', '-run', 'TestMutDemo', '.'], cwd=wt)
                rec['demo_fails_with'] = rc != 0
                os.remove(os.path.join(wt, demo_name))
            rec['valid'] = bool(rec.get('applies') and rec.get('tests_green_with_change') and rec.get('demo_passes_without') and rec.get('demo_fails_with'))
            caught = []
            for c in checks:
                e = dict(os.environ, VERIF_REPO=wt, VERIF_SEED=os.environ.get('VERIF_SEED', '1'), VERIF_OUT_DIR=wt + '-out')
                rc, out = sh(['python3', os.path.join(V, 'tools', 'vp.py'), 'check', c, '--tier', tier], cwd=V, env=e)
                sites = sorted(set(re.findall(r'site=([^ ]+?):? ', out)))
                rec['ran'].append({'check': c, 'tier': tier, 'exit': rc, 'sites': sites[:12]})
                if rc == 1:
                    caught.append(c)
            rec['caught_by'] = caught
        finally:
            sh(['git', '-C', '/repo', 'worktree', 'remove', '--force', wt])
            shutil.rmtree(wt, ignore_errors=True)
            shutil.rmtree(wt + '-out', ignore_errors=True)
        d = os.path.join(V, 'seeded', '%s-%s%d' % (prop, os.environ.get('SEED_TAG', ''), i))
        os.makedirs(d, exist_ok=True)
        shutil.copy(patch, os.path.join(d, 'patch.diff'))
        if os.path.exists(demo):
            shutil.copy(demo, os.path.join(d, 'demo_test.go.txt'))
        json.dump(rec, open(os.path.join(d, 'meta.json'), 'w'), indent=1)
        results.append(rec)
        print('%s-%s%d valid=%s caught_by=%s %s' % (prop, os.environ.get('SEED_TAG', ''), i, rec.get('valid'), rec.get('caught_by'),
                                                  [(r['check'], r['exit'], r['sites'][:3]) for r in rec['ran']]))
    return 0


if __name__ == '__main__':
    sys.exit(main())
