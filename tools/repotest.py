#!/usr/bin/env python3
"""Runs /repo's test suite with the verif tag OFF (and optionally ON) and compares with the stable
baseline of /root/.vp/BASELINE.json: every stable_pass test must pass."""
import json
import os
import subprocess
import sys

base = json.load(open('/root/.vp/BASELINE.json'))
stable = set(base['stable_pass'])
env = dict(os.environ, GOFLAGS='-mod=mod', GOPROXY='off', GOSUMDB='off', GOTOOLCHAIN='local')


def run(tags):
    cmd = ['go', 'test', '-mod=mod', '-json', '-vet=off', '-count=1', '-timeout', '25m']
    if tags:
        cmd += ['-tags', tags]
    cmd.append('./...')
    p = subprocess.run(cmd, cwd='/repo', env=env, stdout=subprocess.PIPE, stderr=subprocess.STDOUT, text=True)
    passed = set()
    failed = set()
    for line in p.stdout.splitlines():
        try:
            ev = json.loads(line)
        except ValueError:
            continue
        if ev.get('Test') and ev.get('Action') in ('pass', 'fail'):
            name = '%s::%s' % (ev['Package'], ev['Test'])
            (passed if ev['Action'] == 'pass' else failed).add(name)
    missing = sorted(stable - passed)
    print('tags=%r: %d passed, %d failed, stable baseline %d, stable tests not passing: %d' % (
        tags, len(passed), len(failed), len(stable), len(missing)))
    for m in missing[:20]:
        print('  NOT PASSING:', m)
    return not missing


ok = run('')
if len(sys.argv) > 1 and sys.argv[1] == 'both':
    ok = run('verif') and ok
sys.exit(0 if ok else 1)
