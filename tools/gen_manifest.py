#!/usr/bin/env python3
"""Writes /verif/MANIFEST.json from the table below (one entry per property that has a check)."""
import json
import os

V = os.path.dirname(os.path.dirname(os.path.abspath(__file__)))

BASELINE_OFF = ("cd /repo && GOFLAGS=-mod=mod GOPROXY=off GOSUMDB=off GOTOOLCHAIN=local "
                "go test -mod=mod -json -vet=off -count=1 -timeout 25m ./...")

CHECKS = {
    'C17': dict(
        category='model_checking', design_ref='5 (C17), 3.3 Glob',
        technique='TLA+ spec Glob.tla checked exhaustively by TLC (scanner == declarative syntax); TLC-generated '
                  'vectors replayed into ValidateRefGlob/ValidatePathGlob and Linter.Lint; recorded executions of '
                  'the real validators validated by TLC (GlobTrace.tla)',
        text='TLC proves on the model that the scanner and the declarative filter-pattern syntax agree for every '
             'string up to the bound; the real validators are bound to the model on the same complete set of strings '
             '(predicted error lists) and on random longer strings whose recorded outputs TLC judges with the '
             'declarative syntax alone. Right level: the validator is a self-contained function with rich case analysis.',
        note='bounded: all strings <= 4 (quick) / <= 5 (thorough, model only) over 21 symbol classes, <= 6 over the 7-symbol class '
             'alphabet and over {a $ { } SP U+3000 +}, <= 3 with five low-byte look-alikes; longer strings sampled; the linter part samples 3 000 / 30 000 patterns under '
             'the six filter keys plus 300 cross-kind cases; message classes recognised by anchor phrases'),
    'C18': dict(
        category='model_checking', design_ref='5 (C18), 3.3 Needs',
        technique='TLA+ spec Needs.tla (DFS/collectCycle/printing walk vs. declarative Cyclic/IsCyclePath) checked by '
                  'TLC for every graph and every map order; TLC-dumped graphs replayed into RuleJobNeeds (AST and '
                  'YAML+Lint); recorded outputs validated by TLC (NeedsTrace.tla) with graph-theoretic predicates',
        text='TLC shows the algorithm exact and terminating on every graph of the bounded universes for every root '
             'order; the real rule is run on the same graphs and on random larger ones and each recorded output is '
             'judged by TLC with the declarative layer only (dangling references, cyclic iff a cycle diag, printed '
             'path is a simple cycle of the graph, reported at its first job).',
        note='exhaustive: 1-3 jobs (ordered lists, two distinct dangling ids, duplicates), 4 jobs (all edge sets); 5..12 jobs random; '
             'eight graphs of 300-700 jobs judged in the driver by the same declarative property (TLC reachability is cubic); '
             'Go map order varied by repetition only; a hang is detected by a 20 s watchdog'),
    'C19': dict(
        category='model_checking', design_ref='5 (C19), 3.3 Matrix',
        technique='TLA+ spec Matrix.tla (Equals/isYAMLValueSubset/duplicate and exclude procedures vs. declarative '
                  'StructEq/Matches/Candidates) checked by TLC; every matrix of the state space rendered to YAML in '
                  'permuted variants and replayed into the real linter, diagnostics compared with the predicted set',
        text='TLC shows the procedures exact, StructEq an equivalence and the verdicts order-insensitive on the bounded '
             'universe; the real parser + RuleMatrix are bound to the model on the complete set of generated matrices '
             '(two permutation variants each), comparing the exact set of diagnostics by value identity.',
        note='universe: 20 raw values of depth <= 2 (incl. scalars equal as numbers but not as text), one or two rows of <= 3 values, '
             'include lists with the expression element at any position, one exclude combination '
             '(plus expression rows/sections/elements); YAML rendering in flow style; positions map diagnostics to values'),
    'C20': dict(
        category='model_checking', design_ref='5 (C20), 3.4 ProcPool, A.8, Appendix B',
        technique='TLA+ spec ProcPool.tla (one action per critical section of process.go/LintFiles) model-checked by TLC '
                  'incl. liveness; executions of the real pool recorded through verif-tag schedule-point hooks with '
                  'stand-in tool processes and validated by TLC (ProcPoolTrace.tla); ToolInput.tla vectors (effective '
                  'shell, Sanitize) replayed through the real rules and compared with what the stand-in received',
        text='Exhaustive interleaving exploration of the pool design (|running| <= Cap, WaitGroup accounting, Collected, '
             'NoLoss, fatal iff a tool failed, termination) for all small task layouts/outcome patterns, and trace '
             'validation of hundreds of real multi-file runs under Cap 1, 2 and NumCPU with fault injection, each '
             'run also judged by measurements taken by the real child processes (alive at return, max overlap, stdin).',
        note='real goroutine interleavings are sampled with seeded delays and, for 60 / 600 TLC simulation behaviours, forced through '
             'the hook gate; capped groups run with GOMAXPROCS above Cap; one 6.5 s tool; one file with 72 concurrent callbacks also under '
             'the race detector; scripts with CR LF are not generated; stand-in tools replace '
             'shellcheck/pyflakes; Cap controlled through CPU affinity; scripts stay below the pipe buffer size'),
    'C02': dict(
        category='model_checking', design_ref='5 (C02), 3.4 Emission, A.7',
        technique='TLA+ spec Emission.tla (every iteration order of every map-sourced emission site and of the jobs; '
                  'stable sort) checked by TLC; witness inputs for every catalogued site linted repeatedly by the real '
                  'code (map order re-randomised, GOMAXPROCS 1..16, multi-file); all outcomes recorded and validated by '
                  'TLC (EmissionTrace.tla: equal to the first outcome of the input, sorted, ties in rule order); the same '
                  'multi-file inputs forced through every serial order of the file goroutines (hook gate of C10); one Linter '
                  'reused for several runs; rendered -format output; process working directory cycled; a wall-clock probe '
                  'around a cron boundary',
        text='The model characterises exactly which emission sites can make the output order-dependent; for each such '
             'site of the code a witness input is run many times and any two differing real outputs are a violation '
             '(sound by construction, detection probabilistic: >= 64 runs per witness in quick, 400 in thorough).',
        note='Go map order cannot be forced (repetition); goroutine schedules are forced only as serial orders of the file '
             'goroutines; the wall clock is probed at 2-3 instants around one boundary; sites outside the catalogue (DESIGN A.7) are not '
             'exercised; one known finding (multi-file attribution of a shared broken local action) is listed in known_findings.json'),
    'C10': dict(
        category='model_checking', design_ref='5 (C10), 3.4 Linter, A.9',
        technique='TLA+ spec Linter.tla (project resolution, callee registration, cache read/miss/write of the file workers) '
                  'model-checked by TLC for every argument order and interleaving, with two counterexample guards; the '
                  'argument sequences are materialised as real sibling repositories and run through LintFiles vs LintFile; '
                  'outcomes validated by TLC (EmissionTrace.tla); TLC simulation behaviours of LinterSim.tla (programs read off a '
                  'recorded run) forced onto the real file goroutines through verif-tag hook points at the shared caches '
                  '(scheduler gate) and compared with single-file runs; -race stress run; fingerprint of the built-in tables',
        text='The model proves attribution and per-file isolation for all orders/interleavings provided containment is '
             'segment-wise and the two interface derivations agree (both assumptions have a TLC counterexample when '
             'dropped); the real code is compared file by file against single-file runs for every argument sequence '
             'and GOMAXPROCS 1,2,16, and checked with the race detector and table fingerprints.',
        note='race detector and free goroutine schedules observe only executed interleavings; the gate forces 60 (quick) / '
             '600 (thorough) sampled interleavings of the cache operations, not all; 5-file layout with 2 sibling '
             'repositories plus targeted layouts; callees well-formed except in the shared-broken layout (reported once per run)'),
    'C12': dict(
        category='model_checking', design_ref='5 (C12), 3.1 Availability, 5.22',
        technique='TLA+ spec Availability.tla (GitHub table transcribed from the offline docs copy, position catalogue, KeyOf) '
                  'checked by TLC; the complete (position x name x embedding) cross product dumped with predicted verdicts '
                  'and replayed through Linter.Lint and WorkflowKeyAvailability/ExprSemanticsChecker',
        text='The finite space (95 positions x 17 names x embeddings x base variants) is enumerated completely by TLC with a '
             'predicted allowed/not-allowed verdict from an independent transcription of GitHub documentation; the real '
             'linter is run on every vector and the API table compared row by row.',
        note='positions whose governing key the docs leave ambiguous (container env expression form) are not catalogued; '
             'positions without key are constrained only as far as 5.22 says; names embedded as fromJSON(toJSON(x))'),
    'C03': dict(
        category='model_checking', design_ref='5 (C03), 3.2 Schema/DocMutation/Routing',
        technique='TLA+ specs Schema.tla (workflow syntax as data, base workflows) and DocMutation.tla (placeholder mutations '
                  'with predicted observable) checked/enumerated by TLC; every vector rendered to YAML with known positions '
                  '(validated against yaml.v3) and replayed through Linter.Lint',
        text='Every scalar value position of the schema (114 scalar + matrix positions over 7 base workflows, all sibling '
             'configurations) x malformed placeholder variants is generated by TLC with the predicted located diagnostic; '
             'the real linter must report at that scalar (expression syntax class for template domains).',
        note='bases must lint clean (else inconclusive); a Go reflection guard maps every AST scalar field to a schema '
             'position; positions at bool/int/float domains use whole-scalar variants only'),
    'C13': dict(
        category='model_checking', design_ref='5 (C13), 3.2 Schema/DocMutation',
        technique='TLA+ specs Schema.tla + DocMutation.tla (InsertKey / DupKey in any letter case / DropKey of mandatory keys '
                  'at every mapping) enumerated by TLC with predicted diagnostics; replayed through the real parser and '
                  'linter; sibling diagnostics compared between the mutated and the reference document',
        text='Every fixed-key mapping of the schema (46 mappings) x foreign key / duplicate key (same, UPPER, Mixed case) / '
             'dropped mandatory key is enumerated completely; prediction: a syntax-check diagnostic at the key (item for '
             'schedule) and an unchanged multiset of all other diagnostics (no sibling suppression).',
        note='open mappings have no foreign key; duplicate keys carry a copy of the original value; missing-key verdict is '
             'presence of a "missing" diagnostic, its exact place is model drift only'),
    'C14': dict(
        category='model_checking', design_ref='5 (C14), 3.3 Calls',
        technique='TLA+ spec Calls.tla (declarative Expected(iface, call) vs. transcription of checkAction / '
                  'checkWorkflowCallUsesLocal / outputs typing and of every metadata derivation) checked by TLC; vectors '
                  'replayed through materialised local actions, synthetic bundled-table entries and reusable workflows on '
                  'three forced real paths (file, AST-first, caller-first); the complete bundled data set recorded and '
                  'validated by TLC (CallsTrace.tla)',
        text='TLC proves operational = declarative and agreement of the derivations on the bounded declaration/call '
             'universe; the real linter is bound on all generated vectors and on every entry of PopularActions / '
             'OutdatedPopularActionSpecs with >= 10 call sites each (2786 records judged by the declarative layer).',
        note='default: null is read per callee kind (actions: no default; reusable workflows: a default) - see Calls.tla; '
             'undeclared with.args/with.entrypoint are outside the universe; <= 3 inputs, <= 2 secrets, <= 2 outputs'),
    'C15': dict(
        category='model_checking', design_ref='5 (C15), 3.4 Filter, A.9',
        technique='TLA+ spec Filter.tla (file-system model, declarative filter/applicability/exit-status layer vs. code-like '
                  'layer) checked by TLC; every run vector (args x cwd x spelling x -ignore x config) replayed by running '
                  'the built actionlint binary and comparing stdout and exit status with the prediction',
        text='The run space is enumerated by TLC with the predicted surviving diagnostics (in order) and accepted exit '
             'statuses; ~6.5k (quick) / 76k (thorough) real process runs are compared, each violation re-run before it is reported.',
        note='patterns are QuoteMeta fragments so that "matches" is the abstract relation; unreadable file = missing file or '
             'directory (checks run as root); invalid -ignore regexp accepts exit 2 or 3'),
    'C16': dict(
        category='exploration', design_ref='5 (C16), 3.4 Report, 8',
        technique='TLA+ spec Report.tla (render homomorphism, matcher parse-back model, guard model of the snippet code) '
                  'checked by TLC; TLC-generated (line, col, source) triples and abstract diagnostic lists replayed into '
                  'PrettyPrint / GetTemplateFields / formatter; echo-site x hostile-string catalogue linted in 6 output '
                  'modes, records validated by TLC (ReportTrace.tla) incl. parse-back with the shipped matcher regexp',
        text='Rendering fidelity is an encode/decode property: the spec contributes the homomorphism, the matcher model and '
             'the snippet guard model; the harness explores 132 echo sites x 12-17 hostile string classes x 6 modes and '
             '~56k snippet triples. Level exploration because the diagnostic space is sampled through a catalogue.',
        note='matcher regexp executed with Go RE2 (JavaScript dialect differences assumed irrelevant); CR counted as a line '
             'break; shellcheck/pyflakes message texts not in the catalogue'),
    'C04': dict(
        category='model_checking', design_ref='5 (C04), 3.1 ExprLexer/ExprParser',
        technique='TLA+ specs ExprLexer.tla (DFA with one-character look-ahead vs. declarative token languages, longest viable '
                  'prefix) and ExprParser.tla (recursive descent vs. stratified grammar with tree building) checked by TLC; '
                  'dumped vectors / printed sentence tables replayed into the real lexer and parser (all 14^N token strings '
                  'enumerated against the table) and through Linter.Lint; random long inputs recorded and validated by TLC '
                  '(ExprTrace.tla)',
        text='TLC proves DFA = declarative tokenisation and parser = grammar (accepted iff derivable, the tree is the '
             'derivation tree, one error inside the text) on complete bounded spaces; the real code is bound on the same '
             'spaces with rotated concrete representatives and whitespace interleavings.',
        note='integer/float literals kept in range; BOM outside the alphabet; named deviation exponent-leading-zero is a '
             'listed known finding (pinned by an existing unit test)'),
    'C11': dict(
        category='model_checking', design_ref='5 (C11), 3.1 Untrusted, A.3',
        technique='TLA+ spec Untrusted.tla (matcher automaton over the intended visiting order vs. declarative access-chain '
                  'fold over the documented-path tree) checked by TLC; dumped expressions replayed into the real '
                  'ExprSemanticsChecker/UntrustedInputChecker and through Linter.Lint in script and non-script positions; '
                  'the real search tree cross-checked against the spec; random deep expressions validated by TLC '
                  '(UntrustedTrace.tla)',
        text='Automaton = declarative reports (same reports, same order) for all chains/spellings/embeddings of the bounded '
             'universe; the real checker must report exactly the predicted path sets, only in run: / github-script script:.',
        note='vectors with a semantic error are not applicable (~10 %); dynamic property names outside the universe; the '
             'documented set is the 20 leaf paths of the pinned table'),
    'C06': dict(
        category='model_checking', design_ref='5 (C06), 3.1 ExprTypes/ExprSema, A.6',
        technique='TLA+ specs ExprTypes.tla/ExprSema.tla (transcription of the type checker as Check(e, env) and the '
                  'single-step loosening relation) checked by TLC for any-monotonicity; every generated triple '
                  '(expression, env, loosened env) executed on the real ExprSemanticsChecker through the exported Update* '
                  'methods and on rendered workflows through Linter.Lint; records validated by TLC (ExprSemaTrace.tla)',
        text='TLC proves on the model that no single-step loosening (a type -> any, closed -> open object) turns an accepted '
             'expression into a rejected one (also at template positions); the property itself is then judged on two REAL '
             'outputs per triple (needs no model fidelity), and equality with the model is recorded as drift only.',
        note='universe = structured families (access chains <= 3, one/two-level consumers, six contexts, fromJSON literal vs '
             'expression), not all depth-3 expressions; property judged as acceptance, not error-set inclusion (see c06.py)'),
    'C07': dict(
        category='model_checking', design_ref='5 (C07), Position',
        technique='TLA+ spec Position.tla (documents rendered to text inside TLA+ = declarative truth of every target position, '
                  'vs. the operational column arithmetic of checkExprsIn / if-conditions / globs / key-value nodes) checked by '
                  'TLC incl. the shift law; every placement vector rendered (validated against yaml.v3) and linted, the '
                  'diagnostic of the class must sit exactly at the predicted position; shift relation on two real outputs',
        text='98 diagnostic classes x complete TLC placement spaces (indentation, nesting, block/flow, plain/single/double '
             'quoting, prefix text, earlier placeholders, inserted characters/lines): 19 k (quick) / 175 k (thorough) real '
             'lints with TLC-predicted (line, column); bounds 1 <= line <= #lines, col >= 1 on every diagnostic and on 195 testdata files.',
        note='one-line ASCII constructs without escape sequences only (as the property says); lexer EOF class excluded; one '
             'known finding (quoted matrix value, test-pinned struct literal)'),
    'C08': dict(
        category='model_checking', design_ref='5 (C08), Names',
        technique='TLA+ spec Names.tla (catalogue of name kinds x definition sites x use sites, per-site fold tables of the code vs. '
                  '"equal modulo case", flip law, negative controls) checked by TLC; every TLC state rendered twice (all lower '
                  'case vs. flipped spelling, same text length) and linted by the real code; the two real outputs compared',
        text='116 (kind, definition site, use site) scenarios incl. callee files, local actions, bundled actions and built-in '
             'tables, all occurrence subsets up to size 2-3 in a sink repository, plus a corpus re-spelling of all testdata '
             'workflows; verdict = relation between two real outputs, the spec supplies pairs and which must differ (controls).',
        note='JSON literals with two keys equal modulo case are outside the universe; permission scopes / service ids are '
             'notes only (not listed kinds)'),
    'C05': dict(
        category='model_checking', design_ref='5 (C05), 3.2 Scope/Visitor, A.2',
        technique='TLA+ spec Scope.tla (declarative InScope per A.2 vs. the visitor pass as a state machine with the rule state '
                  'records updated where the code updates them, every job order) checked by TLC; every generated (shape, site, '
                  'reference) vector rendered in every textual job permutation and linted, presence/absence and position of the '
                  'undefined-reference diagnostic compared with the prediction',
        text='TLC proves ScopeAgrees/EntryClean/AllSitesChecked on all shapes of the bounded universes (<= 3 jobs, <= 3 steps, '
             'every needs graph, matrix rows x include x exclude, inputs/secrets combinations); 110 k predicted verdicts are '
             'replayed against the real linter in quick, 1.3 M in thorough.',
        note='reusable-workflow jobs are remote only; a job never needs itself; references wrapped in toJSON(); refined A.2 '
             'reading for expression step ids (a literally known id keeps its property set)'),
    'C09': dict(
        category='model_checking', design_ref='5 (C09), 3.2 Visitor, Compose',
        technique='TLA+ specs Scope.tla (EntryClean: all per-job rule state initial at every JobPre, every job order) and '
                  'Compose.tla (generator of predecessor x subject compositions at job/step/expression level) checked/enumerated '
                  'by TLC; each composition linted and compared with the reduced workflow: the subject must get the same '
                  'multiset of diagnostics (relation between two real outputs); stand-in shellcheck/pyflakes make shell state observable',
        text='Catalogue of 35 job, 16 step and 19 expression constructs that bear rule state; 5 k (quick) / 194 k (thorough) '
             'compositions incl. every insertion position of the subject; leaks show as a difference between two real runs.',
        note='reduced workflow keeps the transitive needs closure; positions quoted inside messages are masked as offsets; '
             'callees well-formed (first-reporter attribution belongs to C02/C10)'),
    'C01': dict(
        category='exploration', design_ref='5 (C01), 8',
        technique='TLA+ specs Robust.tla (total case analysis position type x node kind x tag for parse.go and the yaml.v3 decoder '
                  'channels; generator of single and paired mutations with allowed outcome sets), RobustScan.tla (progress of '
                  'the placeholder scan loop) checked by TLC; every vector materialised on its input channel (workflow, '
                  'action.yml, reusable workflow, actionlint.yaml) and run through Command.Main in child processes with '
                  'bisection of failing batches; seeded byte-level driver whose records TLC validates (RobustTrace.tla)',
        text='TLA+/TLC decide that the design handles every (position, kind, tag) combination and that the scan loop '
             'terminates, and generate that product exhaustively; whether the Go code panics or hangs on an input is decided '
             'by executing it (about 125 k executions + 20 k random records in quick, about 1.5 M evaluations in thorough). Level exploration: '
             'byte strings far from any schema-derived document are reached only by the random driver.',
        note='per-input limit 2 s wall (a hang is confirmed by three runs alone and a 240 s run); one slow-but-terminating '
             'input class (quadratic snippet output for 8 k errors on one 57 KB line) is recorded as a note'),
}

REASON_NOT_YET = 'check not built yet in this revision of /verif (planned, see DESIGN.md section 5); not claimed'
ALL = ['C%02d' % i for i in range(1, 21)]


def main():
    checks = []
    for pid in ALL:
        if pid not in CHECKS:
            continue
        c = CHECKS[pid]
        checks.append({
            'property_id': pid,
            'quick_cmd': 'python3 tools/vp.py check %s --tier quick' % pid,
            'thorough_cmd': 'python3 tools/vp.py check %s --tier thorough' % pid,
            'evidence_file': 'evidence/%s.json' % pid,
            'replay_cmd_template': 'python3 tools/vp.py replay %s {path}' % pid,
            'engine': 'tlc+go-harness',
            'level_claimed': {'category': c['category'], 'text': c['text'], 'design_ref': c['design_ref']},
            'level_note': c['note'],
            'technique': c['technique'],
        })
    hooks_commits = []
    hp = os.path.join(V, 'hooks_commits.txt')
    if os.path.exists(hp):
        hooks_commits = [l.split()[0] for l in open(hp) if l.strip()]
    m = {
        'version': 1,
        'setup_cmd': 'python3 tools/setup.py',
        'hooks': {'guard': 'verif', 'enable': 'go build -tags verif (harness module with replace => /repo)',
                  'baseline_off_cmd': BASELINE_OFF, 'source_commits': hooks_commits, 'add_only': True},
        'engines': [{'name': 'tlc+go-harness', 'path': 'tools/vp.py',
                     'serves_properties': sorted(CHECKS),
                     'kind_free_text': 'TLA+ specifications under spec/ checked with TLC; TLC-generated vectors and '
                                       'schedules replayed into the real Go code through harness/; executions of the '
                                       'real code recorded as ndjson and validated by TLC trace specifications'}],
        'checks': checks,
        'notes': 'Exit codes of every check: 0 held, 1 violation (VIOLATION line + replay file), 2 inconclusive '
                 '(tool failure, never a violation). known_findings.json lists recorded defects and fixed: entries.',
        'not_applicable': [{'property_id': p, 'reason': REASON_NOT_YET} for p in ALL if p not in CHECKS],
    }
    with open(os.path.join(V, 'MANIFEST.json'), 'w') as f:
        json.dump(m, f, indent=1)
    print('MANIFEST.json: %d checks, %d not claimed' % (len(checks), len(m['not_applicable'])))


if __name__ == '__main__':
    main()
