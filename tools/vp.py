#!/usr/bin/env python3
"""Orchestrator of the /verif checks.

  vp.py check <property> [--tier quick|thorough]     exit 0 held / 1 violation / 2 inconclusive
  vp.py replay <property> <replay.json>              re-execute one stored violation on the real code
"""
import argparse
import importlib
import os
import sys
import traceback

sys.path.insert(0, os.path.dirname(os.path.abspath(__file__)))
import vplib  # noqa: E402


def main():
    ap = argparse.ArgumentParser()
    ap.add_argument('cmd', choices=['check', 'replay'])
    ap.add_argument('prop')
    ap.add_argument('path', nargs='?')
    ap.add_argument('--tier', default=os.environ.get('VERIF_TIER') or 'quick', choices=['quick', 'thorough'])
    a = ap.parse_args()
    mod = importlib.import_module('checks.' + a.prop.lower())
    if a.cmd == 'replay':
        sys.exit(mod.replay(a.path))
    ck = vplib.Check(a.prop, mod.LEVEL, a.tier)
    try:
        mod.run(ck, a.tier)
        rc = ck.finish()
    except vplib.Inconclusive as e:
        print('INCONCLUSIVE %s: %s' % (a.prop, e))
        rc = 2
    except Exception:
        traceback.print_exc()
        print('INCONCLUSIVE %s: internal error of the check' % a.prop)
        rc = 2
    sys.exit(rc)


if __name__ == '__main__':
    main()
